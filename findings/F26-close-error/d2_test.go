package d2

import (
	"errors"
	"fmt"
	"os"
	"runtime/debug"
	"strings"
	"sync/atomic"
	"testing"
	"time"

	"github.com/syndtr/goleveldb/leveldb"
	"github.com/syndtr/goleveldb/leveldb/opt"
	"github.com/syndtr/goleveldb/leveldb/storage"
)

// failClose: the Nth Close of a table file being written reports an error (the file is closed all the same,
// as os.File.Close does); everything else is the real file storage.
type failClose struct {
	storage.Storage
	n     int32
	armed int32
}

type fcWriter struct {
	storage.Writer
	s  *failClose
	fd storage.FileDesc
}

func (w *fcWriter) Close() error {
	err := w.Writer.Close()
	if err == nil && w.fd.Type == storage.TypeTable && atomic.LoadInt32(&w.s.armed) == 1 && strings.Contains(string(debug.Stack()), "tableCompactionBuilder") && atomic.AddInt32(&w.s.n, -1) == 0 {
		return errors.New("injected: close reported EIO")
	}
	return err
}

func (s *failClose) Create(fd storage.FileDesc) (storage.Writer, error) {
	w, err := s.Storage.Create(fd)
	if err != nil {
		return nil, err
	}
	return &fcWriter{w, s, fd}, nil
}

func TestCloseErrorStallsCompaction(t *testing.T) {
	dir, _ := os.MkdirTemp("", "d2")
	defer os.RemoveAll(dir)
	fs, err := storage.OpenFile(dir, false)
	if err != nil {
		t.Fatal(err)
	}
	st := &failClose{Storage: fs, n: 1}
	db, err := leveldb.Open(st, &opt.Options{WriteBuffer: 4096, CompactionTableSize: 2048})
	if err != nil {
		t.Fatal(err)
	}
	for i := 0; i < 400; i++ {
		db.Put([]byte(fmt.Sprintf("k%05d", i)), make([]byte, 100), nil)
	}
	db.CompactRange(utilRange())
	for i := 0; i < 400; i++ {
		db.Put([]byte(fmt.Sprintf("k%05d", i)), make([]byte, 101), nil)
	}
	atomic.StoreInt32(&st.armed, 1)
	done := make(chan error, 1)
	go func() { done <- db.CompactRange(utilRange()) }()
	select {
	case err := <-done:
		t.Logf("CompactRange returned: %v", err)
	case <-time.After(20 * time.Second):
		t.Fatalf("CompactRange still running 20s after one Close error")
	}
	// one transient error: the compaction is retried (1s back-off); the DB must become usable again
	deadline := time.Now().Add(30 * time.Second)
	var perr error
	for time.Now().Before(deadline) {
		perr = db.Put([]byte("after"), []byte("x"), nil)
		if perr == nil {
			perr = db.CompactRange(utilRange())
		}
		if perr == nil {
			break
		}
		time.Sleep(500 * time.Millisecond)
	}
	if perr != nil {
		t.Fatalf("30s after a single failed Close the DB still refuses work: %v", perr)
	}
	db.Close()
}
