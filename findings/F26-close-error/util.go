package d2

import "github.com/syndtr/goleveldb/leveldb/util"

func utilRange() util.Range { return util.Range{} }
