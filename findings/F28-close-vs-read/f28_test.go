package f28

import (
	"fmt"
	"runtime"
	"sync"
	"sync/atomic"
	"testing"

	"github.com/syndtr/goleveldb/leveldb"
	"github.com/syndtr/goleveldb/leveldb/opt"
	"github.com/syndtr/goleveldb/leveldb/storage"
)

// Readers race with DB.Close. A read that started before Close may fail (ErrClosed or a released-reader error),
// it must not crash the process.
func TestReadsRacingCloseDoNotPanic(t *testing.T) {
	var panics int32
	var first atomic.Value
	for round := 0; round < 300 && atomic.LoadInt32(&panics) == 0; round++ {
		st := storage.NewMemStorage()
		db, err := leveldb.Open(st, &opt.Options{WriteBuffer: 2048, DisableBlockCache: true, OpenFilesCacheCapacity: 2})
		if err != nil {
			t.Fatal(err)
		}
		for i := 0; i < 300; i++ {
			db.Put([]byte(fmt.Sprintf("k%04d", i)), make([]byte, 40), nil)
		}
		var wg sync.WaitGroup
		start := make(chan struct{})
		for g := 0; g < 2*runtime.NumCPU(); g++ {
			wg.Add(1)
			go func(g int) {
				defer wg.Done()
				defer func() {
					if x := recover(); x != nil {
						atomic.AddInt32(&panics, 1)
						first.Store(fmt.Sprint(x))
					}
				}()
				<-start
				for i := 0; i < 400; i++ {
					if _, err := db.Get([]byte(fmt.Sprintf("k%04d", (i*7+g)%300)), nil); err == leveldb.ErrClosed {
						return
					}
				}
			}(g)
		}
		close(start)
		runtime.Gosched()
		db.Close()
		wg.Wait()
	}
	if n := atomic.LoadInt32(&panics); n > 0 {
		t.Fatalf("%d reads racing with Close panicked; first: %v", n, first.Load())
	}
}
