package f30

import (
	"testing"
	"time"

	"github.com/syndtr/goleveldb/leveldb"
	"github.com/syndtr/goleveldb/leveldb/storage"
)

// SetReadOnly racing with Close: whatever SetReadOnly returns, Close must return.
func TestCloseReturnsWhenRacingSetReadOnly(t *testing.T) {
	for round := 0; round < 3000; round++ {
		db, err := leveldb.Open(storage.NewMemStorage(), nil)
		if err != nil {
			t.Fatal(err)
		}
		start := make(chan struct{})
		sro := make(chan error, 1)
		go func() { <-start; sro <- db.SetReadOnly() }()
		done := make(chan error, 1)
		go func() { <-start; done <- db.Close() }()
		close(start)
		select {
		case <-done:
		case <-time.After(10 * time.Second):
			t.Fatalf("round %d: Close still blocked after 10s; SetReadOnly returned %v", round, <-sro)
		}
		<-sro
	}
}
