module f30

go 1.21

require github.com/syndtr/goleveldb v0.0.0

require github.com/golang/snappy v0.0.4 // indirect

replace github.com/syndtr/goleveldb => /repo
