package f9

import (
	"errors"
	"fmt"
	"os"
	"runtime/debug"
	"strings"
	"sync/atomic"
	"testing"
	"time"

	"github.com/syndtr/goleveldb/leveldb"
	"github.com/syndtr/goleveldb/leveldb/opt"
	"github.com/syndtr/goleveldb/leveldb/storage"
)

// A table compaction is held at the creation of its output table until a transaction is open; then manifest
// writes fail (the manifest's journal writer keeps the error, so every later commit of this session fails too).
// The compaction retries its commit for ever. Transaction.Commit must still return (with an error).
type stor struct {
	storage.Storage
	gate     chan struct{}
	gateOn   int32
	failMan  int32
	waiting  chan struct{}
	signaled int32
}

type manWriter struct {
	storage.Writer
	s *stor
}

func (w *manWriter) Write(p []byte) (int, error) {
	if atomic.LoadInt32(&w.s.failMan) == 1 {
		return 0, errors.New("injected: manifest write failed")
	}
	return w.Writer.Write(p)
}

func (s *stor) Create(fd storage.FileDesc) (storage.Writer, error) {
	if fd.Type == storage.TypeTable && atomic.LoadInt32(&s.gateOn) == 1 && strings.Contains(string(debug.Stack()), "tableCompactionBuilder") {
		if atomic.CompareAndSwapInt32(&s.signaled, 0, 1) {
			close(s.waiting)
		}
		<-s.gate
	}
	w, err := s.Storage.Create(fd)
	if err == nil && fd.Type == storage.TypeManifest {
		return &manWriter{w, s}, nil
	}
	return w, err
}

func TestCommitReturnsWhileCompactionCommitKeepsFailing(t *testing.T) {
	dir, _ := os.MkdirTemp("", "f9")
	defer os.RemoveAll(dir)
	fs, err := storage.OpenFile(dir, false)
	if err != nil {
		t.Fatal(err)
	}
	st := &stor{Storage: fs, gate: make(chan struct{}), waiting: make(chan struct{})}
	// several level-0 tables, no table compaction yet
	db, err := leveldb.Open(st, &opt.Options{WriteBuffer: 4096, CompactionL0Trigger: 100, WriteL0SlowdownTrigger: 100, WriteL0PauseTrigger: 100})
	if err != nil {
		t.Fatal(err)
	}
	for i := 0; i < 150; i++ {
		if err := db.Put([]byte(fmt.Sprintf("k%05d", i%100)), make([]byte, 100), nil); err != nil {
			t.Fatal(err)
		}
	}
	db.Close()
	// reopen: the write buffer is empty, a table compaction starts at once and is held at its first output table
	atomic.StoreInt32(&st.gateOn, 1)
	db, err = leveldb.Open(st, &opt.Options{WriteBuffer: 4096, CompactionL0Trigger: 2})
	if err != nil {
		t.Fatal(err)
	}
	select {
	case <-st.waiting:
	case <-time.After(20 * time.Second):
		t.Skip("no table compaction started")
	}
	tr, err := db.OpenTransaction()
	if err != nil {
		t.Fatal(err)
	}
	if err := tr.Put([]byte("tx"), []byte("v"), nil); err != nil {
		t.Fatal(err)
	}
	atomic.StoreInt32(&st.failMan, 1)
	atomic.StoreInt32(&st.gateOn, 0)
	close(st.gate) // the compaction builds its table and starts failing at the commit
	time.Sleep(3 * time.Second)
	done := make(chan error, 1)
	go func() { done <- tr.Commit() }()
	select {
	case err := <-done:
		t.Logf("Commit returned: %v", err)
	case <-time.After(30 * time.Second):
		t.Fatalf("Transaction.Commit still blocked after 30s (a compaction commit that keeps failing holds the commit lock)")
	}
	tr.Discard()
	go db.Close()
	time.Sleep(time.Second)
}
