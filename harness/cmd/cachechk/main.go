// cachechk: conformance driver for C17 (leveldb/cache: the shared cache never
// hands out a dead value and respects its capacity).
//
// It runs cache.NewCache(cache.NewLRU(n)) with instrumented values under 2-16
// goroutines and records what a client can observe - constructor, finaliser
// (util.Releaser) and deletion-callback invocations, handles obtained and given
// back - as NDJSON events through the shared tracer.  The order of the lines
// (tracer mutex + global sequence number) is a valid real-time order.  TLC
// validates the file against spec/CacheTrace.tla, which drives the observable
// layer of spec/Cache.tla (the five clauses of C17) event by event.
//
// Emission discipline (so that correct code can never be reported):
//   - release-begin is emitted BEFORE Handle.Release is called, get-end AFTER
//     Get returned: a handle counts as outstanding only while the cache is
//     really obliged to keep its value alive;
//   - construct / finalize / delfunc are emitted from inside the callbacks;
//   - Close is called only when no Get/Delete/Evict*/SetCapacity call is in
//     flight (closing variant "soft-gets" excepted, which sets capacity 0 first
//     and uses a non-force Close); Handle.Release may overlap it;
//   - quiesce is emitted by the coordinator while every worker is parked at a
//     barrier holding no handle.
//
// Keys 0..nk-1 of namespace 0 are shared by all goroutines (<= 2 handles held
// per goroutine, otherwise nodes never die).  Namespace 1 holds throw-away keys,
// fetched by the thousand and released again to force growth and shrinkage of
// the hash table while the shared keys are in use; their values have a charge
// above every capacity (never retained), are tracked by atomic counters and are
// summarised in one "bulk" event per batch.
package main

import (
	"encoding/json"
	"flag"
	"fmt"
	"math/rand"
	"os"
	"runtime"
	"strings"
	"sync"
	"sync/atomic"
	"time"

	"github.com/syndtr/goleveldb/leveldb/cache"

	"verif/harness/internal/vt"
)

const (
	maxCap     = 8
	bulkCharge = 1000
)

var (
	tr        *vt.Tracer
	nvid      int64
	nhid      int64
	ndel      int64
	liveSum   int64 // charge of shared values constructed and not finalised
	nCons     int64
	nFin      int64
	nCb       int64
	curHeld   int64
	maxHeld   int64
	yieldInCb bool
)

// val is a shared-namespace value.
type val struct {
	key    uint64
	vid    int64
	charge int
}

func (v *val) Release() {
	if yieldInCb && v.vid%3 == 0 {
		runtime.Gosched()
	}
	atomic.AddInt64(&liveSum, -int64(v.charge))
	atomic.AddInt64(&nFin, 1)
	tr.Emit(vt.Ev{"ev": "finalize", "v": v.vid, "k": v.key})
	if yieldInCb && v.vid%3 == 1 {
		runtime.Gosched()
	}
}

// bval is a throw-away value: counted, not traced.
type bval struct {
	fin      int32
	released int32
	st       *bulkStat
}

type bulkStat struct {
	constructed, finalized, dup, early, cbs int64
}

func (b *bval) Release() {
	if atomic.AddInt32(&b.fin, 1) != 1 {
		atomic.AddInt64(&b.st.dup, 1)
	}
	if atomic.LoadInt32(&b.released) == 0 {
		atomic.AddInt64(&b.st.early, 1)
	}
	atomic.AddInt64(&b.st.finalized, 1)
}

type held struct {
	h   *cache.Handle
	hid int64
}

type worker struct {
	g     int
	r     *rand.Rand
	c     *cache.Cache
	nk    int
	held  []held
	calls map[string]int64
	bulkN int64
	bseq  uint64
}

func (w *worker) yield() {
	if w.r.Intn(6) == 0 {
		runtime.Gosched()
	}
}

func (w *worker) get(k uint64, mode int) {
	w.calls["get"]++
	tr.Emit(vt.Ev{"ev": "get-begin", "g": w.g, "k": k, "m": mode})
	ran := 0
	var set func() (int, cache.Value)
	switch mode {
	case 0:
		set = func() (int, cache.Value) {
			v := &val{key: k, vid: atomic.AddInt64(&nvid, 1), charge: 1 + int(k%3)}
			ran = 1
			atomic.AddInt64(&liveSum, int64(v.charge))
			atomic.AddInt64(&nCons, 1)
			tr.Emit(vt.Ev{"ev": "construct", "g": w.g, "k": k, "v": v.vid, "c": v.charge})
			if yieldInCb && v.vid%5 == 0 {
				runtime.Gosched()
			}
			return v.charge, v
		}
	case 2:
		set = func() (int, cache.Value) { ran = 1; return 0, nil }
	}
	hh := w.c.Get(0, k, set)
	w.yield()
	if hh == nil {
		tr.Emit(vt.Ev{"ev": "get-end", "g": w.g, "k": k, "m": mode, "h": 0, "v": 0, "c": ran})
		return
	}
	id := atomic.AddInt64(&nhid, 1)
	v, alive := hh.Value().(*val)
	if !alive { // the handle in our hand already lost its value: report it as handed out dead (v = 0)
		v = &val{}
	}
	n := atomic.AddInt64(&curHeld, 1)
	for {
		m := atomic.LoadInt64(&maxHeld)
		if n <= m || atomic.CompareAndSwapInt64(&maxHeld, m, n) {
			break
		}
	}
	tr.Emit(vt.Ev{"ev": "get-end", "g": w.g, "k": k, "m": mode, "h": id, "v": v.vid, "c": ran})
	w.held = append(w.held, held{hh, id})
}

func (w *worker) release(j int) {
	w.calls["release"]++
	x := w.held[j]
	w.held = append(w.held[:j], w.held[j+1:]...)
	tr.Emit(vt.Ev{"ev": "release-begin", "g": w.g, "h": x.hid})
	atomic.AddInt64(&curHeld, -1)
	w.yield()
	x.h.Release()
	tr.Emit(vt.Ev{"ev": "release-end", "g": w.g, "h": x.hid})
}

func (w *worker) releaseAll() {
	for len(w.held) > 0 {
		w.release(w.r.Intn(len(w.held)))
	}
}

func (w *worker) del(k uint64) {
	w.calls["delete"]++
	d := atomic.AddInt64(&ndel, 1)
	tr.Emit(vt.Ev{"ev": "delete-begin", "g": w.g, "d": d, "k": k})
	ok := w.c.Delete(0, k, func() {
		atomic.AddInt64(&nCb, 1)
		tr.Emit(vt.Ev{"ev": "delfunc", "d": d, "k": k})
	})
	r := 0
	if ok {
		r = 1
	}
	tr.Emit(vt.Ev{"ev": "delete-end", "g": w.g, "d": d, "k": k, "r": r})
}

// bulk fetches n fresh keys of namespace 1, holds them all (growth), then gives
// them back (shrinkage), some through Delete with a callback.
func (w *worker) bulk(n int) {
	w.calls["bulk"]++
	st := &bulkStat{}
	hs := make([]*cache.Handle, 0, n)
	bs := make([]*bval, 0, n)
	ks := make([]uint64, 0, n)
	for i := 0; i < n; i++ {
		w.bseq++
		k := uint64(w.g+1)<<40 | w.bseq
		b := &bval{st: st}
		h := w.c.Get(1, k, func() (int, cache.Value) {
			atomic.AddInt64(&st.constructed, 1)
			return bulkCharge, b
		})
		if h == nil || h.Value() != cache.Value(b) {
			atomic.AddInt64(&st.dup, 1) // a fresh key must construct its own value
			continue
		}
		hs, bs, ks = append(hs, h), append(bs, b), append(ks, k)
		if i%64 == 0 {
			w.yield()
		}
	}
	w.bulkN += int64(len(hs))
	dels := int64(0)
	for _, i := range w.r.Perm(len(hs)) {
		if w.r.Intn(8) == 0 {
			dels++
			w.c.Delete(1, ks[i], func() {
				atomic.AddInt64(&st.cbs, 1)
				if atomic.LoadInt32(&bs[i].released) == 0 {
					atomic.AddInt64(&st.early, 1)
				}
			})
		}
		atomic.StoreInt32(&bs[i].released, 1)
		hs[i].Release()
		if i%64 == 0 {
			w.yield()
		}
	}
	tr.Emit(vt.Ev{"ev": "bulk", "g": w.g, "keys": len(hs), "constructed": st.constructed, "finalized": st.finalized,
		"dup": st.dup, "early": st.early, "dels": dels, "cbs": st.cbs})
}

func (w *worker) step(allowBulk bool) {
	k := uint64(w.r.Intn(w.nk))
	x := w.r.Intn(1000)
	switch {
	case x < 420:
		if len(w.held) < 2 {
			m := 0
			if y := w.r.Intn(10); y == 8 {
				m = 1
			} else if y == 9 {
				m = 2
			}
			w.get(k, m)
		} else {
			w.release(w.r.Intn(len(w.held)))
		}
	case x < 760:
		if len(w.held) > 0 {
			w.release(w.r.Intn(len(w.held)))
		}
	case x < 840:
		w.del(k)
	case x < 920:
		w.calls["evict"]++
		tr.Emit(vt.Ev{"ev": "evict", "g": w.g, "k": k})
		w.c.Evict(0, k)
	case x < 940:
		w.calls["evictns"]++
		ns := uint64(w.r.Intn(2))
		tr.Emit(vt.Ev{"ev": "evictns", "g": w.g, "ns": ns})
		w.c.EvictNS(ns)
	case x < 950:
		w.calls["evictall"]++
		tr.Emit(vt.Ev{"ev": "evictall", "g": w.g})
		w.c.EvictAll()
	case x < 985:
		w.calls["setcap"]++
		cp := w.r.Intn(maxCap + 1)
		tr.Emit(vt.Ev{"ev": "setcap", "g": w.g, "c": cp})
		w.c.SetCapacity(cp)
	default:
		if allowBulk {
			w.bulk(300 + w.r.Intn(900))
		}
	}
	w.yield()
}

// runEpoch creates one cache, drives it through `rounds` rounds and closes it.
func runEpoch(seed int64, epoch, ng, procs, nk, cap0 int, closeMode string, rounds, ops int) ([]*worker, cache.Stats, int) {
	atomic.StoreInt64(&liveSum, 0)
	c := cache.NewCache(cache.NewLRU(cap0))
	tr.Emit(vt.Ev{"ev": "reset", "seed": seed, "epoch": epoch, "g": ng, "procs": procs, "nk": nk, "cap": cap0, "close": closeMode})

	ws := make([]*worker, ng)
	for g := range ws {
		ws[g] = &worker{g: g, r: rand.New(rand.NewSource(seed*1000003 + int64(epoch)*1009 + int64(g))), c: c, nk: nk, calls: map[string]int64{}}
	}
	perG := ops / ng
	if perG < 20 {
		perG = 20
	}
	quiesce := 0
	for round := 0; round < rounds; round++ {
		var wg sync.WaitGroup
		bulkRound := round%2 == 0
		for _, w := range ws {
			wg.Add(1)
			go func(w *worker) {
				defer wg.Done()
				nb := 0
				for i := 0; i < perG; i++ {
					before := w.calls["bulk"]
					w.step(bulkRound && nb < 2)
					if w.calls["bulk"] != before {
						nb++
					}
				}
				if bulkRound && nb == 0 && w.g%4 == round%4 {
					w.bulk(600 + w.r.Intn(900)) // make sure the table grows in this round
				}
				w.releaseAll()
			}(w)
		}
		wg.Wait()
		quiesce++
		st := c.GetStats()
		tr.Emit(vt.Ev{"ev": "quiesce", "cap": c.Capacity(), "charge": atomic.LoadInt64(&liveSum), "nodes": st.Nodes,
			"buckets": st.Buckets})
	}

	// ---- closing phase (GetStats dereferences the dropped table head after Close: read it before)
	st := c.GetStats()
	force := closeMode == "force-alone" || closeMode == "force-race"
	if closeMode == "soft-gets" {
		tr.Emit(vt.Ev{"ev": "setcap", "g": -1, "c": 0})
		c.SetCapacity(0) // nothing retained: no eviction inside Get, hence no nested read lock while Close waits
	}
	var wg sync.WaitGroup
	for _, w := range ws { // everybody takes up to two handles
		wg.Add(1)
		go func(w *worker) {
			defer wg.Done()
			for i := 0; i < 2; i++ {
				w.get(uint64(w.r.Intn(w.nk)), 0)
			}
			if w.r.Intn(3) == 0 {
				w.del(uint64(w.r.Intn(w.nk))) // a callback pending across Close
			}
		}(w)
	}
	wg.Wait()
	start := make(chan struct{})
	overlap := closeMode != "force-alone"
	for _, w := range ws {
		wg.Add(1)
		go func(w *worker) {
			defer wg.Done()
			<-start
			if !overlap {
				return
			}
			if closeMode == "soft-gets" {
				for i := 0; i < 30; i++ {
					if len(w.held) < 2 && w.r.Intn(2) == 0 {
						w.get(uint64(w.r.Intn(w.nk)), 0)
					} else if len(w.held) > 0 {
						w.release(w.r.Intn(len(w.held)))
					}
					w.yield()
				}
			}
			w.releaseAll()
		}(w)
	}
	f := 0
	if force {
		f = 1
	}
	// a forced Close right after the table grew: the nodes still sitting in buckets of the old table (not migrated yet) must
	// be finalised like all others
	var gst *bulkStat
	var ghs []*cache.Handle
	if closeMode == "force-alone" && ws[0].r.Intn(2) == 0 {
		gst = &bulkStat{}
		n := 520 + ws[0].r.Intn(700)
		for i := 0; i < n; i++ {
			b := &bval{st: gst}
			h := c.Get(1, uint64(1)<<50|uint64(i), func() (int, cache.Value) {
				atomic.AddInt64(&gst.constructed, 1)
				return bulkCharge, b
			})
			if h != nil {
				ghs = append(ghs, h)
			}
		}
	}
	tr.Emit(vt.Ev{"ev": "close-begin", "force": f})
	close(start)
	if overlap {
		runtime.Gosched()
	}
	c.Close(force)
	tr.Emit(vt.Ev{"ev": "close-end", "force": f})
	if gst != nil {
		tr.Emit(vt.Ev{"ev": "growclose", "keys": len(ghs), "constructed": atomic.LoadInt64(&gst.constructed),
			"finalized": atomic.LoadInt64(&gst.finalized), "dup": atomic.LoadInt64(&gst.dup)})
		for _, h := range ghs {
			h.Release()
		}
	}
	wg.Wait()
	// after Close: every call is a no-op, handles are still given back
	for _, w := range ws {
		wg.Add(1)
		go func(w *worker) {
			defer wg.Done()
			k := uint64(w.r.Intn(w.nk))
			switch w.r.Intn(4) {
			case 0:
				w.get(k, 0)
			case 1:
				w.del(k)
			case 2:
				tr.Emit(vt.Ev{"ev": "evict", "g": w.g, "k": k})
				c.Evict(0, k)
			default:
				tr.Emit(vt.Ev{"ev": "evictall", "g": w.g})
				c.EvictAll()
			}
			w.releaseAll()
		}(w)
	}
	wg.Wait()
	tr.Emit(vt.Ev{"ev": "close-begin", "force": f, "again": 1})
	c.Close(force)
	tr.Emit(vt.Ev{"ev": "close-end", "force": f, "again": 1})
	tr.Emit(vt.Ev{"ev": "end", "charge": atomic.LoadInt64(&liveSum), "constructed": atomic.LoadInt64(&nCons),
		"finalized": atomic.LoadInt64(&nFin)})
	return ws, st, quiesce
}

func main() {
	seed := flag.Int64("seed", 1, "")
	out := flag.String("out", "", "trace file")
	ng := flag.Int("g", 0, "goroutines (0: 2..16 by seed)")
	procs := flag.Int("procs", 0, "GOMAXPROCS (0: 1,2,4,16 by seed)")
	epochs := flag.Int("epochs", 1, "caches created, used and closed one after the other (a reset line starts each)")
	rounds := flag.Int("rounds", 6, "rounds per epoch, each ended by a quiescent point")
	ops := flag.Int("ops", 4000, "calls per round, all goroutines together")
	closeModes := flag.String("close", "force-alone,soft-release",
		"closing variants drawn per epoch: force-alone | soft-release | soft-gets | force-race")
	flag.Parse()

	r0 := rand.New(rand.NewSource(*seed*7919 + 17))
	if *procs == 0 {
		*procs = []int{1, 2, 4, 16}[r0.Intn(4)]
	}
	if *ng == 0 {
		*ng = 2 + r0.Intn(15)
	}
	modes := strings.Split(*closeModes, ",")
	yieldInCb = r0.Intn(2) == 0
	runtime.GOMAXPROCS(*procs)

	var err error
	tr, err = vt.NewTracer(*out)
	if err != nil {
		fmt.Fprintln(os.Stderr, err)
		os.Exit(2)
	}
	done := make(chan struct{})
	go func() { // watchdog: a hang is trouble in the machinery (or a liveness matter), never a C17 verdict
		select {
		case <-done:
		case <-time.After(240 * time.Second):
			fmt.Fprintln(os.Stderr, "cachechk: watchdog: run did not finish in 240 s")
			os.Exit(3)
		}
	}()

	calls := map[string]int64{}
	closes := map[string]int64{}
	var bulkKeys, quiesce, grow, shrink int64
	nks := map[int]bool{}
	for e := 0; e < *epochs; e++ {
		nk := []int{1, 2, 4, 8, 16}[r0.Intn(5)]
		cap0 := r0.Intn(maxCap + 1)
		mode := modes[r0.Intn(len(modes))]
		nks[nk] = true
		closes[mode]++
		ws, st, q := runEpoch(*seed, e, *ng, *procs, nk, cap0, mode, *rounds, *ops)
		for _, w := range ws {
			for k, v := range w.calls {
				calls[k] += v
			}
			bulkKeys += w.bulkN
		}
		quiesce += int64(q)
		grow += int64(st.GrowCount)
		shrink += int64(st.ShrinkCount)
	}
	close(done)
	n := tr.N()
	if err := tr.Close(); err != nil {
		fmt.Fprintln(os.Stderr, err)
		os.Exit(2)
	}
	sum := map[string]interface{}{
		"seed": *seed, "goroutines": *ng, "procs": *procs, "epochs": *epochs, "closes": closes, "events": n,
		"calls": calls, "constructed": atomic.LoadInt64(&nCons), "finalized": atomic.LoadInt64(&nFin),
		"callbacks": atomic.LoadInt64(&nCb), "deletes": atomic.LoadInt64(&ndel), "max_handles": atomic.LoadInt64(&maxHeld),
		"quiesce": quiesce, "grow": grow, "shrink": shrink, "bulk_keys": bulkKeys, "yield_in_callbacks": yieldInCb,
	}
	b, _ := json.Marshal(sum)
	fmt.Println(string(b))
}
