// concdb runs several client goroutines against one real DB and records, through one
// tracer (mutex + global sequence number), every client call as an invocation and a
// response line, and every write-path / lock hook event of the DB (build tag verif)
// with the client it belongs to.  spec/ConcTrace.tla validates the result:
//
//	C10  writer serialisation and merge protocol (groups, acks, hand-off)
//	C05  linearizability and consistent cuts (publish events bracket the visibility instant)
//	C09  every call returns, Close returns, no lock is leaked
package main

import (
	"bytes"
	"encoding/json"
	"flag"
	"fmt"
	"math/rand"
	"os"
	"runtime"
	"strconv"
	"strings"
	"sync"
	"sync/atomic"
	"time"

	"github.com/syndtr/goleveldb/leveldb"
	lerrors "github.com/syndtr/goleveldb/leveldb/errors"
	"github.com/syndtr/goleveldb/leveldb/opt"
	"github.com/syndtr/goleveldb/leveldb/storage"
	"github.com/syndtr/goleveldb/leveldb/util"

	"verif/harness/internal/vt"
)

func goid() int64 {
	var buf [64]byte
	n := runtime.Stack(buf[:], false)
	f := bytes.Fields(buf[:n])
	id, _ := strconv.ParseInt(string(f[1]), 10, 64)
	return id
}

type env struct {
	tr      *vt.Tracer
	u       *vt.Universe
	db      *leveldb.DB
	stor    *vt.RecStor
	o       *opt.Options
	mu      sync.Mutex
	gmap    map[int64]int   // goroutine -> client id
	idmap   map[int64]int   // write data id -> op id
	opn     int64           // op id counter
	valn    int64           // value id counter
	open    map[int]*openOp // calls in flight
	prog    int64           // progress counter
	done    int32
	fault   *faultState
	huge    bool
	lastKey int64 // number of values written so far (huge mode)
	ring    [16]int64
	noIter  bool
}

type openOp struct {
	op, c int
	kind  string
	since time.Time
}

type faultState struct {
	mu       sync.Mutex
	kind     vt.OpKind
	ft       storage.FileType
	idx, cnt int
	seen     int
	injected int
	healed   bool
	on       bool
}

func errName(err error) string {
	switch {
	case err == nil:
		return "none"
	case err == leveldb.ErrNotFound:
		return "notfound"
	case err == leveldb.ErrClosed:
		return "closed"
	case err == leveldb.ErrReadOnly:
		return "readonly"
	case err == leveldb.ErrSnapshotReleased, err == leveldb.ErrIterReleased:
		return "released"
	case err == vt.ErrInjected:
		return "fail"
	case strings.Contains(err.Error(), "transaction already closed"):
		return "txdone"
	case lerrors.IsCorrupted(err):
		return "corrupt"
	}
	return "fail" // under fault injection other errors echo the fault
}

func (e *env) register(c int) {
	e.mu.Lock()
	e.gmap[goid()] = c
	e.mu.Unlock()
}

func (e *env) client() int {
	e.mu.Lock()
	defer e.mu.Unlock()
	return e.gmap[goid()]
}

func (e *env) call(c int, kind string, f vt.Ev) int {
	op := int(atomic.AddInt64(&e.opn, 1))
	f["ev"], f["op"], f["c"], f["kind"] = "call", op, c, kind
	e.mu.Lock()
	e.open[op] = &openOp{op: op, c: c, kind: kind, since: time.Now()}
	e.mu.Unlock()
	e.tr.Emit(f)
	return op
}

func (e *env) ret(c, op int, f vt.Ev) {
	f["ev"], f["op"], f["c"] = "ret", op, c
	e.tr.Emit(f)
	e.mu.Lock()
	delete(e.open, op)
	e.mu.Unlock()
	atomic.AddInt64(&e.prog, 1)
}

func (e *env) fresh(l int) ([]byte, int) {
	id := int(atomic.AddInt64(&e.valn, 1))
	b := make([]byte, l)
	for i := range b {
		if i < 6 {
			b[i] = byte(id >> (8 * uint(i)))
		} else {
			b[i] = byte('a' + id%17)
		}
	}
	return b, id
}

func valID(v []byte) int {
	if len(v) < 6 {
		return -1
	}
	id := 0
	for i := 5; i >= 0; i-- {
		id = id<<8 | int(v[i])
	}
	// the rest of a value is determined by its id: bytes of two values mixed are nobody's value
	f := byte('a' + id%17)
	for _, c := range v[6:] {
		if c != f {
			return -2
		}
	}
	return id
}

// ---- hooks ----

func (e *env) hooks() {
	leveldb.VerifSetHooks(&leveldb.VerifHooks{
		Trace: func(_ uintptr, ev string, a []int64) {
			switch {
			case strings.HasPrefix(ev, "w:"), strings.HasPrefix(ev, "x:"), strings.HasPrefix(ev, "tx:"),
				strings.HasPrefix(ev, "cl:"), strings.HasPrefix(ev, "ce:"), strings.HasPrefix(ev, "close:"):
			default:
				return
			}
			c := e.client()
			args := make([]int64, len(a))
			copy(args, a)
			f := vt.Ev{"ev": "hk", "h": ev, "c": c}
			switch ev {
			case "w:leader":
				f["wop"] = e.opOf(a[4])
				f["nrec"], f["merge"], f["sync"] = a[0], a[2], a[3]
			case "w:merge":
				f["wop"] = e.opOf(a[2])
				f["merged"] = a[0]
			case "w:overflow":
				f["wop"] = e.opOf(a[1])
			case "w:journal":
				f["seq"], f["nrec"], f["sync"], f["err"] = a[0], a[1], a[2], a[3]
			case "w:publish-begin":
				f["seq"], f["nrec"] = a[0], a[1]
			case "w:publish-end":
				f["seq"] = a[0]
			case "w:unlock":
				f["overflow"], f["merged"], f["err"] = a[0], a[1], a[2]
			case "x:lock", "x:unlock", "cl:lock", "cl:unlock":
				f["who"] = a[0]
			case "tx:open", "tx:publish":
				f["seq"] = a[0]
			case "tx:try":
				f["try"], f["err"] = a[0], a[1]
			case "tx:discard":
				f["tables"] = a[0]
			}
			e.tr.Emit(f)
		},
	})
}

func (e *env) opOf(id int64) int {
	e.mu.Lock()
	defer e.mu.Unlock()
	if op, ok := e.idmap[id]; ok {
		return op
	}
	return 0
}

func (e *env) regWrite(op int, b *leveldb.Batch) {
	id := leveldb.VerifDataID(b.Dump())
	e.mu.Lock()
	e.idmap[id] = op
	e.mu.Unlock()
}

// ---- clients ----

type wcfg struct {
	nops     int
	keysPer  int
	bigEvery int
	fatEvery int
	wb       int
	huge     int // > 0: every value has this many bytes (a quarter of the write buffer)
}

func (e *env) writer(c int, rng *rand.Rand, cfg wcfg, wg *sync.WaitGroup) {
	defer wg.Done()
	e.register(c)
	for i := 0; i < cfg.nops && atomic.LoadInt32(&e.done) == 0; i++ {
		n := 1
		if rng.Intn(3) == 0 {
			n = 2 + rng.Intn(cfg.keysPer)
		}
		big := cfg.bigEvery > 0 && rng.Intn(cfg.bigEvery) == 0
		ops := make([][2]int, 0, n)
		b := new(leveldb.Batch)
		for j := 0; j < n; j++ {
			k := rng.Intn(e.u.N())
			// every write carries at least one fresh value, so its encoding identifies it
			if j > 0 && rng.Intn(4) == 0 {
				ops = append(ops, [2]int{k, 0})
				b.Delete(e.u.Key(k))
				continue
			}
			l := 8 + rng.Intn(40)
			if cfg.huge > 0 {
				l = cfg.huge - rng.Intn(64)
			} else if big {
				l = cfg.wb/2 + rng.Intn(cfg.wb)
			} else if rng.Intn(cfg.fatEvery) == 0 {
				l = cfg.wb / 4 // fat values make merged groups overflow: the lock is handed to the writer that did not fit
			}
			v, id := e.fresh(l)
			atomic.StoreInt64(&e.ring[(atomic.AddInt64(&e.lastKey, 1))%int64(len(e.ring))], int64(k))
			ops = append(ops, [2]int{k, id})
			b.Put(e.u.Key(k), v)
		}
		wo := &opt.WriteOptions{Sync: rng.Intn(4) == 0, NoWriteMerge: rng.Intn(6) == 0}
		single := n == 1 && rng.Intn(2) == 0
		kind := "write"
		if single {
			kind = "put"
		}
		op := e.call(c, kind, vt.Ev{"ops": ops, "sync": b2i(wo.Sync), "nomerge": b2i(wo.NoWriteMerge), "nrec": b.Len()})
		e.regWrite(op, b)
		var err error
		if single {
			if ops[0][1] == 0 {
				err = e.db.Delete(e.u.Key(ops[0][0]), wo)
			} else {
				// the value bytes are inside the batch dump; rebuild them
				var val []byte
				b.Replay(&grab{&val})
				err = e.db.Put(e.u.Key(ops[0][0]), val, wo)
			}
		} else {
			before := append([]byte(nil), b.Dump()...)
			err = e.db.Write(b, wo)
			if !bytes.Equal(before, b.Dump()) {
				// C20: Write must not modify the caller's batch; no specification step explains such a return
				e.ret(c, op, vt.Ev{"err": "batch-modified"})
				continue
			}
		}
		e.ret(c, op, vt.Ev{"err": errName(err)})
		if rng.Intn(4) == 0 {
			runtime.Gosched()
		}
	}
}

type grab struct{ v *[]byte }

func (g *grab) Put(k, v []byte) { *g.v = append([]byte(nil), v...) }
func (g *grab) Delete(k []byte) {}

func b2i(b bool) int {
	if b {
		return 1
	}
	return 0
}

func (e *env) reader(c int, rng *rand.Rand, nops int, wg *sync.WaitGroup) {
	defer wg.Done()
	e.register(c)
	for i := 0; i < nops && atomic.LoadInt32(&e.done) == 0; i++ {
		r := rng.Intn(4)
		if e.noIter && r > 1 {
			r = rng.Intn(2) // iterators must not be held across Close (documented)
		}
		if e.huge && rng.Intn(8) != 0 {
			r = 0 // mostly point reads of what was just written: it sits in the write buffer that is about to be frozen and recycled
		}
		switch r {
		case 0: // point read
			k := rng.Intn(e.u.N())
			if e.huge && rng.Intn(4) != 0 {
				// a key written a few writes ago: its newest version sits in the buffer that is being frozen, flushed and recycled
				n := atomic.LoadInt64(&e.lastKey)
				if back := int64(2 + rng.Intn(4)); n > back {
					k = int(atomic.LoadInt64(&e.ring[(n-back)%int64(len(e.ring))]))
				}
			}
			op := e.call(c, "get", vt.Ev{"k": k})
			v, err := e.db.Get(e.u.Key(k), nil)
			id := 0
			if err == nil {
				id = valID(v)
			}
			e.ret(c, op, vt.Ev{"err": errName(err), "v": id})
		case 1: // snapshot: one cut for all keys
			op := e.call(c, "snapall", vt.Ev{})
			s, err := e.db.GetSnapshot()
			if err != nil {
				e.ret(c, op, vt.Ev{"err": errName(err), "store": [][2]int{}})
				continue
			}
			st := [][2]int{}
			var rerr error
			for k := 0; k < e.u.N(); k++ {
				v, err := s.Get(e.u.Key(k), nil)
				if err == leveldb.ErrNotFound {
					continue
				}
				if err != nil {
					rerr = err
					break
				}
				st = append(st, [2]int{k, valID(v)})
				if rng.Intn(8) == 0 {
					runtime.Gosched()
				}
			}
			s.Release()
			e.ret(c, op, vt.Ev{"err": errName(rerr), "store": st})
		default: // iterator scan: one cut
			op := e.call(c, "iterall", vt.Ev{})
			it := e.db.NewIterator(nil, nil)
			st := [][2]int{}
			for it.Next() {
				st = append(st, [2]int{e.u.Rank(it.Key()), valID(it.Value())})
				if rng.Intn(8) == 0 {
					runtime.Gosched()
				}
			}
			err := it.Error()
			it.Release()
			e.ret(c, op, vt.Ev{"err": errName(err), "store": st})
		}
	}
}

func (e *env) txuser(c int, rng *rand.Rand, nops int, wb int, wg *sync.WaitGroup) {
	defer wg.Done()
	e.register(c)
	for i := 0; i < nops && atomic.LoadInt32(&e.done) == 0; i++ {
		time.Sleep(time.Duration(rng.Intn(2000)) * time.Microsecond)
		op := e.call(c, "txopen", vt.Ev{})
		tx, err := e.db.OpenTransaction()
		e.ret(c, op, vt.Ev{"err": errName(err)})
		if err != nil {
			continue
		}
		ops := [][2]int{}
		failed := false
		for j := 0; j < 1+rng.Intn(5); j++ {
			k := rng.Intn(e.u.N())
			l := 8 + rng.Intn(40)
			if rng.Intn(4) == 0 {
				l = wb / 3
			}
			v, id := e.fresh(l)
			if err := tx.Put(e.u.Key(k), v, nil); err != nil {
				failed = true
				break
			}
			ops = append(ops, [2]int{k, id})
		}
		if failed || rng.Intn(4) == 0 {
			op := e.call(c, "txdiscard", vt.Ev{})
			tx.Discard()
			e.ret(c, op, vt.Ev{"err": "none"})
			continue
		}
		op = e.call(c, "txcommit", vt.Ev{"ops": ops})
		err = tx.Commit()
		e.ret(c, op, vt.Ev{"err": errName(err)})
		if err != nil {
			op := e.call(c, "txdiscard", vt.Ev{})
			tx.Discard()
			e.ret(c, op, vt.Ev{"err": "none"})
		}
	}
}

func (e *env) compactor(c int, rng *rand.Rand, nops int, wg *sync.WaitGroup) {
	defer wg.Done()
	e.register(c)
	for i := 0; i < nops && atomic.LoadInt32(&e.done) == 0; i++ {
		time.Sleep(time.Duration(rng.Intn(3000)) * time.Microsecond)
		op := e.call(c, "compact", vt.Ev{})
		err := e.db.CompactRange(util.Range{})
		e.ret(c, op, vt.Ev{"err": errName(err)})
	}
}

// stacks summarises where blocked goroutines sit (first leveldb frames).
func stacks() []string {
	buf := make([]byte, 1<<18)
	buf = buf[:runtime.Stack(buf, true)]
	var out []string
	for _, g := range strings.Split(string(buf), "\n\n") {
		lines := strings.Split(g, "\n")
		var fr []string
		for i, ln := range lines {
			if strings.Contains(ln, "goleveldb/leveldb.") && i+1 < len(lines) {
				fn := strings.TrimPrefix(strings.TrimSpace(ln), "github.com/syndtr/goleveldb/leveldb.")
				if j := strings.LastIndex(fn, "("); j > 0 {
					fn = fn[:j]
				}
				loc := strings.TrimSpace(lines[i+1])
				if k := strings.LastIndex(loc, "/"); k >= 0 {
					loc = loc[k+1:]
				}
				if k := strings.Index(loc, " "); k >= 0 {
					loc = loc[:k]
				}
				fr = append(fr, fn+"@"+loc)
				if len(fr) == 2 {
					break
				}
			}
		}
		if len(fr) > 0 {
			out = append(out, strings.Join(fr, " < "))
		}
	}
	return out
}

func main() {
	seed := flag.Int64("seed", 1, "seed")
	out := flag.String("out", "", "trace file")
	nw := flag.Int("writers", 3, "writer goroutines")
	nr := flag.Int("readers", 2, "reader goroutines")
	nops := flag.Int("n", 150, "operations per client")
	nkeys := flag.Int("nkeys", 12, "keys")
	withTx := flag.Bool("tx", true, "transaction user")
	setro := flag.Bool("setro", false, "one client calls SetReadOnly at a random moment")
	withClose := flag.Bool("close", false, "Close races with the clients")
	fault := flag.String("fault", "", "kind:filetype:index:count storage fault")
	hang := flag.Int("hang", 20, "seconds without progress before blocked calls are reported")
	procs := flag.Int("procs", 0, "GOMAXPROCS (0: by seed)")
	fat := flag.Int("fat", 8, "one value in this many is a quarter of the write buffer")
	huge := flag.Int("huge", 0, "KiB: every value is this large and the write buffer holds four of them")
	flag.Parse()

	rng := rand.New(rand.NewSource(*seed))
	if *procs == 0 {
		*procs = []int{1, 2, 4, 16}[rng.Intn(4)]
	}
	runtime.GOMAXPROCS(*procs)
	row := vt.DrawRow(*seed, vt.RowSpec{CmpKind: 0, CmpSep: -1, SmallOnly: true})
	row.O.NoWriteMerge = false
	if *huge > 0 {
		// write buffers of four values: they fill, freeze, flush and are recycled through the buffer pool every few writes,
		// while readers copy large values out of them
		row.O.WriteBuffer = 4 * *huge * 1024
		row.Desc += fmt.Sprintf("huge=%dk ", *huge)
	}
	tr, err := vt.NewTracer(*out)
	if err != nil {
		fmt.Fprintln(os.Stderr, err)
		os.Exit(2)
	}
	e := &env{tr: tr, u: vt.NewUniverse(row.Cmp, *nkeys, *seed, false), stor: vt.NewRecStor(), o: row.O,
		gmap: map[int64]int{}, idmap: map[int64]int{}, open: map[int]*openOp{}}
	e.stor.Record = false
	e.noIter = *withClose
	e.huge = *huge > 0
	if *fault != "" {
		f := strings.Split(*fault, ":")
		fs := &faultState{}
		for k := vt.OpCreate; k <= vt.OpGetMeta; k++ {
			if k.String() == f[0] {
				fs.kind = k
			}
		}
		fs.ft = map[string]storage.FileType{"journal": storage.TypeJournal, "manifest": storage.TypeManifest, "table": storage.TypeTable}[f[1]]
		fmt.Sscan(f[2], &fs.idx)
		fmt.Sscan(f[3], &fs.cnt)
		e.fault = fs
		e.stor.Fault = func(op *vt.Op) (error, int) {
			fs.mu.Lock()
			defer fs.mu.Unlock()
			ft := op.Fd.Type
			if op.Kind == vt.OpSetMeta {
				ft = storage.TypeManifest
			}
			if !fs.on || fs.healed || op.Kind != fs.kind || ft != fs.ft {
				return nil, -1
			}
			fs.seen++
			if fs.seen >= fs.idx && (fs.cnt == 0 || fs.seen < fs.idx+fs.cnt) {
				fs.injected++
				return vt.ErrInjected, -1
			}
			return nil, -1
		}
	}
	tr.Emit(vt.Ev{"ev": "reset", "seed": *seed, "row": row.Desc, "nk": e.u.N(), "procs": *procs, "writers": *nw, "readers": *nr,
		"close": b2i(*withClose), "fault": *fault})
	e.hooks()
	db, err := leveldb.Open(e.stor, e.o)
	if err != nil {
		fmt.Fprintln(os.Stderr, "open:", err)
		os.Exit(2)
	}
	e.db = db
	if e.fault != nil {
		// fault positions count from here: a fault inside Open is the business of the sequential fault runs (C08/C09 part a)
		e.fault.mu.Lock()
		e.fault.on = true
		e.fault.mu.Unlock()
	}
	start := time.Now()
	var wg sync.WaitGroup
	c := 0
	for i := 0; i < *nw; i++ {
		c++
		wg.Add(1)
		go e.writer(c, rand.New(rand.NewSource(*seed*100+int64(c))), wcfg{nops: *nops, keysPer: 4, bigEvery: 25, fatEvery: *fat, wb: e.o.WriteBuffer, huge: *huge * 1024}, &wg)
	}
	for i := 0; i < *nr; i++ {
		c++
		wg.Add(1)
		go e.reader(c, rand.New(rand.NewSource(*seed*100+int64(c))), *nops, &wg)
	}
	if *withTx {
		c++
		wg.Add(1)
		go e.txuser(c, rand.New(rand.NewSource(*seed*100+int64(c))), *nops/6+1, e.o.WriteBuffer, &wg)
	}
	c++
	wg.Add(1)
	go e.compactor(c, rand.New(rand.NewSource(*seed*100+int64(c))), *nops/20+1, &wg)
	closer := 0
	closeDone := make(chan struct{})
	if *withClose {
		c++
		closer = c
		go func(c int) {
			e.register(c)
			time.Sleep(time.Duration(2+rng.Intn(30)) * time.Millisecond)
			op := e.call(c, "close", vt.Ev{})
			err := e.db.Close()
			e.ret(c, op, vt.Ev{"err": errName(err)})
			close(closeDone)
		}(c)
	}
	if *setro {
		// one client switches the DB to read-only at some point (racing the writers, and Close when there is one)
		c++
		wg.Add(1)
		go func(c int) {
			defer wg.Done()
			e.register(c)
			time.Sleep(time.Duration(1+rng.Intn(32)) * time.Millisecond)
			op := e.call(c, "setro", vt.Ev{})
			err := e.db.SetReadOnly()
			e.ret(c, op, vt.Ev{"err": errName(err)})
		}(c)
	}
	finished := make(chan struct{})
	go func() { wg.Wait(); close(finished) }()

	// watchdog: heal persistent faults when nothing moves, then report blocked calls
	stuck := false
	last, since := int64(-1), time.Now()
loop:
	for {
		select {
		case <-finished:
			break loop
		case <-time.After(200 * time.Millisecond):
		}
		p := atomic.LoadInt64(&e.prog)
		if p != last {
			last, since = p, time.Now()
			continue
		}
		if e.fault != nil && time.Since(since) > time.Second {
			e.fault.mu.Lock()
			act := e.fault.injected > 0 && !e.fault.healed
			if act {
				e.fault.healed = true
			}
			e.fault.mu.Unlock()
			if act {
				tr.Emit(vt.Ev{"ev": "note", "what": "healed-by-watchdog"})
				since = time.Now()
				continue
			}
		}
		if time.Since(since) > time.Duration(*hang)*time.Second {
			stuck = true
			break loop
		}
	}
	if e.fault != nil {
		e.fault.mu.Lock()
		e.fault.healed = true
		e.fault.mu.Unlock()
	}
	if !stuck && *withClose {
		select {
		case <-closeDone:
		case <-time.After(time.Duration(*hang) * time.Second):
			stuck = true
		}
	}
	if !stuck && !*withClose {
		// Close must return too
		cc := c + 1
		e.register(cc)
		op := e.call(cc, "close", vt.Ev{})
		ch := make(chan error, 1)
		go func() { ch <- e.db.Close() }()
		select {
		case err := <-ch:
			e.ret(cc, op, vt.Ev{"err": errName(err)})
		case <-time.After(time.Duration(*hang) * time.Second):
			stuck = true
		}
	}
	_ = closer
	e.mu.Lock()
	pend := []int{}
	kinds := []string{}
	for op, oo := range e.open {
		pend = append(pend, op)
		kinds = append(kinds, oo.kind)
	}
	e.mu.Unlock()
	atomic.StoreInt32(&e.done, 1)
	q := vt.Ev{"ev": "quiesce", "pending": pend, "kinds": kinds}
	if len(pend) > 0 {
		q["stacks"] = stacks()
	}
	tr.Emit(q)
	tr.Close()
	inj := 0
	if e.fault != nil {
		inj = e.fault.injected
	}
	sum := map[string]interface{}{"seed": *seed, "row": row.Desc, "events": tr.N(), "procs": *procs, "pending": len(pend),
		"ops": atomic.LoadInt64(&e.opn), "injected": inj, "fault": *fault, "wall_s": time.Since(start).Seconds()}
	b, _ := json.Marshal(sum)
	fmt.Println(string(b))
	os.Exit(0)
}
