// crashdb decides C04 on the real code: it runs a seeded workload on a recording
// storage, then materialises the post-crash storage image for every chosen prefix
// of the storage-operation log and every image class, reopens the REAL DB on
// it (optionally crashing again during that recovery), reads everything back and
// logs one "recovered" line per distinct outcome.  spec/CrashTrace.tla judges each
// line: reopen succeeded, contents = the issued batches of a witness set applied in
// order, the witness contains every sync-acknowledged batch, every batch all-or-nothing.
package main

import (
	"encoding/json"
	"flag"
	"fmt"
	"math/rand"
	"os"
	"sort"
	"strings"
	"sync"
	"time"

	"github.com/syndtr/goleveldb/leveldb"
	"github.com/syndtr/goleveldb/leveldb/opt"
	"github.com/syndtr/goleveldb/leveldb/util"

	"verif/harness/internal/vt"
)

type batch struct {
	id      int
	ops     [][2]int // key rank, value id (0 delete)
	vals    [][]byte
	sync    bool
	ok      bool
	kind    string
	beginOp int // storage ops logged before the call started
	ackOp   int // storage ops logged when the call had returned
}

type workload struct {
	rng     *rand.Rand
	u       *vt.Universe
	vg      *vt.ValueGen
	stor    *vt.RecStor
	db      *leveldb.DB
	o       *opt.Options
	batches []*batch
	tr      *vt.Tracer
}

func b2i(b bool) int {
	if b {
		return 1
	}
	return 0
}

func (w *workload) genOps(n int, big bool) ([][2]int, [][]byte) {
	ops := make([][2]int, 0, n)
	vals := make([][]byte, 0, n)
	for i := 0; i < n; i++ {
		k := w.rng.Intn(w.u.N())
		if w.rng.Intn(5) == 0 {
			ops = append(ops, [2]int{k, 0})
			vals = append(vals, nil)
			continue
		}
		var v []byte
		var id int
		if big {
			v, id = w.vg.FreshLen(w.o.WriteBuffer/2 + w.rng.Intn(w.o.WriteBuffer))
		} else {
			v, id = w.vg.Fresh()
		}
		ops = append(ops, [2]int{k, id})
		vals = append(vals, v)
	}
	return ops, vals
}

func (w *workload) record(b *batch, err error) {
	b.ok = err == nil
	b.ackOp = w.stor.NOps()
	b.id = len(w.batches) + 1
	w.batches = append(w.batches, b)
	res := "ok"
	if err != nil {
		res = "fail"
	}
	w.tr.Emit(vt.Ev{"ev": "batch", "id": b.id, "ops": b.ops, "sync": b2i(b.sync), "res": res, "kind": b.kind,
		"b": b.beginOp, "a": b.ackOp})
}

func (w *workload) step() error {
	r := w.rng.Intn(100)
	sync := w.rng.Intn(3) == 0
	wo := &opt.WriteOptions{Sync: sync}
	switch {
	case r < 45: // single put/delete
		ops, vals := w.genOps(1, false)
		b := &batch{ops: ops, vals: vals, sync: sync, kind: "put", beginOp: w.stor.NOps()}
		var err error
		if ops[0][1] == 0 {
			err = w.db.Delete(w.u.Key(ops[0][0]), wo)
		} else {
			err = w.db.Put(w.u.Key(ops[0][0]), vals[0], wo)
		}
		w.record(b, err)
		return err
	case r < 80: // batch, sometimes oversize (transaction path unless disabled)
		big := w.rng.Intn(10) == 0
		n := 2 + w.rng.Intn(5)
		ops, vals := w.genOps(n, big)
		lb := new(leveldb.Batch)
		for i, o := range ops {
			if o[1] == 0 {
				lb.Delete(w.u.Key(o[0]))
			} else {
				lb.Put(w.u.Key(o[0]), vals[i])
			}
		}
		kind := "write"
		if big {
			kind = "bigwrite"
			if !w.o.DisableLargeBatchTransaction {
				sync = true // the transaction path is durable on return
			}
		}
		b := &batch{ops: ops, vals: vals, sync: sync, kind: kind, beginOp: w.stor.NOps()}
		err := w.db.Write(lb, wo)
		w.record(b, err)
		return err
	case r < 92: // explicit transaction; commit is durable on return
		begin := w.stor.NOps()
		tx, err := w.db.OpenTransaction()
		if err != nil {
			return err
		}
		var ops [][2]int
		var vals [][]byte
		for j := 0; j < 1+w.rng.Intn(3); j++ {
			o, v := w.genOps(1+w.rng.Intn(4), w.rng.Intn(8) == 0)
			for i := range o {
				if o[i][1] == 0 {
					err = tx.Delete(w.u.Key(o[i][0]), nil)
				} else {
					err = tx.Put(w.u.Key(o[i][0]), v[i], nil)
				}
				if err != nil {
					tx.Discard()
					return err
				}
			}
			ops = append(ops, o...)
			vals = append(vals, v...)
		}
		if w.rng.Intn(4) == 0 {
			tx.Discard()
			return nil
		}
		b := &batch{ops: ops, vals: vals, sync: true, kind: "tx", beginOp: begin}
		err = tx.Commit()
		if err != nil {
			tx.Discard()
		}
		w.record(b, err)
		return err
	case r < 96:
		return w.db.CompactRange(util.Range{})
	default:
		// clean close + reopen inside the workload
		if err := w.db.Close(); err != nil {
			return err
		}
		db, err := leveldb.Open(w.stor, w.o)
		if err != nil {
			return err
		}
		w.db = db
		return nil
	}
}

// ---- outcome of one reopen ----

type outcome struct {
	nometa bool // the image has no CURRENT pointer at all (crash while the DB was being created)
	ok     bool
	err    string
	store  [][2]int // present keys: rank, value id (-1 unknown bytes)
}

func readAll(db *leveldb.DB, u *vt.Universe, in *vt.Interner) ([][2]int, error) {
	var st [][2]int
	for k := 0; k < u.N(); k++ {
		v, err := db.Get(u.Key(k), nil)
		if err == leveldb.ErrNotFound {
			continue
		}
		if err != nil {
			return nil, fmt.Errorf("get %d: %v", k, err)
		}
		st = append(st, [2]int{k, in.Lookup(v)})
	}
	// the iterator must agree with the point reads
	it := db.NewIterator(nil, nil)
	i := 0
	for it.Next() {
		k := u.Rank(it.Key())
		if i >= len(st) || st[i][0] != k || st[i][1] != in.Lookup(it.Value()) {
			it.Release()
			return nil, fmt.Errorf("iterator disagrees with Get at position %d (key %d)", i, k)
		}
		i++
	}
	err := it.Error()
	it.Release()
	if err != nil {
		return nil, err
	}
	if i != len(st) {
		return nil, fmt.Errorf("iterator yields %d pairs, point reads %d", i, len(st))
	}
	return st, nil
}

func reopen(img *vt.RecStor, o *opt.Options, u *vt.Universe, in *vt.Interner) (out outcome) {
	defer func() {
		if x := recover(); x != nil {
			out = outcome{err: fmt.Sprintf("panic: %v", x)}
		}
	}()
	_, hasMeta := img.Meta()
	db, err := leveldb.Open(img, o)
	if err != nil {
		return outcome{err: "open: " + err.Error(), nometa: !hasMeta}
	}
	st, err := readAll(db, u, in)
	if err != nil {
		db.Close()
		return outcome{err: err.Error()}
	}
	if err := db.Close(); err != nil {
		return outcome{err: "close: " + err.Error()}
	}
	return outcome{ok: true, store: st}
}

// findWitness looks for a set of batch ids whose application in order yields store.
// The result is only a proposal: the trace specification checks it.
func findWitness(bs []*batch, at int, nk int, store [][2]int) []int {
	want := make([]int, nk)
	for _, p := range store {
		want[p[0]] = p[1]
	}
	var cand []*batch
	for _, b := range bs {
		if b.beginOp < at {
			cand = append(cand, b)
		}
	}
	// Going backwards, include a batch whenever that is consistent: each key it writes
	// (its last write to that key) is either overwritten by a later included batch or
	// equals the recovered value. Including a consistent batch only relaxes the
	// constraints on earlier ones, so this maximal choice explains the store iff any
	// subset does. The specification re-checks the result.
	covered := make([]bool, nk)
	sel := make([]bool, len(cand))
	for i := len(cand) - 1; i >= 0; i-- {
		last := map[int]int{}
		for _, o := range cand[i].ops {
			last[o[0]] = o[1]
		}
		okb := true
		for k, v := range last {
			if !covered[k] && want[k] != v {
				okb = false
				break
			}
		}
		if okb {
			sel[i] = true
			for k := range last {
				covered[k] = true
			}
		}
	}
	return ids(cand, sel)
}

func ids(cand []*batch, sel []bool) []int {
	r := []int{}
	for i, s := range sel {
		if s {
			r = append(r, cand[i].id)
		}
	}
	return r
}

func main() {
	seed := flag.Int64("seed", 1, "seed")
	nsteps := flag.Int("n", 150, "workload steps")
	out := flag.String("out", "", "trace file")
	nkeys := flag.Int("nkeys", 16, "keys")
	stride := flag.Int("stride", 1, "crash at every stride-th storage operation (1 = all)")
	nested := flag.Int("nested", 40, "number of (point, class) pairs whose recovery is crashed again at every operation")
	usage := flag.Int("usage", 8, "number of recovered DBs that run a follow-up program")
	par := flag.Int("par", 16, "parallel reopens")
	flag.Parse()

	rng := rand.New(rand.NewSource(*seed))
	spec := vt.RowSpec{CmpKind: -1, CmpSep: -1, SmallOnly: true}
	if rng.Intn(2) == 0 {
		spec.ManifestSize = 1
	}
	row := vt.DrawRow(*seed, spec)
	row.O.NoSync = false
	tr, err := vt.NewTracer(*out)
	if err != nil {
		fmt.Fprintln(os.Stderr, err)
		os.Exit(2)
	}
	wb := row.O.WriteBuffer
	w := &workload{rng: rng, u: vt.NewUniverse(row.Cmp, *nkeys, *seed, true),
		vg:   vt.NewValueGen(*seed, []int{0, 1, 8, 30, 30, 100, 100, wb / 8, wb / 3}),
		stor: vt.NewRecStor(), o: row.O, tr: tr}
	tr.Emit(vt.Ev{"ev": "reset", "ro": 0, "seed": *seed, "row": row.Desc, "nk": w.u.N()})
	start := time.Now()
	db, err := leveldb.Open(w.stor, w.o)
	if err != nil {
		fmt.Fprintln(os.Stderr, "open:", err)
		os.Exit(2)
	}
	w.db = db
	for i := 0; i < *nsteps; i++ {
		if err := w.step(); err != nil {
			// no faults are injected here: an error is a finding of its own
			tr.Emit(vt.Ev{"ev": "workload-error", "err": err.Error()})
			break
		}
	}
	w.db.Close()
	log := w.stor.OpLog()
	nops := len(log)

	// ---- crash points ----
	type job struct {
		at, class int
		seed      int64
	}
	var jobs []job
	for at := 0; at <= nops; at += *stride {
		for c := 0; c < vt.NImageClasses; c++ {
			jobs = append(jobs, job{at, c, *seed*1000003 + int64(at)*7 + int64(c)})
		}
	}
	type result struct {
		job
		depth int
		at2   int
		out   outcome
	}
	results := make([]result, 0, len(jobs))
	var mu sync.Mutex
	var wg sync.WaitGroup
	ch := make(chan job)
	nestedSet := map[int]bool{}
	for i := 0; i < *nested && len(jobs) > 0; i++ {
		nestedSet[rng.Intn(len(jobs))] = true
	}
	jobIdx := map[job]int{}
	for i, j := range jobs {
		jobIdx[j] = i
	}
	var reopens, nestedReopens int64
	for g := 0; g < *par; g++ {
		wg.Add(1)
		go func() {
			defer wg.Done()
			for j := range ch {
				r := rand.New(rand.NewSource(j.seed))
				img, _ := vt.Image(log, j.at, j.class, r)
				var base *vt.RecStor
				isNested := nestedSet[jobIdx[j]]
				if isNested {
					base = img.Clone()
				}
				o := reopen(img, w.o, w.u, w.vg.In)
				mu.Lock()
				results = append(results, result{job: j, depth: 1, out: o})
				reopens++
				mu.Unlock()
				if isNested {
					// crash again at every operation of that recovery
					log2 := img.OpLog()
					for at2 := 0; at2 <= len(log2); at2++ {
						c2 := r.Intn(vt.NImageClasses)
						img2, _ := vt.ImageFrom(base, log2, at2, c2, r)
						o2 := reopen(img2, w.o, w.u, w.vg.In)
						mu.Lock()
						results = append(results, result{job: j, depth: 2, at2: at2, out: o2})
						nestedReopens++
						mu.Unlock()
					}
				}
			}
		}()
	}
	for _, j := range jobs {
		ch <- j
	}
	close(ch)
	wg.Wait()
	sort.Slice(results, func(a, b int) bool {
		x, y := results[a], results[b]
		if x.at != y.at {
			return x.at < y.at
		}
		if x.class != y.class {
			return x.class < y.class
		}
		if x.depth != y.depth {
			return x.depth < y.depth
		}
		return x.at2 < y.at2
	})

	// ---- one line per distinct outcome ----
	// must-have and begun sets depend on `at` only through these two counts:
	mustCount := func(at int) (int, int) {
		m, b := 0, 0
		for _, x := range w.batches {
			if x.ok && x.sync && x.ackOp <= at {
				m++
			}
			if x.beginOp < at {
				b++
			}
		}
		return m, b
	}
	seen := map[string]int{}
	distinct, differs := 0, 0
	var firstKey string
	for _, r := range results {
		m, b := mustCount(r.at)
		sj, _ := json.Marshal(r.out.store)
		key := fmt.Sprintf("%d|%d|%v|%s|%s", m, b, r.out.ok, r.out.err, sj)
		if firstKey == "" {
			firstKey = key
		}
		if n, ok := seen[key]; ok {
			seen[key] = n + 1
			continue
		}
		seen[key] = 1
		distinct++
		e := vt.Ev{"ev": "recovered", "ok": b2i(r.out.ok), "at": r.at, "class": vt.ImageClassNames[r.class], "depth": r.depth, "at2": r.at2,
			"store": r.out.store, "err": r.out.err, "nometa": b2i(r.out.nometa)}
		if r.out.store == nil {
			e["store"] = [][2]int{}
		}
		if r.out.ok {
			e["witness"] = findWitness(w.batches, r.at, w.u.N(), r.out.store)
		} else {
			e["witness"] = []int{}
		}
		tr.Emit(e)
	}
	// how many outcomes differ from the clean-shutdown contents
	final := results[len(results)-1]
	fj, _ := json.Marshal(final.out.store)
	for k := range seen {
		if !strings.HasSuffix(k, "|"+string(fj)) {
			differs++
		}
	}

	// ---- follow-up use of recovered DBs: they must behave as ordinary DBs (KV contract) ----
	used := 0
	for i := 0; i < *usage && len(jobs) > 0; i++ {
		j := jobs[rng.Intn(len(jobs))]
		img, _ := vt.Image(log, j.at, j.class, rand.New(rand.NewSource(j.seed)))
		db, err := leveldb.Open(img, w.o)
		if err != nil {
			continue // already reported through its recovered line
		}
		st, err := readAll(db, w.u, w.vg.In)
		if err != nil {
			db.Close()
			continue
		}
		tr.Emit(vt.Ev{"ev": "adopt", "store": nonNil(st), "at": j.at, "class": vt.ImageClassNames[j.class]})
		followUp(tr, db, img, w, rng)
		used++
	}
	tr.Close()
	sum := map[string]interface{}{"seed": *seed, "row": row.Desc, "events": tr.N(), "batches": len(w.batches), "storage_ops": nops,
		"crash_points": len(jobs), "reopens": reopens, "nested_reopens": nestedReopens, "distinct_outcomes": distinct,
		"outcomes_differing_from_clean": differs, "followups": used, "wall_s": time.Since(start).Seconds()}
	b, _ := json.Marshal(sum)
	fmt.Println(string(b))
}

func nonNil(st [][2]int) [][2]int {
	if st == nil {
		return [][2]int{}
	}
	return st
}

func errName(err error) string {
	switch {
	case err == nil:
		return "none"
	case err == leveldb.ErrNotFound:
		return "notfound"
	}
	return "other:" + err.Error()
}

// followUp runs a short KV-contract program (KVTrace events) on a recovered DB.
func followUp(tr *vt.Tracer, db *leveldb.DB, img *vt.RecStor, w *workload, rng *rand.Rand) {
	n := w.u.N()
	for i := 0; i < 60; i++ {
		switch r := rng.Intn(10); {
		case r < 5:
			ops, vals := w.genOps(1+rng.Intn(3), false)
			lb := new(leveldb.Batch)
			for i, o := range ops {
				if o[1] == 0 {
					lb.Delete(w.u.Key(o[0]))
				} else {
					lb.Put(w.u.Key(o[0]), vals[i])
				}
			}
			err := db.Write(lb, nil)
			tr.Emit(vt.Ev{"ev": "write", "ops": ops, "err": errName(err)})
		case r < 9:
			k := rng.Intn(n)
			v, err := db.Get(w.u.Key(k), nil)
			id := 0
			if err == nil {
				id = w.vg.In.Lookup(v)
			}
			tr.Emit(vt.Ev{"ev": "get", "k": k, "err": errName(err), "v": id})
		default:
			err := db.CompactRange(util.Range{})
			tr.Emit(vt.Ev{"ev": "compact", "err": errName(err)})
		}
	}
	err := db.Close()
	tr.Emit(vt.Ev{"ev": "close", "err": errName(err)})
	db2, err := leveldb.Open(img, w.o)
	tr.Emit(vt.Ev{"ev": "reopen", "ro": 0, "err": errName(err)})
	if err != nil {
		return
	}
	for k := 0; k < n; k++ {
		v, err := db2.Get(w.u.Key(k), nil)
		id := 0
		if err == nil {
			id = w.vg.In.Lookup(v)
		}
		tr.Emit(vt.Ev{"ev": "get", "k": k, "err": errName(err), "v": id})
	}
	db2.Close()
	tr.Emit(vt.Ev{"ev": "close", "err": "none"})
}
