// crashdb decides C04 on the real code: it runs a seeded workload on a recording
// storage, then materialises the post-crash storage image for every chosen prefix
// of the storage-operation log and every image class, reopens the REAL DB on
// it (optionally crashing again during that recovery), reads everything back and
// logs one "recovered" line per distinct outcome.  spec/CrashTrace.tla judges each
// line: reopen succeeded, contents = the issued batches of a witness set applied in
// order, the witness contains every sync-acknowledged batch, every batch all-or-nothing.
package main

import (
	"encoding/json"
	"flag"
	"fmt"
	"math/rand"
	"os"
	"sort"
	"strings"
	"sync"
	"time"

	"github.com/syndtr/goleveldb/leveldb"
	"github.com/syndtr/goleveldb/leveldb/opt"
	"github.com/syndtr/goleveldb/leveldb/util"

	"verif/harness/internal/vt"
	"verif/harness/internal/wl"
)

// ---- outcome of one reopen ----

type outcome struct {
	nometa bool // the image has no CURRENT pointer at all (crash while the DB was being created)
	ok     bool
	err    string
	store  [][2]int // present keys: rank, value id (-1 unknown bytes)
}

func reopen(img *vt.RecStor, o *opt.Options, u *vt.Universe, in *vt.Interner) (out outcome) {
	defer func() {
		if x := recover(); x != nil {
			out = outcome{err: fmt.Sprintf("panic: %v", x)}
		}
	}()
	_, hasMeta := img.Meta()
	db, err := leveldb.Open(img, o)
	if err != nil {
		return outcome{err: "open: " + err.Error(), nometa: !hasMeta}
	}
	st, err := wl.ReadAll(db, u, in)
	if err != nil {
		db.Close()
		return outcome{err: err.Error()}
	}
	if err := db.Close(); err != nil {
		return outcome{err: "close: " + err.Error()}
	}
	return outcome{ok: true, store: st}
}

// findWitness looks for a set of batch ids whose application in order yields store.
// The result is only a proposal: the trace specification checks it.
func findWitness(bs []*wl.Batch, at int, nk int, store [][2]int) []int {
	want := make([]int, nk)
	for _, p := range store {
		want[p[0]] = p[1]
	}
	var cand []*wl.Batch
	for _, b := range bs {
		if b.BeginOp < at {
			cand = append(cand, b)
		}
	}
	// Going backwards, include a batch whenever that is consistent: each key it writes
	// (its last write to that key) is either overwritten by a later included batch or
	// equals the recovered value. Including a consistent batch only relaxes the
	// constraints on earlier ones, so this maximal choice explains the store iff any
	// subset does. The specification re-checks the result.
	covered := make([]bool, nk)
	sel := make([]bool, len(cand))
	for i := len(cand) - 1; i >= 0; i-- {
		last := map[int]int{}
		for _, o := range cand[i].Ops {
			last[o[0]] = o[1]
		}
		okb := true
		for k, v := range last {
			if !covered[k] && want[k] != v {
				okb = false
				break
			}
		}
		if okb {
			sel[i] = true
			for k := range last {
				covered[k] = true
			}
		}
	}
	return ids(cand, sel)
}

func ids(cand []*wl.Batch, sel []bool) []int {
	r := []int{}
	for i, s := range sel {
		if s {
			r = append(r, cand[i].ID)
		}
	}
	return r
}

func main() {
	seed := flag.Int64("seed", 1, "seed")
	nsteps := flag.Int("n", 150, "workload steps")
	out := flag.String("out", "", "trace file")
	nkeys := flag.Int("nkeys", 16, "keys")
	stride := flag.Int("stride", 1, "crash at every stride-th storage operation (1 = all)")
	nested := flag.Int("nested", 40, "number of (point, class) pairs whose recovery is crashed again at every operation")
	usage := flag.Int("usage", 8, "number of recovered DBs that run a follow-up program")
	par := flag.Int("par", 16, "parallel reopens")
	writers := flag.Int("writers", 0, "concurrent writers in a merged-writes phase (0: none)")
	flag.Parse()

	rng := rand.New(rand.NewSource(*seed))
	spec := vt.RowSpec{CmpKind: -1, CmpSep: -1, SmallOnly: true}
	if rng.Intn(2) == 0 {
		spec.ManifestSize = 1
	}
	row := vt.DrawRow(*seed, spec)
	row.O.NoSync = false
	tr, err := vt.NewTracer(*out)
	if err != nil {
		fmt.Fprintln(os.Stderr, err)
		os.Exit(2)
	}
	wb := row.O.WriteBuffer
	w := &wl.Workload{Rng: rng, U: vt.NewUniverse(row.Cmp, *nkeys, *seed, true),
		VG:   vt.NewValueGen(*seed, []int{0, 1, 8, 30, 30, 100, 100, wb / 8, wb / 3}),
		Stor: vt.NewRecStor(), O: row.O, Tr: tr}
	tr.Emit(vt.Ev{"ev": "reset", "ro": 0, "seed": *seed, "row": row.Desc, "nk": w.U.N()})
	start := time.Now()
	db, err := leveldb.Open(w.Stor, w.O)
	if err != nil {
		fmt.Fprintln(os.Stderr, "open:", err)
		os.Exit(2)
	}
	w.DB = db
	for i := 0; i < *nsteps; i++ {
		if *writers > 1 && i == *nsteps/2 {
			// merged groups of sync and non-sync writers become durable together
			w.ConcurrentPhase(*writers, 25, *seed)
		}
		if err := w.Step(); err != nil {
			// no faults are injected here: an error is a finding of its own
			tr.Emit(vt.Ev{"ev": "workload-error", "err": err.Error()})
			break
		}
	}
	w.DB.Close()
	log := w.Stor.OpLog()
	nops := len(log)

	// ---- crash points ----
	type job struct {
		at, class int
		seed      int64
	}
	var jobs []job
	for at := 0; at <= nops; at += *stride {
		for c := 0; c < vt.NImageClasses; c++ {
			jobs = append(jobs, job{at, c, *seed*1000003 + int64(at)*7 + int64(c)})
		}
	}
	type result struct {
		job
		depth int
		at2   int
		out   outcome
	}
	results := make([]result, 0, len(jobs))
	var mu sync.Mutex
	var wg sync.WaitGroup
	ch := make(chan job)
	nestedSet := map[int]bool{}
	for i := 0; i < *nested && len(jobs) > 0; i++ {
		nestedSet[rng.Intn(len(jobs))] = true
	}
	jobIdx := map[job]int{}
	for i, j := range jobs {
		jobIdx[j] = i
	}
	var reopens, nestedReopens int64
	for g := 0; g < *par; g++ {
		wg.Add(1)
		go func() {
			defer wg.Done()
			for j := range ch {
				r := rand.New(rand.NewSource(j.seed))
				img, _ := vt.Image(log, j.at, j.class, r)
				var base *vt.RecStor
				isNested := nestedSet[jobIdx[j]]
				if isNested {
					base = img.Clone()
				}
				o := reopen(img, w.O, w.U, w.VG.In)
				mu.Lock()
				results = append(results, result{job: j, depth: 1, out: o})
				reopens++
				mu.Unlock()
				if isNested {
					// crash again at every operation of that recovery
					log2 := img.OpLog()
					for at2 := 0; at2 <= len(log2); at2++ {
						c2 := r.Intn(vt.NImageClasses)
						img2, _ := vt.ImageFrom(base, log2, at2, c2, r)
						o2 := reopen(img2, w.O, w.U, w.VG.In)
						mu.Lock()
						results = append(results, result{job: j, depth: 2, at2: at2, out: o2})
						nestedReopens++
						mu.Unlock()
					}
				}
			}
		}()
	}
	for _, j := range jobs {
		ch <- j
	}
	close(ch)
	wg.Wait()
	sort.Slice(results, func(a, b int) bool {
		x, y := results[a], results[b]
		if x.at != y.at {
			return x.at < y.at
		}
		if x.class != y.class {
			return x.class < y.class
		}
		if x.depth != y.depth {
			return x.depth < y.depth
		}
		return x.at2 < y.at2
	})

	// ---- one line per distinct outcome ----
	// must-have and begun sets depend on `at` only through these two counts:
	mustCount := func(at int) (int, int) {
		m, b := 0, 0
		for _, x := range w.Batches {
			if x.OK && x.Sync && x.AckOp <= at {
				m++
			}
			if x.BeginOp < at {
				b++
			}
		}
		return m, b
	}
	seen := map[string]int{}
	distinct, differs := 0, 0
	var firstKey string
	for _, r := range results {
		m, b := mustCount(r.at)
		sj, _ := json.Marshal(r.out.store)
		key := fmt.Sprintf("%d|%d|%v|%s|%s", m, b, r.out.ok, r.out.err, sj)
		if firstKey == "" {
			firstKey = key
		}
		if n, ok := seen[key]; ok {
			seen[key] = n + 1
			continue
		}
		seen[key] = 1
		distinct++
		e := vt.Ev{"ev": "recovered", "ok": wl.B2i(r.out.ok), "at": r.at, "class": vt.ImageClassNames[r.class], "depth": r.depth, "at2": r.at2,
			"store": r.out.store, "err": r.out.err, "nometa": wl.B2i(r.out.nometa)}
		if r.out.store == nil {
			e["store"] = [][2]int{}
		}
		if r.out.ok {
			e["witness"] = findWitness(w.Batches, r.at, w.U.N(), r.out.store)
		} else {
			e["witness"] = []int{}
		}
		tr.Emit(e)
	}
	// how many outcomes differ from the clean-shutdown contents
	final := results[len(results)-1]
	fj, _ := json.Marshal(final.out.store)
	for k := range seen {
		if !strings.HasSuffix(k, "|"+string(fj)) {
			differs++
		}
	}

	// ---- follow-up use of recovered DBs: they must behave as ordinary DBs (KV contract) ----
	used := 0
	for i := 0; i < *usage && len(jobs) > 0; i++ {
		j := jobs[rng.Intn(len(jobs))]
		img, _ := vt.Image(log, j.at, j.class, rand.New(rand.NewSource(j.seed)))
		db, err := leveldb.Open(img, w.O)
		if err != nil {
			continue // already reported through its recovered line
		}
		st, err := wl.ReadAll(db, w.U, w.VG.In)
		if err != nil {
			db.Close()
			continue
		}
		tr.Emit(vt.Ev{"ev": "adopt", "store": nonNil(st), "at": j.at, "class": vt.ImageClassNames[j.class]})
		followUp(tr, db, img, w, rng)
		used++
	}
	tr.Close()
	sum := map[string]interface{}{"seed": *seed, "row": row.Desc, "events": tr.N(), "batches": len(w.Batches), "storage_ops": nops,
		"crash_points": len(jobs), "reopens": reopens, "nested_reopens": nestedReopens, "distinct_outcomes": distinct,
		"outcomes_differing_from_clean": differs, "followups": used, "wall_s": time.Since(start).Seconds()}
	b, _ := json.Marshal(sum)
	fmt.Println(string(b))
}

func nonNil(st [][2]int) [][2]int {
	if st == nil {
		return [][2]int{}
	}
	return st
}

func errName(err error) string {
	switch {
	case err == nil:
		return "none"
	case err == leveldb.ErrNotFound:
		return "notfound"
	}
	return "other:" + err.Error()
}

// followUp runs a short KV-contract program (KVTrace events) on a recovered DB.
func followUp(tr *vt.Tracer, db *leveldb.DB, img *vt.RecStor, w *wl.Workload, rng *rand.Rand) {
	n := w.U.N()
	for i := 0; i < 60; i++ {
		switch r := rng.Intn(10); {
		case r < 5:
			ops, vals := w.GenOps(1+rng.Intn(3), false)
			lb := new(leveldb.Batch)
			for i, o := range ops {
				if o[1] == 0 {
					lb.Delete(w.U.Key(o[0]))
				} else {
					lb.Put(w.U.Key(o[0]), vals[i])
				}
			}
			err := db.Write(lb, nil)
			tr.Emit(vt.Ev{"ev": "write", "ops": ops, "err": errName(err)})
		case r < 9:
			k := rng.Intn(n)
			v, err := db.Get(w.U.Key(k), nil)
			id := 0
			if err == nil {
				id = w.VG.In.Lookup(v)
			}
			tr.Emit(vt.Ev{"ev": "get", "k": k, "err": errName(err), "v": id})
		default:
			err := db.CompactRange(util.Range{})
			tr.Emit(vt.Ev{"ev": "compact", "err": errName(err)})
		}
	}
	err := db.Close()
	tr.Emit(vt.Ev{"ev": "close", "err": errName(err)})
	db2, err := leveldb.Open(img, w.O)
	tr.Emit(vt.Ev{"ev": "reopen", "ro": 0, "err": errName(err)})
	if err != nil {
		return
	}
	for k := 0; k < n; k++ {
		v, err := db2.Get(w.U.Key(k), nil)
		id := 0
		if err == nil {
			id = w.VG.In.Lookup(v)
		}
		tr.Emit(vt.Ev{"ev": "get", "k": k, "err": errName(err), "v": id})
	}
	db2.Close()
	tr.Emit(vt.Ev{"ev": "close", "err": "none"})
}
