// fstorchk binds spec/FileStore.tla to the REAL file storage (storage.OpenFile).
//
//	-mode getmeta -in images.ndjson
//	    every line is a post-crash directory TLC reached: {"files":[[kind,num,content],...]} with kind cur|bak|p|m,
//	    content >0 manifest number (pointer files) / 1 (complete manifest), 0 empty, -1 garbage.  The directory is
//	    materialised and the real GetMeta is asked twice: read-only open (no side effect) and writable open (restores
//	    CURRENT); the answers and the directory after the restore are printed, one JSON line per image.
//	-mode drive -dir D [-image '{"files":[...]}'] -n N
//	    the workload whose system calls are recorded with strace by lib/fstor.py: (optionally materialise an image and
//	    run a writable GetMeta on it, then) install manifests k+1..k+N the way session.newManifest does: create, write,
//	    sync, close the manifest, SetMeta, remove the previous manifest; SetMeta once more with the same manifest;
//	    GetMeta.  Marker system calls (stat of /VERIF-MARK/<what>/<n>) delimit the calls for the trace parser.
package main

import (
	"encoding/json"
	"flag"
	"fmt"
	"os"
	"path/filepath"
	"sort"
	"strings"

	"github.com/syndtr/goleveldb/leveldb/storage"
)

type image struct {
	Files [][]interface{} `json:"files"`
}

func num(v interface{}) int { return int(v.(float64)) }

func fname(kind string, n int) string {
	switch kind {
	case "cur":
		return "CURRENT"
	case "bak":
		return "CURRENT.bak"
	case "p":
		return fmt.Sprintf("CURRENT.%d", n)
	case "m":
		return fmt.Sprintf("MANIFEST-%06d", n)
	}
	panic("kind " + kind)
}

func materialise(dir string, im *image) {
	for _, f := range im.Files {
		kind, n, c := f[0].(string), num(f[1]), num(f[2])
		var data []byte
		switch {
		case kind == "m":
			if c == 1 {
				data = []byte("manifest-bytes")
			} else if c == -1 {
				data = []byte("man")
			}
		case c > 0:
			data = []byte(fmt.Sprintf("MANIFEST-%06d\n", c))
		case c == -1:
			data = []byte("MANIFEST-0000")
		}
		if err := os.WriteFile(filepath.Join(dir, fname(kind, n)), data, 0644); err != nil {
			fmt.Fprintln(os.Stderr, err)
			os.Exit(2)
		}
	}
}

// listing returns the pointer files of dir as [[kind,num,content]...] (content parsed as the specification does).
func listing(dir string) [][]interface{} {
	ents, _ := os.ReadDir(dir)
	out := [][]interface{}{}
	for _, e := range ents {
		name := e.Name()
		var kind string
		var n int
		switch {
		case name == "CURRENT":
			kind = "cur"
		case name == "CURRENT.bak":
			kind = "bak"
		case strings.HasPrefix(name, "CURRENT."):
			if _, err := fmt.Sscanf(name, "CURRENT.%d", &n); err != nil {
				continue
			}
			kind = "p"
		case strings.HasPrefix(name, "MANIFEST-"):
			fmt.Sscanf(name, "MANIFEST-%d", &n)
			kind = "m"
		default:
			continue
		}
		b, _ := os.ReadFile(filepath.Join(dir, name))
		c := -1
		if kind == "m" {
			c = 1
		} else {
			var k int
			if len(b) == 0 {
				c = 0
			} else if _, err := fmt.Sscanf(string(b), "MANIFEST-%06d\n", &k); err == nil && strings.HasSuffix(string(b), "\n") {
				c = k
			}
		}
		out = append(out, []interface{}{kind, n, c})
	}
	sort.Slice(out, func(i, j int) bool { return fmt.Sprint(out[i]) < fmt.Sprint(out[j]) })
	return out
}

// snapshotDir: name -> content of every stored file (CURRENT*, MANIFEST-*, tables, journals); LOCK and LOG belong to the
// storage itself.
func snapshotDir(dir string) map[string]string {
	m := map[string]string{}
	ents, _ := os.ReadDir(dir)
	for _, e := range ents {
		if e.Name() == "LOCK" || e.Name() == "LOG" || e.Name() == "LOG.old" {
			continue
		}
		b, _ := os.ReadFile(filepath.Join(dir, e.Name()))
		m[e.Name()] = string(b)
	}
	return m
}

// diffDir lists what a read-only open created, deleted or modified.
func diffDir(a, b map[string]string) []string {
	out := []string{}
	for n, c := range a {
		if c2, ok := b[n]; !ok {
			out = append(out, "deleted "+n)
		} else if c2 != c {
			out = append(out, "modified "+n)
		}
	}
	for n := range b {
		if _, ok := a[n]; !ok {
			out = append(out, "created "+n)
		}
	}
	sort.Strings(out)
	return out
}

func getMeta(dir string, ro bool) (int, string) {
	st, err := storage.OpenFile(dir, ro)
	if err != nil {
		return 0, "open: " + err.Error()
	}
	defer st.Close()
	fd, err := st.GetMeta()
	if err != nil {
		return 0, err.Error()
	}
	if fd.Type != storage.TypeManifest {
		return 0, "not a manifest: " + fd.String()
	}
	return int(fd.Num), ""
}

func mark(what string, n int) { os.Stat(fmt.Sprintf("/VERIF-MARK/%s/%d", what, n)) }

func main() {
	mode := flag.String("mode", "getmeta", "")
	in := flag.String("in", "", "")
	dir := flag.String("dir", "", "")
	img := flag.String("image", "", "")
	n := flag.Int("n", 3, "")
	flag.Parse()
	switch *mode {
	case "getmeta":
		b, err := os.ReadFile(*in)
		if err != nil {
			fmt.Fprintln(os.Stderr, err)
			os.Exit(2)
		}
		base, _ := os.MkdirTemp("", "fstorchk")
		defer os.RemoveAll(base)
		for i, line := range strings.Split(strings.TrimSpace(string(b)), "\n") {
			var im image
			if err := json.Unmarshal([]byte(line), &im); err != nil {
				fmt.Fprintln(os.Stderr, "line", i+1, err)
				os.Exit(2)
			}
			d1 := filepath.Join(base, fmt.Sprintf("ro%d", i))
			d2 := filepath.Join(base, fmt.Sprintf("rw%d", i))
			os.Mkdir(d1, 0755)
			os.Mkdir(d2, 0755)
			materialise(d1, &im)
			materialise(d2, &im)
			before := snapshotDir(d1)
			g1, e1 := getMeta(d1, true)
			roChanged := diffDir(before, snapshotDir(d1))
			g2, e2 := getMeta(d2, false)
			out, _ := json.Marshal(map[string]interface{}{"i": i, "ro": g1, "roerr": e1, "rw": g2, "rwerr": e2, "after": listing(d2),
				"ro_changed": roChanged})
			fmt.Println(string(out))
			os.RemoveAll(d1)
			os.RemoveAll(d2)
		}
	case "drive":
		k := 0
		if *img != "" {
			var im image
			if err := json.Unmarshal([]byte(*img), &im); err != nil {
				fmt.Fprintln(os.Stderr, err)
				os.Exit(2)
			}
			materialise(*dir, &im)
		}
		mark("start", 0)
		st, err := storage.OpenFile(*dir, false)
		if err != nil {
			fmt.Fprintln(os.Stderr, err)
			os.Exit(2)
		}
		if *img != "" {
			mark("getmeta-begin", 0)
			fd, err := st.GetMeta()
			if err == nil {
				k = int(fd.Num)
			}
			mark("getmeta-end", k)
		}
		for i := 1; i <= *n; i++ {
			m := k + i
			fd := storage.FileDesc{Type: storage.TypeManifest, Num: int64(m)}
			w, err := st.Create(fd)
			if err != nil {
				fmt.Fprintln(os.Stderr, err)
				os.Exit(2)
			}
			w.Write([]byte("manifest-bytes"))
			if err := w.Sync(); err != nil {
				fmt.Fprintln(os.Stderr, err)
				os.Exit(2)
			}
			w.Close()
			mark("begin", m)
			if err := st.SetMeta(fd); err != nil {
				fmt.Fprintln(os.Stderr, err)
				os.Exit(2)
			}
			mark("end", m)
			if m > 1 {
				st.Remove(storage.FileDesc{Type: storage.TypeManifest, Num: int64(m - 1)})
			}
		}
		last := storage.FileDesc{Type: storage.TypeManifest, Num: int64(k + *n)}
		mark("begin", k+*n)
		st.SetMeta(last)
		mark("end", k+*n)
		mark("getmeta-begin", 0)
		fd, _ := st.GetMeta()
		mark("getmeta-end", int(fd.Num))
		st.Close()
		fmt.Println(`{"ok":1}`)
	}
}
