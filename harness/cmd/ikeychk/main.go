// ikeychk evaluates the REAL internal-key comparer (leveldb.VerifIComparer over
// a user comparer) on whole key universes and records the answers as NDJSON
// (schema of spec/IKeyTrace.tla, property C15).
//
// One run = one user comparer.  Universe 1 ("enum") is every user key of
// length <= 3 over {0x00, 0x61, 0xff} x sequence numbers {0, 1, 2^56-1} x both
// kinds (240 internal keys); further universes are drawn by seed from long
// random keys (shared prefixes, adjacent bytes, 0x00/0xff runs, the empty key)
// and sequence numbers around the byte boundaries of the 8-byte trailer.
//
// Abstraction written to the trace: a user key is its POSITION under the
// harness's reference order (vt.RefCmp.Compare; bytes.Compare for the built-in
// comparer): universe keys sit on even positions 2,4,..., any other key (a
// shortened key returned by Separator/Successor) on the odd position between
// its neighbours.  A sequence number is its class index (dense rank among all
// sequence numbers seen in the universe, probes and replies; "mx" is the class
// of 2^56-1).  The raw 2^56-1 never appears in the trace.
//
// Events (one universe = univ, cmp*, tri*, probe*, [usep*, usucc], sep*, succ):
//
//	univ   keys [[u,s,t]...] in reference order, mx, rt (make/parse round trip per key)
//	cmp    a, sg[j] = sign(Compare(key a, key j)) for every j
//	tri    sampled triples i,j,k with sab,sbc,sac from fresh Compare calls
//	probe  k,s and sg[j] = sign(Compare(makeInternalKey(k,s,seek), key j))
//	usep   (built-in comparer and k0s0, which shortens with it) user-level Separator(ua, ub) for every ub > ua
//	usucc  (same) user-level Successor(ub) for every ub
//	sep    a, b[] (every b > a), user-level answer (up, ush), reply (rp, rs, rt),
//	       real signs ca = sign(Compare(a, reply)), cb = sign(Compare(reply, b)),
//	       reference signs ha, hb (informational), im (inputs left intact)
//	succ   b[] (every key), same vectors with cb = sign(Compare(reply, b))
package main

import (
	"bytes"
	"encoding/binary"
	"encoding/json"
	"flag"
	"fmt"
	"math/rand"
	"os"
	"sort"

	"github.com/syndtr/goleveldb/leveldb"
	"github.com/syndtr/goleveldb/leveldb/comparer"

	"verif/harness/internal/vt"
)

const maxSeq = leveldb.VerifKeyMaxSeq

func sign(x int) int {
	if x < 0 {
		return -1
	} else if x > 0 {
		return 1
	}
	return 0
}

func die(format string, a ...interface{}) {
	fmt.Fprintf(os.Stderr, "ikeychk: "+format+"\n", a...)
	os.Exit(2)
}

// recCmp records what the user comparer answered to the internal comparer.
type recCmp struct {
	comparer.Comparer
	nilAns bool
	ans    []byte
	calls  int
}

func (r *recCmp) rec(dstLen int, x []byte) {
	r.calls++
	r.nilAns = x == nil
	r.ans = nil
	if x != nil {
		r.ans = append([]byte{}, x[dstLen:]...)
	}
}

func (r *recCmp) Separator(dst, a, b []byte) []byte {
	x := r.Comparer.Separator(dst, a, b)
	r.rec(len(dst), x)
	return x
}

func (r *recCmp) Successor(dst, b []byte) []byte {
	x := r.Comparer.Successor(dst, b)
	r.rec(len(dst), x)
	return x
}

type ikey struct {
	u    []byte
	seq  uint64
	kind int
	b    []byte
	pos  int // user position (even)
}

type shortRes struct { // one Separator/Successor call
	j        int // 1-based index of b
	uNil     bool
	ux       []byte
	rNil     bool
	r        []byte
	ca, cb   int
	intact   bool
	rSeq     uint64
	rKind    int
	rInvalid bool
}

type chk struct {
	ref   vt.RefCmp         // reference user order
	ucmp  comparer.Comparer // user comparer under the internal comparer
	rec   *recCmp
	icmp  comparer.Comparer // the real internal comparer
	self  bool              // user comparer is the harness's own: self-check its answers
	tr    *vt.Tracer
	rng   *rand.Rand
	stats map[string]int
	name  string
}

// ---- reference order (independent of the implementation) ----

func (c *chk) refIK(a, b []byte) int {
	ua, ub := a[:len(a)-8], b[:len(b)-8]
	if x := c.ref.Compare(ua, ub); x != 0 {
		return sign(x)
	}
	na, nb := binary.LittleEndian.Uint64(a[len(a)-8:]), binary.LittleEndian.Uint64(b[len(b)-8:])
	if na > nb {
		return -1
	} else if na < nb {
		return 1
	}
	return 0
}

// upos returns the doubled-scale position of x among the sorted user keys.
func (c *chk) upos(ukeys [][]byte, x []byte) int {
	n := sort.Search(len(ukeys), func(i int) bool { return c.ref.Compare(ukeys[i], x) >= 0 })
	if n < len(ukeys) && c.ref.Compare(ukeys[n], x) == 0 {
		if !bytes.Equal(ukeys[n], x) {
			die("reference order: distinct byte strings compare equal")
		}
		return 2 * (n + 1)
	}
	return 2*n + 1
}

// ---- universes ----

func enumUkeys() [][]byte {
	alpha := []byte{0x00, 0x61, 0xff}
	ukeys := [][]byte{{}}
	for _, a := range alpha {
		ukeys = append(ukeys, []byte{a})
		for _, b := range alpha {
			ukeys = append(ukeys, []byte{a, b})
			for _, d := range alpha {
				ukeys = append(ukeys, []byte{a, b, d})
			}
		}
	}
	return ukeys
}

var seqPool = []uint64{0, 1, 2, 127, 128, 255, 256, 257, 65535, 65536, 1<<24 - 1, 1 << 24, 1<<32 - 1, 1 << 32, 1 << 40,
	1<<48 - 1, 1 << 48, 1 << 55, maxSeq - 2, maxSeq - 1}

func (c *chk) randUkeys(n int) [][]byte {
	alpha := []byte{0x00, 0x01, 0x60, 0x61, 0x62, 0xfe, 0xff}
	rng := c.rng
	l := 1 + rng.Intn(12)
	switch rng.Intn(4) {
	case 0:
		l = 20 + rng.Intn(200)
	case 1:
		l = 1 + rng.Intn(4)
	}
	base := make([]byte, l)
	for i := range base {
		base[i] = alpha[rng.Intn(len(alpha))]
	}
	if rng.Intn(3) == 0 { // a long run of 0xff or 0x00 inside
		lo := rng.Intn(len(base))
		fill := byte(0xff)
		if rng.Intn(3) == 0 {
			fill = 0
		}
		for i := lo; i < len(base) && i < lo+1+rng.Intn(40); i++ {
			base[i] = fill
		}
	}
	seen := map[string]bool{}
	var out [][]byte
	add := func(k []byte) {
		if !seen[string(k)] {
			seen[string(k)] = true
			out = append(out, append([]byte{}, k...))
		}
	}
	if rng.Intn(3) == 0 {
		add([]byte{})
	}
	add(base)
	for tries := 0; len(out) < n && tries < 200; tries++ {
		k := append([]byte{}, base...)
		switch rng.Intn(7) {
		case 0: // proper prefix
			k = k[:rng.Intn(len(k)+1)]
		case 1: // one byte moved by +-1 or +-2 (adjacent bytes defeat naive shortening)
			i := rng.Intn(len(k))
			k[i] += byte(rng.Intn(5) - 2)
		case 2: // extension
			ext := []byte{0x00, 0xff, alpha[rng.Intn(len(alpha))]}
			for e := 1 + rng.Intn(3); e > 0; e-- {
				k = append(k, ext[rng.Intn(3)])
			}
		case 3: // change at a position and cut after it
			i := rng.Intn(len(k))
			k[i] = alpha[rng.Intn(len(alpha))]
			k = k[:i+1+rng.Intn(len(k)-i)]
		case 4: // derived from another key already chosen
			o := out[rng.Intn(len(out))]
			k = append(append([]byte{}, o...), alpha[rng.Intn(len(alpha))])
		case 5: // unrelated short key
			k = k[:0]
			for e := 1 + rng.Intn(3); e > 0; e-- {
				k = append(k, alpha[rng.Intn(len(alpha))])
			}
		case 6: // all 0xff
			k = bytes.Repeat([]byte{0xff}, 1+rng.Intn(5))
		}
		add(k)
	}
	return out
}

func pickSeqs(rng *rand.Rand, n int) []uint64 {
	seen := map[uint64]bool{}
	var out []uint64
	for len(out) < n {
		s := seqPool[rng.Intn(len(seqPool))]
		if rng.Intn(4) == 0 {
			s = uint64(rng.Int63()) & (maxSeq - 1)
		}
		if !seen[s] && s != maxSeq {
			seen[s] = true
			out = append(out, s)
		}
	}
	return out
}

func ints(n int) []int { return make([]int, 0, n) }

// universe evaluates the real comparer on one universe and emits its events.
func (c *chk) universe(label string, ukeys [][]byte, seqs []uint64, probeSeqs []uint64, absent [][]byte, ntri int) {
	sort.Slice(ukeys, func(i, j int) bool { return c.ref.Compare(ukeys[i], ukeys[j]) < 0 })
	sort.Slice(seqs, func(i, j int) bool { return seqs[i] > seqs[j] }) // newest first
	var keys []ikey
	for r, u := range ukeys {
		for _, s := range seqs {
			for kind := 1; kind >= 0; kind-- {
				keys = append(keys, ikey{u: u, seq: s, kind: kind, b: leveldb.VerifMakeInternalKey(u, s, kind), pos: 2 * (r + 1)})
			}
		}
	}
	n := len(keys)
	// keys are in reference internal order by construction; make sure of it
	for i := 1; i < n; i++ {
		if c.refIK(keys[i-1].b, keys[i].b) >= 0 {
			die("universe not in reference order")
		}
	}
	seqSet := map[uint64]bool{maxSeq: true}
	for _, s := range seqs {
		seqSet[s] = true
	}
	for _, s := range probeSeqs {
		seqSet[s] = true
	}

	// --- round trip of the encoding
	rt := ints(n)
	for _, k := range keys {
		u, s, kd, err := leveldb.VerifParseInternalKey(k.b)
		ok := err == nil && bytes.Equal(u, k.u) && s == k.seq && kd == k.kind && len(k.b) == len(k.u)+8 &&
			binary.LittleEndian.Uint64(k.b[len(k.u):]) == k.seq<<8|uint64(k.kind) && bytes.Equal(k.b[:len(k.u)], k.u)
		if ok {
			rt = append(rt, 1)
		} else {
			rt = append(rt, 0)
		}
	}

	// --- all ordered pairs
	cmpRows := make([][]int, n)
	for i := range keys {
		row := ints(n)
		for j := range keys {
			right := append([]byte{}, keys[j].b...) // never the same backing array as the left operand
			row = append(row, sign(c.icmp.Compare(keys[i].b, right)))
		}
		cmpRows[i] = row
		c.stats["pairs"] += n
	}

	// --- sampled triples (fresh calls)
	type tri struct{ i, j, k, ab, bc, ac int }
	var tris []tri
	for t := 0; t < ntri; t++ {
		i, j, k := c.rng.Intn(n), c.rng.Intn(n), c.rng.Intn(n)
		tris = append(tris, tri{i + 1, j + 1, k + 1, sign(c.icmp.Compare(keys[i].b, keys[j].b)),
			sign(c.icmp.Compare(keys[j].b, keys[k].b)), sign(c.icmp.Compare(keys[i].b, keys[k].b))})
	}
	c.stats["triples"] += len(tris)

	// --- probes
	type probe struct {
		kpos int
		seq  uint64
		sg   []int
	}
	var probes []probe
	pk := append([][]byte{}, ukeys...)
	pk = append(pk, absent...)
	for _, u := range pk {
		for _, s := range probeSeqs {
			p := leveldb.VerifMakeInternalKey(u, s, 1) // keyTypeSeek
			row := ints(n)
			for j := range keys {
				row = append(row, sign(c.icmp.Compare(p, keys[j].b)))
			}
			probes = append(probes, probe{c.upos(ukeys, u), s, row})
		}
	}
	c.stats["probes"] += len(probes)

	// --- shortening
	classify := func(res *shortRes) {
		if res.rNil {
			return
		}
		if len(res.r) < 8 {
			res.rInvalid = true
			return
		}
		num := binary.LittleEndian.Uint64(res.r[len(res.r)-8:])
		res.rSeq, res.rKind = num>>8, int(num&0xff)
		seqSet[res.rSeq] = true
	}
	call := func(sep bool, a, b ikey, j int, flip int) shortRes {
		var dst []byte
		if flip%2 == 1 {
			dst = make([]byte, 0, 64) // empty with capacity, as table.Writer passes scratch[:0]
		}
		ac, bc := append([]byte{}, a.b...), append([]byte{}, b.b...)
		c.rec.calls = 0
		var r []byte
		if sep {
			r = c.icmp.Separator(dst, ac, bc)
		} else {
			r = c.icmp.Successor(dst, bc)
		}
		if c.rec.calls != 1 {
			die("internal comparer consulted the user comparer %d times", c.rec.calls)
		}
		res := shortRes{j: j, uNil: c.rec.nilAns, ux: c.rec.ans, rNil: r == nil, r: append([]byte{}, r...),
			intact: bytes.Equal(ac, a.b) && bytes.Equal(bc, b.b)}
		if !res.rNil {
			if sep {
				res.ca = sign(c.icmp.Compare(a.b, res.r))
			}
			res.cb = sign(c.icmp.Compare(res.r, b.b))
		}
		classify(&res)
		return res
	}
	sepRows := make([][]shortRes, n)
	for i := range keys {
		for j := i + 1; j < n; j++ {
			res := call(true, keys[i], keys[j], j+1, i+j)
			sepRows[i] = append(sepRows[i], res)
			c.stats["sep_calls"]++
			if !res.rNil {
				c.stats["sep_nonnil"]++
			}
			if !res.uNil {
				c.stats["sep_user_nonnil"]++
			}
		}
	}
	var succRow []shortRes
	for j := range keys {
		res := call(false, keys[j], keys[j], j+1, j)
		succRow = append(succRow, res)
		c.stats["succ_calls"]++
		if !res.rNil {
			c.stats["succ_nonnil"]++
		}
	}

	// --- sequence classes
	var all []uint64
	for s := range seqSet {
		all = append(all, s)
	}
	sort.Slice(all, func(i, j int) bool { return all[i] < all[j] })
	class := map[uint64]int{}
	for i, s := range all {
		class[s] = i
	}

	// ---- emit
	tr := c.tr
	kk := make([][3]int, n)
	for i, k := range keys {
		kk[i] = [3]int{k.pos, class[k.seq], k.kind}
	}
	tr.Emit(vt.Ev{"ev": "univ", "cmp": c.name, "label": label, "keys": kk, "mx": class[maxSeq], "rt": rt,
		"nu": len(ukeys), "nk": n})
	for i := range keys {
		tr.Emit(vt.Ev{"ev": "cmp", "a": i + 1, "sg": cmpRows[i]})
	}
	for lo := 0; lo < len(tris); lo += 500 {
		hi := lo + 500
		if hi > len(tris) {
			hi = len(tris)
		}
		var vi, vj, vk, ab, bc, ac []int
		for _, t := range tris[lo:hi] {
			vi, vj, vk = append(vi, t.i), append(vj, t.j), append(vk, t.k)
			ab, bc, ac = append(ab, t.ab), append(bc, t.bc), append(ac, t.ac)
		}
		tr.Emit(vt.Ev{"ev": "tri", "i": vi, "j": vj, "k": vk, "ab": ab, "bc": bc, "ac": ac})
	}
	for _, p := range probes {
		tr.Emit(vt.Ev{"ev": "probe", "k": p.kpos, "s": class[p.seq], "sg": p.sg})
	}
	if !c.self {
		c.userLevel(ukeys)
	}
	emitShort := func(ev string, a int, rows []shortRes) {
		m := len(rows)
		b, up, ush, rp, rs, rtt, ca, cb, ha, hb := ints(m), ints(m), ints(m), ints(m), ints(m), ints(m), ints(m), ints(m), ints(m), ints(m)
		im := 1
		for _, r := range rows {
			ukey := keys[r.j-1].u // Successor: the key itself
			var akey ikey
			if a > 0 {
				akey = keys[a-1]
				ukey = akey.u
			}
			b = append(b, r.j)
			if r.uNil {
				up, ush = append(up, 0), append(ush, 0)
			} else {
				px := c.upos(ukeys, r.ux)
				sh := 0
				if len(r.ux) < len(ukey) {
					sh = 1
				}
				up, ush = append(up, px), append(ush, sh)
				if c.self { // the harness's own comparer must obey the user-level contract
					pb := keys[r.j-1].pos
					if a > 0 {
						if !(akey.pos <= px && (px < pb || px == akey.pos)) {
							die("reference comparer %s: inadmissible Separator answer %x for %x,%x", c.name, r.ux, akey.u, keys[r.j-1].u)
						}
					} else if px < pb {
						die("reference comparer %s: inadmissible Successor answer %x for %x", c.name, r.ux, keys[r.j-1].u)
					}
				}
			}
			switch {
			case r.rNil:
				rp, rs, rtt, ca, cb, ha, hb = append(rp, 0), append(rs, 0), append(rtt, 0), append(ca, 0), append(cb, 0), append(ha, 0), append(hb, 0)
			case r.rInvalid:
				rp, rs, rtt, ca, cb, ha, hb = append(rp, -1), append(rs, 0), append(rtt, 0), append(ca, 0), append(cb, 0), append(ha, 0), append(hb, 0)
			default:
				rp = append(rp, c.upos(ukeys, r.r[:len(r.r)-8]))
				rs, rtt = append(rs, class[r.rSeq]), append(rtt, r.rKind)
				ca, cb = append(ca, r.ca), append(cb, r.cb)
				h1 := 0
				if a > 0 {
					h1 = c.refIK(akey.b, r.r)
				}
				ha, hb = append(ha, h1), append(hb, c.refIK(r.r, keys[r.j-1].b))
			}
			if !r.intact {
				im = 0
			}
		}
		e := vt.Ev{"ev": ev, "b": b, "up": up, "ush": ush, "rp": rp, "rs": rs, "rt": rtt, "cb": cb, "hb": hb, "im": im}
		if a > 0 {
			e["a"], e["ca"], e["ha"] = a, ca, ha
		}
		tr.Emit(e)
	}
	for i := 0; i < n-1; i++ {
		emitShort("sep", i+1, sepRows[i])
	}
	emitShort("succ", 0, succRow)
	c.stats["universes"]++
	c.stats["keys"] += n
}

// userLevel records the built-in comparer's own Separator/Successor answers.
func (c *chk) userLevel(ukeys [][]byte) {
	m := len(ukeys)
	for i := 0; i < m-1; i++ {
		b, x, sh, ca, cb := ints(m), ints(m), ints(m), ints(m), ints(m)
		for j := i + 1; j < m; j++ {
			// "Separator appends a sequence of bytes x to dst such that a <= x && x < b": every other call hands in a
			// non-empty dst; the law is judged on what was appended, and dst itself must come back untouched in front of it
			var r []byte
			if (i+j)%2 == 1 {
				dst := []byte("dst:")
				if r = c.ucmp.Separator(dst, ukeys[i], ukeys[j]); r != nil {
					if bytes.HasPrefix(r, []byte("dst:")) {
						r = r[4:]
					} // else: judged as it is (the law will not hold)
				}
			} else {
				r = c.ucmp.Separator(nil, ukeys[i], ukeys[j])
			}
			b = append(b, 2*(j+1))
			c.stats["usep_calls"]++
			if r == nil {
				x, sh, ca, cb = append(x, 0), append(sh, 0), append(ca, 0), append(cb, 0)
				continue
			}
			c.stats["usep_nonnil"]++
			s := 0
			if len(r) < len(ukeys[i]) {
				s = 1
			}
			x, sh = append(x, c.upos(ukeys, r)), append(sh, s)
			ca, cb = append(ca, sign(c.ucmp.Compare(ukeys[i], r))), append(cb, sign(c.ucmp.Compare(r, ukeys[j])))
		}
		c.tr.Emit(vt.Ev{"ev": "usep", "a": 2 * (i + 1), "b": b, "x": x, "sh": sh, "ca": ca, "cb": cb})
	}
	b, x, cb := ints(m), ints(m), ints(m)
	for j := 0; j < m; j++ {
		var r []byte
		if j%2 == 1 {
			if r = c.ucmp.Successor([]byte("dst:"), ukeys[j]); r != nil && bytes.HasPrefix(r, []byte("dst:")) {
				r = r[4:]
			}
		} else {
			r = c.ucmp.Successor(nil, ukeys[j])
		}
		b = append(b, 2*(j+1))
		c.stats["usucc_calls"]++
		if r == nil {
			x, cb = append(x, 0), append(cb, 0)
			continue
		}
		c.stats["usucc_nonnil"]++
		x, cb = append(x, c.upos(ukeys, r)), append(cb, sign(c.ucmp.Compare(r, ukeys[j])))
	}
	c.tr.Emit(vt.Ev{"ev": "usucc", "b": b, "x": x, "cb": cb})
}

func main() {
	cmpName := flag.String("cmp", "default", "user comparer: default | k<kind>s<sep> (vt.RefCmp)")
	seed := flag.Int64("seed", 1, "seed of the random universes")
	enum := flag.Bool("enum", true, "include the enumerated universe (240 internal keys)")
	extras := flag.Int("extras", 10, "number of random universes of long keys")
	ntri := flag.Int("triples", 3000, "sampled triples of the enumerated universe (random universes: a tenth)")
	out := flag.String("out", "", "trace file")
	flag.Parse()

	c := &chk{stats: map[string]int{}, name: *cmpName, rng: rand.New(rand.NewSource(*seed))}
	if *cmpName == "default" {
		c.ref = vt.RefCmp{Kind: 0}
		c.ucmp = comparer.DefaultComparer
	} else {
		var k, s int
		if _, err := fmt.Sscanf(*cmpName, "k%ds%d", &k, &s); err != nil || k < 0 || k > 2 || s < 0 || s > 2 {
			die("bad -cmp %q", *cmpName)
		}
		c.ref = vt.RefCmp{Kind: k}
		c.ucmp = vt.RefCmp{Kind: k, Sep: s}
		// k0s0 shortens with the built-in comparer's code: that is code under
		// test, its answers go to the trace (usep/usucc) instead of a self-check.
		c.self = !(k == 0 && s == 0)
	}
	c.rec = &recCmp{Comparer: c.ucmp}
	c.icmp = leveldb.VerifIComparer(c.rec)
	tr, err := vt.NewTracer(*out)
	if err != nil {
		die("%v", err)
	}
	c.tr = tr

	if *enum {
		seqs := []uint64{0, 1, maxSeq}
		absent := [][]byte{{0x01}, {0x61, 0x61, 0x61, 0x61}, {0xfe}, {0xff, 0xff, 0xff, 0xff}}
		c.universe("enum", enumUkeys(), seqs, append([]uint64{}, seqs...), absent, *ntri)
	}
	for x := 0; x < *extras; x++ {
		uk := c.randUkeys(6 + c.rng.Intn(4))
		seqs := pickSeqs(c.rng, 3)
		if c.rng.Intn(2) == 0 {
			seqs = append(seqs, maxSeq)
		}
		probeSeqs := append(append([]uint64{}, seqs...), pickSeqs(c.rng, 2)...)
		if c.rng.Intn(2) == 0 {
			probeSeqs = append(probeSeqs, maxSeq)
		}
		ps := map[uint64]bool{}
		var pq []uint64
		for _, s := range probeSeqs {
			if !ps[s] {
				ps[s] = true
				pq = append(pq, s)
			}
		}
		absent := c.randUkeys(3)
		var abs [][]byte
		for _, a := range absent {
			dup := false
			for _, u := range uk {
				dup = dup || bytes.Equal(a, u)
			}
			if !dup {
				abs = append(abs, a)
			}
		}
		c.universe(fmt.Sprintf("rand%d", x), uk, seqs, pq, abs, *ntri/10)
	}
	ev := tr.N()
	if err := tr.Close(); err != nil {
		die("%v", err)
	}
	sum := map[string]interface{}{"cmp": *cmpName, "seed": *seed, "events": ev, "stats": c.stats}
	b, _ := json.Marshal(sum)
	fmt.Println(string(b))
}
