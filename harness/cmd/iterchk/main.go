// iterchk replays behaviours of spec/Merged.tla and spec/Indexed.tla on the REAL
// iterator.NewMergedIterator / iterator.NewIndexedIterator (property C02).
//
// Input (NDJSON, written by lib/itergraph.py from TLC's state-graph dump): one
// program per line = one layout + a path of calls through the state graph, each
// call with the state the specification reaches:
//
//	{"k":"merged","own":[child of key 1, child of key 2, ...],"n":children,
//	 "ops":[[method, arg, ok, valid, key], ...]}
//	{"k":"indexed","blk":[block of key 2, of key 4, ...],"sep":[index key per block],"bad":[blocks],
//	 "strict":0|1,"ops":[[method, arg, ok, valid, key, err], ...]}
//
// Keys are small integers, encoded as one byte, compared bytewise.  Children are
// iterator.NewArrayIterator over sorted arrays (correct cursors by construction);
// a bad block's data iterator fails every call with a corruption error.
// After every call the return value, Valid(), Key(), Value() and Error() are compared
// with the specification's state.  Output: one JSON summary line; mismatches are
// listed (first 20) with the program that produced them.
package main

import (
	"bufio"
	"encoding/json"
	"flag"
	"fmt"
	"os"
	"runtime/debug"
	"strings"

	"github.com/syndtr/goleveldb/leveldb/comparer"
	"github.com/syndtr/goleveldb/leveldb/errors"
	"github.com/syndtr/goleveldb/leveldb/iterator"
	"github.com/syndtr/goleveldb/leveldb/storage"
	"github.com/syndtr/goleveldb/leveldb/util"
)

type arr struct{ keys []int }

func (a *arr) Len() int { return len(a.keys) }
func (a *arr) Search(key []byte) int {
	k := int(key[0])
	for i, x := range a.keys {
		if x >= k {
			return i
		}
	}
	return len(a.keys)
}
func (a *arr) Index(i int) (key, value []byte) {
	return []byte{byte(a.keys[i])}, []byte{'v', byte(a.keys[i])}
}

// badIter is the data iterator of an unreadable block.
type badIter struct {
	util.BasicReleaser
	err error
}

func (b *badIter) Valid() bool                 { return false }
func (b *badIter) First() bool                 { return false }
func (b *badIter) Last() bool                  { return false }
func (b *badIter) Seek([]byte) bool            { return false }
func (b *badIter) Next() bool                  { return false }
func (b *badIter) Prev() bool                  { return false }
func (b *badIter) Key() []byte                 { return nil }
func (b *badIter) Value() []byte               { return nil }
func (b *badIter) Error() error                { return b.err }
func (b *badIter) SetReleaser(r util.Releaser) { b.BasicReleaser.SetReleaser(r) }

type idx struct {
	sep    []int
	blocks [][]int
	bad    map[int]bool
}

func (x *idx) Len() int { return len(x.sep) }
func (x *idx) Search(key []byte) int {
	k := int(key[0])
	for i, s := range x.sep {
		if s >= k {
			return i
		}
	}
	return len(x.sep)
}
func (x *idx) Get(i int) iterator.Iterator {
	if x.bad[i+1] {
		return &badIter{err: errors.NewErrCorrupted(storage.FileDesc{Type: storage.TypeTable, Num: int64(i + 1)}, fmt.Errorf("unreadable block %d", i+1))}
	}
	return iterator.NewArrayIterator(&arr{keys: x.blocks[i]})
}

type prog struct {
	K      string          `json:"k"`
	Own    []int           `json:"own"`
	N      int             `json:"n"`
	Blk    []int           `json:"blk"`
	Sep    []int           `json:"sep"`
	Bad    []int           `json:"bad"`
	Strict int             `json:"strict"`
	Ops    [][]interface{} `json:"ops"`
}

func mk(p *prog) iterator.Iterator {
	switch p.K {
	case "merged":
		ch := make([][]int, p.N)
		for i, c := range p.Own {
			ch[c-1] = append(ch[c-1], i+1)
		}
		its := make([]iterator.Iterator, p.N)
		for i := range its {
			its[i] = iterator.NewArrayIterator(&arr{keys: ch[i]})
		}
		return iterator.NewMergedIterator(its, comparer.DefaultComparer, true)
	case "indexed":
		x := &idx{sep: p.Sep, blocks: make([][]int, len(p.Sep)), bad: map[int]bool{}}
		for i, b := range p.Blk {
			x.blocks[b-1] = append(x.blocks[b-1], 2*(i+1))
		}
		for _, b := range p.Bad {
			x.bad[b] = true
		}
		return iterator.NewIndexedIterator(iterator.NewArrayIndexer(x), p.Strict == 1)
	}
	panic("unknown kind " + p.K)
}

func num(v interface{}) int { return int(v.(float64)) }

func runProg(p *prog) (step int, what string) {
	it := mk(p)
	cur := 0
	defer func() {
		// a crash inside the iterator package on a legal call sequence is behaviour of the real code
		if r := recover(); r != nil {
			st := string(debug.Stack())
			if !strings.Contains(st, "goleveldb/leveldb/iterator.") {
				panic(r)
			}
			step, what = cur, fmt.Sprintf("the call panicked inside the iterator package: %v", r)
		}
	}()
	defer it.Release()
	for i, op := range p.Ops {
		cur = i
		name, arg := op[0].(string), num(op[1])
		wantOK, wantValid, wantKey := num(op[2]) == 1, num(op[3]) == 1, num(op[4])
		wantErr := len(op) > 5 && num(op[5]) == 1
		var ok bool
		switch name {
		case "First":
			ok = it.First()
		case "Last":
			ok = it.Last()
		case "Next":
			ok = it.Next()
		case "Prev":
			ok = it.Prev()
		case "Seek":
			ok = it.Seek([]byte{byte(arg)})
		}
		if ok != wantOK {
			return i, fmt.Sprintf("%s(%d) returned %v, the specification's step returns %v", name, arg, ok, wantOK)
		}
		if p.K == "indexed" || !wantErr {
			if (it.Error() != nil) != wantErr {
				return i, fmt.Sprintf("after %s(%d): Error()=%v, the specification has err=%v", name, arg, it.Error(), wantErr)
			}
		}
		if wantErr {
			continue // a stopped iterator exposes nothing that is specified
		}
		if it.Valid() != wantValid {
			return i, fmt.Sprintf("after %s(%d): Valid()=%v, the specification has %v", name, arg, it.Valid(), wantValid)
		}
		if wantValid {
			k, v := it.Key(), it.Value()
			if len(k) != 1 || int(k[0]) != wantKey || len(v) != 2 || v[0] != 'v' || int(v[1]) != wantKey {
				return i, fmt.Sprintf("after %s(%d): Key()=%v Value()=%v, the specification is on key %d", name, arg, k, v, wantKey)
			}
		}
	}
	return -1, ""
}

func main() {
	in := flag.String("in", "", "programs (NDJSON)")
	flag.Parse()
	f, err := os.Open(*in)
	if err != nil {
		fmt.Fprintln(os.Stderr, err)
		os.Exit(2)
	}
	defer f.Close()
	sc := bufio.NewScanner(f)
	sc.Buffer(make([]byte, 1<<20), 1<<24)
	type mism struct {
		Line int    `json:"line"`
		Step int    `json:"step"`
		What string `json:"what"`
		Prog string `json:"prog"`
	}
	var out struct {
		Programs   map[string]int `json:"programs"`
		Calls      int            `json:"calls"`
		Mismatches int            `json:"mismatches"`
		First      []mism         `json:"first"`
	}
	out.Programs = map[string]int{}
	out.First = []mism{}
	line := 0
	for sc.Scan() {
		line++
		var p prog
		if err := json.Unmarshal(sc.Bytes(), &p); err != nil {
			fmt.Fprintln(os.Stderr, "line", line, err)
			os.Exit(2)
		}
		out.Programs[p.K]++
		out.Calls += len(p.Ops)
		if step, what := runProg(&p); step >= 0 {
			out.Mismatches++
			if len(out.First) < 20 {
				out.First = append(out.First, mism{line, step, what, sc.Text()})
			}
		}
	}
	b, _ := json.Marshal(out)
	fmt.Println(string(b))
}
