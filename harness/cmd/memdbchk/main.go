package main

import (
	"fmt"

	"github.com/syndtr/goleveldb/leveldb/comparer"
	"github.com/syndtr/goleveldb/leveldb/memdb"
)

func main() {
	db := memdb.New(comparer.DefaultComparer, 0)
	for _, k := range []string{"a", "b", "c", "d"} {
		db.Put([]byte(k), []byte("v"+k))
	}
	it := db.NewIterator(nil)
	it.Seek([]byte("b"))
	fmt.Println("at", string(it.Key()))
	db.Delete([]byte("b"))
	db.Delete([]byte("c"))
	fmt.Println("next", it.Next(), string(it.Key()), string(it.Value()), "contains c:", db.Contains([]byte("c")))
	it.Seek([]byte("a"))
	db.Delete([]byte("a"))
	db.Put([]byte("b"), []byte("new"))
	fmt.Println("next after del a, put b:", it.Next(), string(it.Key()))
	fmt.Println(db.Capacity(), db.Size(), db.Free(), db.Len())
	func() {
		defer func() { fmt.Println("recover:", recover()) }()
		it.Seek([]byte("d"))
		db.Reset()
		fmt.Println("next after reset", it.Next(), string(it.Key()))
	}()
}
