// memdbchk drives the real leveldb/memdb and records what it answers (schema of
// spec/MemDBTrace.tla, property C14).
//
//	-mode seq   one client: seeded programs of Put (new keys, overwrites with other
//	            value lengths), Delete (present and absent keys), Get / Find /
//	            Contains, iterators with and without ranges that are moved after
//	            modifications, Release, Reset and reuse.  One line per completed
//	            call with its reply and Len/Size/Free/Capacity read after it.
//	-mode conc  one writer goroutine and 2-6 reader goroutines (point reads and
//	            iterator walks) per epoch on one memdb; the writer logs wbeg/wend
//	            around each call, the readers inv/resp, through the shared tracer
//	            (mutex + global sequence number: file order is a real-time order).
//	            Between epochs all iterators are released and the DB is Reset.
//
// A panic inside a call is recovered and logged as the call's error, which no
// action of the specification explains.
package main

import (
	"encoding/json"
	"flag"
	"fmt"
	"math/rand"
	"os"
	"runtime"
	"sort"
	"strings"
	"sync"
	"sync/atomic"
	"time"

	"github.com/syndtr/goleveldb/leveldb/iterator"
	"github.com/syndtr/goleveldb/leveldb/memdb"
	"github.com/syndtr/goleveldb/leveldb/util"

	"verif/harness/internal/vt"
)

func b2i(b bool) int {
	if b {
		return 1
	}
	return 0
}

// values: content ids shared by all goroutines
type values struct {
	mu sync.Mutex
	g  *vt.ValueGen
}

func (v *values) fresh(l int) ([]byte, int) {
	v.mu.Lock()
	defer v.mu.Unlock()
	return v.g.FreshLen(l)
}

func (v *values) lookup(b []byte) int {
	v.mu.Lock()
	defer v.mu.Unlock()
	return v.g.In.Lookup(b)
}

var vlens = []int{0, 0, 1, 1, 2, 3, 5, 9, 9, 30, 30, 100, 300, 1000}

type env struct {
	tr    *vt.Tracer
	u     *vt.Universe
	vals  *values
	db    *memdb.DB
	nk    int // NK of the trace specification: rank of "no limit"
	stats map[string]int
	smu   sync.Mutex
}

func (e *env) count(kind string) {
	e.smu.Lock()
	e.stats[kind]++
	e.smu.Unlock()
}

func errName(err error) string {
	switch err {
	case nil:
		return "none"
	case memdb.ErrNotFound:
		return "notfound"
	case memdb.ErrIterReleased:
		return "released"
	}
	return "other:" + err.Error()
}

// guard runs f and turns a panic into an error name.
func guard(f func()) (perr string) {
	defer func() {
		if r := recover(); r != nil {
			perr = fmt.Sprintf("panic:%v", r)
		}
	}()
	f()
	return ""
}

func (e *env) rng(lo, hi int) *util.Range {
	if lo == 0 && hi == e.nk {
		return nil
	}
	r := &util.Range{}
	if lo > 0 {
		r.Start = e.u.Key(lo)
	}
	if hi < e.nk {
		r.Limit = e.u.Key(hi)
	}
	return r
}

// pair ranks a key and identifies a value the DB handed out; -1 = not something the driver ever wrote.
func (e *env) pair(k, v []byte) (int, int) {
	return e.u.Rank(k), e.vals.lookup(v)
}

func (e *env) withStats(ev vt.Ev) vt.Ev {
	ev["len"], ev["size"], ev["free"], ev["cap"] = e.db.Len(), e.db.Size(), e.db.Free(), e.db.Capacity()
	return ev
}

// ---- the calls, shared by both modes ----

type wop struct {
	op     string
	k      int
	v, vl  int
	val    []byte
	keyLen int
}

func (e *env) genPut(k, vl int) wop {
	val, id := e.vals.fresh(vl)
	return wop{op: "put", k: k, v: id, vl: len(val), val: val, keyLen: len(e.u.Keys[k])}
}

func (o wop) ev(name string) vt.Ev {
	return vt.Ev{"ev": name, "op": o.op, "k": o.k, "kl": o.keyLen, "v": o.v, "vl": o.vl}
}

func (e *env) doWrite(o wop) string {
	var err error
	if p := guard(func() {
		switch o.op {
		case "put":
			err = e.db.Put(e.u.Key(o.k), append([]byte{}, o.val...))
		case "del":
			err = e.db.Delete(e.u.Key(o.k))
		case "clear":
			e.db.Reset()
		}
	}); p != "" {
		return p
	}
	return errName(err)
}

// point reads: reply <<err, key, value>>
func (e *env) doRead(op string, k int) (string, int, int) {
	var (
		err    error
		rk, rv = -1, 0
	)
	if p := guard(func() {
		key := e.u.Key(k)
		switch op {
		case "get":
			var v []byte
			if v, err = e.db.Get(key); err == nil {
				rk, rv = k, e.vals.lookup(v)
			}
		case "find":
			var fk, v []byte
			if fk, v, err = e.db.Find(key); err == nil {
				rk, rv = e.pair(fk, v)
				if rk < 0 {
					rk = -2 // a key nobody stored
				}
			}
		case "has":
			if e.db.Contains(key) {
				rk, rv = k, 1
			}
		}
	}); p != "" {
		return p, -1, 0
	}
	return errName(err), rk, rv
}

// cursor move: reply ok, valid, key, value, error
func (e *env) doMove(it iterator.Iterator, mv string, arg int) (ok, valid bool, k, v int, errs string) {
	k, v = -1, 0
	if p := guard(func() {
		switch mv {
		case "first":
			ok = it.First()
		case "last":
			ok = it.Last()
		case "next":
			ok = it.Next()
		case "prev":
			ok = it.Prev()
		case "seek":
			ok = it.Seek(e.u.Key(arg))
		}
		valid = it.Valid()
		if ok {
			k, v = e.pair(it.Key(), it.Value())
			if k < 0 {
				k = -2
			}
		} else if it.Key() != nil || it.Value() != nil {
			k = -3 // an invalid iterator must expose no pair
		}
		errs = errName(it.Error())
	}); p != "" {
		return false, false, -1, 0, p
	}
	return
}

// ---- sequential programs ----

type sit struct {
	it     iterator.Iterator
	lo, hi int
	pos    int  // rank the real iterator reported, -1 when not valid
	det    bool // the key under the cursor was deleted since the cursor's last move
	resrch bool // the last move was a Next from such a position: re-search before the next Next
	rel    bool
}

type seq struct {
	*env
	r       *rand.Rand
	its     map[int]*sit
	order   []int
	nextH   int
	present map[int]bool
	detNext int
}

func (s *seq) emit(ev vt.Ev) {
	s.count(ev["ev"].(string))
	s.tr.Emit(s.withStats(ev))
}

func (s *seq) write(o wop) {
	err := s.doWrite(o)
	ev := o.ev("write")
	ev["err"] = err
	s.count("w:" + o.op)
	s.emit(ev)
	if err != "none" {
		return
	}
	switch o.op {
	case "put":
		s.present[o.k] = true
	case "del":
		delete(s.present, o.k)
		for _, c := range s.its {
			if !c.rel && c.pos == o.k {
				c.det = true
			}
		}
	case "clear":
		s.present = map[int]bool{}
	}
}

func (s *seq) anyPresent() (int, bool) {
	if len(s.present) == 0 {
		return 0, false
	}
	ks := make([]int, 0, len(s.present))
	for k := range s.present {
		ks = append(ks, k)
	}
	sort.Ints(ks) // map order is random
	return ks[s.r.Intn(len(ks))], true
}

func (s *seq) newIter() {
	n := s.u.N()
	lo, hi := 0, s.nk
	switch s.r.Intn(5) {
	case 0, 1: // whole DB
	case 2:
		lo = s.r.Intn(n)
	case 3:
		hi = s.r.Intn(n)
	default:
		lo, hi = s.r.Intn(n), s.r.Intn(n)
		if lo > hi && s.r.Intn(4) != 0 {
			lo, hi = hi, lo
		}
	}
	s.nextH++
	h := s.nextH
	s.its[h] = &sit{it: s.db.NewIterator(s.rng(lo, hi)), lo: lo, hi: hi, pos: -1}
	s.order = append(s.order, h)
	s.emit(vt.Ev{"ev": "iternew", "h": h, "lo": lo, "hi": hi})
}

func (s *seq) move(h int, mv string, arg int) {
	c := s.its[h]
	ok, valid, k, v, errs := s.doMove(c.it, mv, arg)
	det := c.det && mv == "next" && !c.rel
	if det {
		s.detNext++
	}
	s.count("mv:" + mv)
	s.emit(vt.Ev{"ev": "iter", "h": h, "mv": mv, "arg": arg, "ok": b2i(ok), "valid": b2i(valid), "k": k, "v": v,
		"err": errs, "det": b2i(det)})
	if c.rel {
		return
	}
	c.pos = -1
	if ok {
		c.pos = k
	}
	c.resrch = det
	c.det = false
}

func (s *seq) pickMove(c *sit) (string, int) {
	x := s.r.Intn(100)
	if c.resrch && x < 45 {
		x = 45 + s.r.Intn(55)
	}
	switch {
	case x < 45:
		return "next", 0
	case x < 65:
		return "prev", 0
	case x < 73:
		return "first", 0
	case x < 81:
		return "last", 0
	}
	return "seek", s.r.Intn(s.u.N())
}

func (s *seq) liveIter() (int, *sit) {
	var hs []int
	for _, h := range s.order {
		if !s.its[h].rel {
			hs = append(hs, h)
		}
	}
	if len(hs) == 0 {
		return 0, nil
	}
	h := hs[s.r.Intn(len(hs))]
	return h, s.its[h]
}

func (s *seq) release(h int) {
	c := s.its[h]
	c.it.Release()
	c.rel = true
	s.emit(vt.Ev{"ev": "iterrel", "h": h})
}

// gap: sit on a key, delete it, change what follows it, then call Next.
func (s *seq) gap() {
	h, c := s.liveIter()
	if c == nil || c.pos < 0 {
		return
	}
	x := c.pos
	s.write(wop{op: "del", k: x})
	n := s.u.N()
	for j := s.r.Intn(3); j > 0; j-- {
		k := x + 1 + s.r.Intn(3)
		if k >= n {
			break
		}
		if s.present[k] && s.r.Intn(2) == 0 {
			s.write(wop{op: "del", k: k})
		} else {
			s.write(s.genPut(k, vlens[s.r.Intn(len(vlens))]))
		}
	}
	if s.r.Intn(3) == 0 {
		s.write(s.genPut(x, vlens[s.r.Intn(len(vlens))]))
	}
	s.move(h, "next", 0)
}

func (s *seq) step() {
	n := s.u.N()
	x := s.r.Intn(1000)
	switch {
	case x < 300:
		k := s.r.Intn(n)
		if p, ok := s.anyPresent(); ok && s.r.Intn(2) == 0 {
			k = p // overwrite, usually with another length
		}
		s.write(s.genPut(k, vlens[s.r.Intn(len(vlens))]))
	case x < 420:
		k := s.r.Intn(n)
		if p, ok := s.anyPresent(); ok && s.r.Intn(5) < 3 {
			k = p
		}
		s.write(wop{op: "del", k: k})
	case x < 640:
		op := []string{"get", "find", "has"}[s.r.Intn(3)]
		k := s.r.Intn(n)
		err, rk, rv := s.doRead(op, k)
		s.emit(vt.Ev{"ev": op, "k": k, "err": err, "rk": rk, "v": rv})
	case x < 680:
		live := 0
		for _, c := range s.its {
			if !c.rel {
				live++
			}
		}
		if live >= 4 {
			h, _ := s.liveIter()
			s.release(h)
		}
		s.newIter()
	case x < 930:
		h, c := s.liveIter()
		if c == nil {
			s.newIter()
			return
		}
		for j := 1 + s.r.Intn(4); j > 0; j-- {
			mv, arg := s.pickMove(c)
			s.move(h, mv, arg)
		}
	case x < 936:
		s.gap()
	case x < 955:
		if h, c := s.liveIter(); c != nil {
			s.release(h)
			if s.r.Intn(2) == 0 { // a released iterator answers nothing
				mv, arg := s.pickMove(c)
				s.move(h, mv, arg)
				if s.r.Intn(2) == 0 {
					c.it.Release()
				}
			}
		}
	case x < 970:
		// Reset: outstanding iterators are released first (precondition), then the DB is reused
		for _, h := range s.order {
			if !s.its[h].rel {
				s.release(h)
			}
		}
		s.write(wop{op: "clear"})
	default:
		// a full forward or backward sweep through a fresh unranged iterator
		s.newIter()
		h := s.nextH
		mv := []string{"next", "prev"}[s.r.Intn(2)]
		for j := 0; j < len(s.present)+2; j++ {
			s.move(h, mv, 0)
		}
		s.release(h)
	}
}

// ---- concurrent histories ----

type conc struct {
	*env
	nextH  int64
	prog   int64
	rcalls int64 // reader calls made in this epoch
	rlive  int32 // readers still running
	wcalls int64 // writer calls made in this epoch
	start  chan struct{}
}

// The writer paces itself by the readers' progress so that its calls are spread over the
// whole history instead of finishing before the readers get going.
func (c *conc) writer(seed int64, nops, nr int, done *int32) {
	r := rand.New(rand.NewSource(seed))
	n := c.u.N()
	<-c.start
	for i := 0; i < nops; i++ {
		if r.Intn(5) != 0 {
			target := atomic.LoadInt64(&c.rcalls) + int64(1+r.Intn(2*nr))
			for atomic.LoadInt64(&c.rcalls) < target && atomic.LoadInt32(&c.rlive) > 0 {
				runtime.Gosched()
			}
		}
		var o wop
		if r.Intn(100) < 62 {
			o = c.genPut(r.Intn(n), vlens[r.Intn(len(vlens))])
		} else {
			o = wop{op: "del", k: r.Intn(n)}
		}
		c.tr.Emit(o.ev("wbeg"))
		yield(r, 2)
		err := c.doWrite(o)
		yield(r, 2)
		c.tr.Emit(c.withStats(vt.Ev{"ev": "wend", "err": err}))
		c.count("w:" + o.op)
		atomic.AddInt64(&c.prog, 1)
		atomic.AddInt64(&c.wcalls, 1)
		switch r.Intn(6) {
		case 0:
			runtime.Gosched()
		case 1:
			time.Sleep(time.Duration(r.Intn(40)) * time.Microsecond)
		}
	}
	atomic.StoreInt32(done, 1)
}

// yield lets other goroutines run while a call is open (between its two trace lines), so
// that the windows of reader calls really contain writer activity.
func yield(r *rand.Rand, oneIn int) {
	if r.Intn(oneIn) == 0 {
		runtime.Gosched()
	}
}

type cit struct {
	it iterator.Iterator
	h  int
}

func (c *conc) reader(id int, seed int64, ncalls int, done *int32) {
	r := rand.New(rand.NewSource(seed))
	n := c.u.N()
	var its []cit
	for j := 1 + r.Intn(2); j > 0; j-- {
		lo, hi := 0, c.nk
		switch r.Intn(4) {
		case 0:
			lo = r.Intn(n)
		case 1:
			hi = r.Intn(n)
		case 2:
			lo, hi = r.Intn(n), r.Intn(n)
			if lo > hi {
				lo, hi = hi, lo
			}
		}
		h := int(atomic.AddInt64(&c.nextH, 1))
		its = append(its, cit{c.db.NewIterator(c.rng(lo, hi)), h})
		c.tr.Emit(vt.Ev{"ev": "citernew", "h": h, "lo": lo, "hi": hi, "r": id})
	}
	defer atomic.AddInt32(&c.rlive, -1)
	<-c.start
	// keep going until the writer is done (bounded), so that calls overlap writes
	for i := 0; (atomic.LoadInt32(done) == 0 || i < 8) && i < ncalls; i++ {
		if r.Intn(10) == 0 {
			// linger: let the writer change the contents under the parked cursors
			target := atomic.LoadInt64(&c.wcalls) + int64(1+r.Intn(4))
			for atomic.LoadInt64(&c.wcalls) < target && atomic.LoadInt32(done) == 0 {
				atomic.AddInt64(&c.rcalls, 1) // the writer paces itself by this counter
				runtime.Gosched()
			}
		}
		if r.Intn(100) < 30 {
			op := []string{"get", "find", "has"}[r.Intn(3)]
			k := r.Intn(n)
			c.tr.Emit(vt.Ev{"ev": "inv", "r": id, "op": op, "k": k, "h": 0, "mv": "none", "arg": 0})
			yield(r, 3)
			err, rk, rv := c.doRead(op, k)
			yield(r, 3)
			c.tr.Emit(vt.Ev{"ev": "resp", "r": id, "err": err, "k": rk, "v": rv})
			c.count(op)
		} else {
			x := its[r.Intn(len(its))]
			mv, arg := "next", 0
			switch y := r.Intn(100); {
			case y < 55:
			case y < 70:
				mv = "prev"
			case y < 77:
				mv = "first"
			case y < 84:
				mv = "last"
			default:
				mv, arg = "seek", r.Intn(n)
			}
			c.tr.Emit(vt.Ev{"ev": "inv", "r": id, "op": "iter", "k": 0, "h": x.h, "mv": mv, "arg": arg})
			yield(r, 3)
			ok, valid, k, v, errs := c.doMove(x.it, mv, arg)
			yield(r, 3)
			if errs == "none" && ok != valid {
				errs = "valid-differs"
			}
			c.tr.Emit(vt.Ev{"ev": "resp", "r": id, "err": errs, "k": k, "v": v})
			c.count("mv:" + mv)
		}
		atomic.AddInt64(&c.prog, 1)
		atomic.AddInt64(&c.rcalls, 1)
		if r.Intn(8) == 0 {
			runtime.Gosched()
		}
	}
	for _, x := range its {
		x.it.Release()
		c.tr.Emit(vt.Ev{"ev": "citerrel", "h": x.h})
	}
}

type yieldCmp struct {
	vt.RefCmp
	n uint64
}

func (y *yieldCmp) Compare(a, b []byte) int {
	c := atomic.AddUint64(&y.n, 1)
	if c%7 == 0 {
		runtime.Gosched()
	}
	if c%29 == 0 {
		time.Sleep(60 * time.Microsecond)
	}
	return y.RefCmp.Compare(a, b)
}

func main() {
	mode := flag.String("mode", "seq", "seq | conc")
	seed := flag.Int64("seed", 1, "seed")
	n := flag.Int("n", 600, "seq: program steps; conc: writer calls per epoch")
	epochs := flag.Int("epochs", 3, "conc: epochs (Reset and reuse between them)")
	readers := flag.Int("readers", 0, "conc: reader goroutines (0: 2-6 by seed)")
	nk := flag.Int("nk", 24, "NK of spec/MemDBTrace.cfg")
	nkeys := flag.Int("nkeys", 0, "distinct keys (0: by seed)")
	cmpKind := flag.Int("cmp", -1, "comparer kind 0 1 2 (-1: by seed)")
	out := flag.String("out", "", "trace file")
	hang := flag.Int("hang", 60, "seconds without progress after which the run is abandoned (exit 2)")
	flag.Parse()

	rng := rand.New(rand.NewSource(*seed))
	kind := *cmpKind
	if kind < 0 {
		kind = int(*seed % 3)
	}
	cmp := vt.RefCmp{Kind: kind}
	nkk := *nkeys
	if nkk == 0 {
		if *mode == "conc" {
			nkk = 4 + rng.Intn(7)
		} else {
			nkk = []int{3, 6, 10, 16, 24}[rng.Intn(5)]
		}
	}
	if nkk > *nk {
		nkk = *nk
	}
	capacity := []int{0, 0, 64, 4096, 1 << 20}[rng.Intn(5)]
	tr, err := vt.NewTracer(*out)
	if err != nil {
		fmt.Fprintln(os.Stderr, err)
		os.Exit(2)
	}
	e := &env{tr: tr, u: vt.NewUniverse(cmp, nkk, *seed, true), nk: *nk, stats: map[string]int{},
		vals: &values{g: vt.NewValueGen(*seed, vlens)}}
	if *mode == "conc" && *seed%2 == 0 {
		// a comparer that sometimes yields or dawdles inside memdb's critical sections: with correct locking this only
		// delays the other side; it stretches the window of any access made outside the lock
		e.db = memdb.New(&yieldCmp{RefCmp: cmp}, capacity)
	} else {
		e.db = memdb.New(cmp, capacity)
	}
	row := fmt.Sprintf("cmp=%d nkeys=%d cap=%d", kind, e.u.N(), capacity)
	tr.Emit(vt.Ev{"ev": "reset", "mode": *mode, "seed": *seed, "cap": capacity, "row": row})
	start := time.Now()
	sum := map[string]interface{}{"mode": *mode, "seed": *seed, "row": row}

	if *mode == "seq" {
		s := &seq{env: e, r: rng, its: map[int]*sit{}, present: map[int]bool{}}
		for i := 0; i < *n; i++ {
			s.step()
		}
		for _, h := range s.order {
			if !s.its[h].rel {
				s.release(h)
			}
		}
		sum["det_next"] = s.detNext
	} else {
		c := &conc{env: e, nextH: 1000}
		nr := *readers
		if nr == 0 {
			nr = 2 + rng.Intn(5)
		}
		sum["readers"] = nr
		go func() { // watchdog: nobody (one writer, the readers) finishes a call any more
			last, since := int64(-1), time.Now()
			for {
				time.Sleep(500 * time.Millisecond)
				if p := atomic.LoadInt64(&c.prog); p != last {
					last, since = p, time.Now()
				} else if time.Since(since) > time.Duration(*hang)*time.Second {
					buf := make([]byte, 1<<16)
					buf = buf[:runtime.Stack(buf, true)]
					inMemdb := 0
					var where []string
					for _, g := range strings.Split(string(buf), "\n\n") {
						if i := strings.Index(g, "goleveldb/leveldb/memdb."); i >= 0 {
							inMemdb++
							ln := g[i:]
							if j := strings.Index(ln, "\n"); j > 0 {
								ln = ln[:j]
							}
							if len(where) < 8 {
								where = append(where, ln)
							}
						}
					}
					if inMemdb == 0 {
						fmt.Fprintln(os.Stderr, "memdbchk: no progress, and no goroutine is inside memdb")
						os.Exit(2)
					}
					// calls blocked inside memdb for good: the calls do not answer
					tr.Emit(vt.Ev{"ev": "hang", "after_s": *hang, "blocked_in_memdb": inMemdb, "where": where})
					tr.Close()
					sum["hung"] = true
					sum["events"] = tr.N()
					sum["stats"] = e.stats
					b, _ := json.Marshal(sum)
					fmt.Println(string(b))
					os.Exit(0)
				}
			}
		}()
		for ep := 0; ep < *epochs; ep++ {
			var wg sync.WaitGroup
			var done int32
			wg.Add(1 + nr)
			c.start, c.rcalls, c.wcalls, c.rlive = make(chan struct{}), 0, 0, int32(nr)
			wseed := rng.Int63()
			go func() { defer wg.Done(); c.writer(wseed, *n, nr, &done) }()
			ws := make([]int64, nr)
			for i := range ws {
				ws[i] = rng.Int63()
			}
			for i := 0; i < nr; i++ {
				go func(i int) { defer wg.Done(); c.reader(i+1, ws[i], 6**n, &done) }(i)
			}
			close(c.start)
			wg.Wait()
			// quiescent: Reset and reuse
			o := wop{op: "clear"}
			errs := c.doWrite(o)
			ev := o.ev("write")
			ev["err"] = errs
			tr.Emit(c.withStats(ev))
			c.count("w:clear")
		}
	}
	sum["events"] = tr.N()
	sum["stats"] = e.stats
	sum["wall_s"] = time.Since(start).Seconds()
	if err := tr.Close(); err != nil {
		fmt.Fprintln(os.Stderr, err)
		os.Exit(2)
	}
	b, _ := json.Marshal(sum)
	fmt.Println(string(b))
}
