// recoverdb decides C19 on the real code: a seeded workload builds a DB which is
// shut down cleanly and settled (Close, Open, Close: only live files remain); the
// manifest and/or CURRENT are then removed, truncated or garbled, optionally some
// table data blocks are damaged, and leveldb.Recover is run on the remains.  One
// `recoverdb` line records the outcome; spec/RecoverTrace.tla judges it: contents
// identical when only manifest/CURRENT were hit; with damaged blocks every key
// whose newest entry survived returns it and nothing that was never written appears.
package main

import (
	"encoding/json"
	"flag"
	"fmt"
	"github.com/syndtr/goleveldb/leveldb/opt"
	"math/rand"
	"os"
	"sort"
	"time"

	"github.com/syndtr/goleveldb/leveldb"
	"github.com/syndtr/goleveldb/leveldb/storage"
	"github.com/syndtr/goleveldb/leveldb/util"

	"verif/harness/internal/vt"
	"verif/harness/internal/wl"
)

func main() {
	seed := flag.Int64("seed", 1, "seed")
	nsteps := flag.Int("n", 200, "workload steps")
	out := flag.String("out", "", "trace file")
	nkeys := flag.Int("nkeys", 16, "keys")
	variants := flag.Int("variants", 12, "damage variants per workload")
	flag.Parse()

	rng := rand.New(rand.NewSource(*seed))
	row := vt.DrawRow(*seed, vt.RowSpec{CmpKind: -1, CmpSep: -1, SmallOnly: true})
	tr, err := vt.NewTracer(*out)
	if err != nil {
		fmt.Fprintln(os.Stderr, err)
		os.Exit(2)
	}
	wb := row.O.WriteBuffer
	w := &wl.Workload{Rng: rng, U: vt.NewUniverse(row.Cmp, *nkeys, *seed, true),
		VG:   vt.NewValueGen(*seed, []int{0, 1, 8, 30, 30, 100, 100, wb / 8, wb / 3}),
		Stor: vt.NewRecStor(), O: row.O, Tr: tr}
	w.Stor.Record = false
	tr.Emit(vt.Ev{"ev": "reset", "ro": 0, "seed": *seed, "row": row.Desc, "nk": w.U.N()})
	start := time.Now()
	db, err := leveldb.Open(w.Stor, w.O)
	if err != nil {
		fmt.Fprintln(os.Stderr, "open:", err)
		os.Exit(2)
	}
	w.DB = db
	for i := 0; i < *nsteps; i++ {
		if err := w.Step(); err != nil {
			tr.Emit(vt.Ev{"ev": "workload-error", "err": err.Error()})
			break
		}
	}
	// contents before shutdown
	before, err := wl.ReadAll(w.DB, w.U, w.VG.In)
	if err != nil {
		tr.Emit(vt.Ev{"ev": "workload-error", "err": err.Error()})
	}
	w.DB.Close()
	// settle: the janitor of Open removes every file the recovered state does not name
	live := map[int64]bool{}
	ntab := 0
	for _, f := range w.Stor.Files() {
		if f.Fd.Type == storage.TypeTable {
			ntab++
		}
	}
	if ntab > 0 || *seed%2 == 0 {
		// a compaction that the open itself starts leaves its inputs (or, when Close interrupts it, its partial outputs) behind
		// for the next open's janitor: open, let the background work drain, close - until nothing but live tables is stored
		for round := 0; round < 6; round++ {
			db, err = leveldb.Open(w.Stor, w.O)
			if err != nil {
				fmt.Fprintln(os.Stderr, "settle open:", err)
				os.Exit(2)
			}
			leveldb.VerifWaitIdle(db)
			_, levels := leveldb.VerifVersion(db)
			live = map[int64]bool{}
			for _, lv := range levels {
				for _, t := range lv {
					live[t.Num] = true
				}
			}
			db.Close()
			orphan := false
			for _, f := range w.Stor.Files() {
				if f.Fd.Type == storage.TypeTable && !live[f.Fd.Num] {
					orphan = true
				}
			}
			if !orphan {
				break
			}
		}
	} // else: a database without tables is settled as it is; Recover then meets the very first journal and manifest
	settled := true
	for _, f := range w.Stor.Files() {
		if f.Fd.Type == storage.TypeTable && !live[f.Fd.Num] {
			settled = false
		}
	}
	tr.Emit(vt.Ev{"ev": "settled", "store": nn(before), "ok": wl.B2i(settled), "tables": len(live)})
	if !settled {
		*variants = 0 // the property speaks about a settled shutdown: files of unfinished work would legitimately be picked up by Recover
	}

	ever := map[int]map[int]bool{}
	for _, b := range w.Batches {
		for _, o := range b.Ops {
			if o[1] > 0 {
				if ever[o[0]] == nil {
					ever[o[0]] = map[int]bool{}
				}
				ever[o[0]][o[1]] = true
			}
		}
	}
	var everList [][]int
	for k := 0; k < w.U.N(); k++ {
		l := []int{}
		for v := range ever[k] {
			l = append(l, v)
		}
		sort.Ints(l)
		everList = append(everList, l)
	}
	tr.Emit(vt.Ev{"ev": "ever", "vals": everList})

	recovers, damagedRuns := 0, 0
	manifestModes := []string{"removed", "truncated", "garbled", "current-lost", "removed"}
	for v := 0; v < *variants; v++ {
		img := w.Stor.Clone()
		mode := manifestModes[v%len(manifestModes)]
		var mfd storage.FileDesc
		for _, f := range img.Files() {
			if f.Fd.Type == storage.TypeManifest {
				mfd = f.Fd
			}
		}
		switch mode {
		case "removed":
			img.Delete(mfd)
			img.ClearMeta()
		case "truncated":
			d, _ := img.Data(mfd)
			img.SetData(mfd, d[:rng.Intn(len(d)+1)])
		case "garbled":
			d, _ := img.Data(mfd)
			for i := 0; i < 1+len(d)/10; i++ {
				d[rng.Intn(len(d))] ^= byte(1 + rng.Intn(255))
			}
			img.SetData(mfd, d)
		case "current-lost":
			img.ClearMeta()
		}
		// table damage in two of three variants
		ntDamaged := 0
		var tables []storage.FileDesc
		for _, f := range img.Files() {
			if f.Fd.Type == storage.TypeTable {
				tables = append(tables, f.Fd)
			}
		}
		// entries before damage
		newest := map[int]wl.Entry{}
		scanAll := func() (map[int]wl.Entry, int, error) {
			res := map[int]wl.Entry{}
			corr := 0
			for _, fd := range tables {
				ents, c, err := wl.ScanTable(img, fd, w.O, w.U)
				if err != nil {
					return nil, 0, err
				}
				corr += c
				for _, e := range ents {
					if old, ok := res[e.K]; !ok || e.Seq > old.Seq {
						res[e.K] = e
					}
				}
			}
			return res, corr, nil
		}
		newest, _, err = scanAll()
		if err != nil {
			fmt.Fprintln(os.Stderr, "scan:", err)
			os.Exit(2)
		}
		if v%3 != 0 && len(tables) > 0 {
			for i := 0; i < 1+rng.Intn(3); i++ {
				fd := tables[rng.Intn(len(tables))]
				d, _ := img.Data(fd)
				if len(d) <= 60 {
					continue
				}
				// damage inside the block area, never the 48-byte footer
				for j := 0; j < 1+rng.Intn(3); j++ {
					d[rng.Intn(len(d)-48)] ^= byte(1 + rng.Intn(255))
				}
				img.SetData(fd, d)
				ntDamaged++
			}
		}
		survive, corrBlocks, err := scanAll()
		if err != nil {
			fmt.Fprintln(os.Stderr, "scan after damage:", err)
			os.Exit(2)
		}
		// keys whose globally newest table entry is still readable (journals are untouched and settled DBs
		// keep their newest data in tables or in the live journal, which Recover replays)
		newestOK := []int{}
		for k := 0; k < w.U.N(); k++ {
			n, had := newest[k]
			s, has := survive[k]
			if !had || (has && s.Seq == n.Seq) {
				newestOK = append(newestOK, k)
			}
		}
		// Recover - under the option set of the run or under an explicit strictness that leaves StrictReader (and
		// StrictRecovery) off / turns StrictReader on: Recover masks StrictReader itself, the outcome must be the same
		o := *w.O
		switch rng.Intn(3) {
		case 1:
			o.Strict = opt.StrictJournalChecksum | opt.StrictBlockChecksum
		case 2:
			o.Strict = opt.StrictJournalChecksum | opt.StrictBlockChecksum | opt.StrictReader | opt.StrictCompaction
		}
		func() {
			defer func() {
				if x := recover(); x != nil {
					tr.Emit(vt.Ev{"ev": "recoverdb", "ok": 0, "err": fmt.Sprintf("panic: %v", x), "manifest": mode, "tables_damaged": ntDamaged,
						"store": [][2]int{}, "newest_ok": newestOK})
				}
			}()
			rdb, err := leveldb.Recover(img, &o)
			if os.Getenv("VERIF_DEBUG") != "" {
				fmt.Fprintf(os.Stderr, "recoverdb: after Recover (%s): %v err=%v\n", mode, img.Files(), err)
			}
			if err != nil {
				tr.Emit(vt.Ev{"ev": "recoverdb", "ok": 0, "err": err.Error(), "manifest": mode, "tables_damaged": ntDamaged,
					"store": [][2]int{}, "newest_ok": newestOK})
				return
			}
			st, err := wl.ReadAll(rdb, w.U, w.VG.In)
			if err != nil {
				tr.Emit(vt.Ev{"ev": "recoverdb", "ok": 0, "err": "read: " + err.Error(), "manifest": mode, "tables_damaged": ntDamaged,
					"store": [][2]int{}, "newest_ok": newestOK})
				rdb.Close()
				return
			}
			recovers++
			if ntDamaged > 0 {
				damagedRuns++
			}
			tr.Emit(vt.Ev{"ev": "recoverdb", "ok": 1, "err": "", "manifest": mode, "tables_damaged": ntDamaged, "blocks_unreadable": corrBlocks,
				"store": nn(st), "newest_ok": newestOK})
			// the result is an ordinary DB: use it, close it, open it normally
			followUp(tr, rdb, img, w, rng)
		}()
	}
	tr.Close()
	sum := map[string]interface{}{"seed": *seed, "row": row.Desc, "events": tr.N(), "batches": len(w.Batches), "recovers": recovers,
		"with_table_damage": damagedRuns, "tables": len(live), "settled": settled, "wall_s": time.Since(start).Seconds()}
	b, _ := json.Marshal(sum)
	fmt.Println(string(b))
}

func nn(st [][2]int) [][2]int {
	if st == nil {
		return [][2]int{}
	}
	return st
}

func errName(err error) string {
	switch {
	case err == nil:
		return "none"
	case err == leveldb.ErrNotFound:
		return "notfound"
	}
	return "other:" + err.Error()
}

func followUp(tr *vt.Tracer, db *leveldb.DB, img *vt.RecStor, w *wl.Workload, rng *rand.Rand) {
	n := w.U.N()
	steps, noCompact := 40, false
	if rng.Intn(2) == 0 {
		// a short visit: a few writes that stay in the write buffer and the journal the recovered DB opened, then Close
		steps, noCompact = 1+rng.Intn(4), true
	}
	for i := 0; i < steps; i++ {
		r := rng.Intn(10)
		if noCompact && r == 9 {
			r = 0
		}
		switch {
		case r < 5:
			ops, vals := w.GenOps(1+rng.Intn(3), false)
			lb := new(leveldb.Batch)
			for i, o := range ops {
				if o[1] == 0 {
					lb.Delete(w.U.Key(o[0]))
				} else {
					lb.Put(w.U.Key(o[0]), vals[i])
				}
			}
			err := db.Write(lb, nil)
			tr.Emit(vt.Ev{"ev": "write", "ops": ops, "err": errName(err)})
		case r < 9:
			k := rng.Intn(n)
			v, err := db.Get(w.U.Key(k), nil)
			id := 0
			if err == nil {
				id = w.VG.In.Lookup(v)
			}
			tr.Emit(vt.Ev{"ev": "get", "k": k, "err": errName(err), "v": id})
		default:
			err := db.CompactRange(util.Range{})
			tr.Emit(vt.Ev{"ev": "compact", "err": errName(err)})
		}
	}
	err := db.Close()
	tr.Emit(vt.Ev{"ev": "close", "err": errName(err)})
	db2, err := leveldb.Open(img, w.O)
	tr.Emit(vt.Ev{"ev": "reopen", "ro": 0, "err": errName(err)})
	if err != nil {
		return
	}
	for k := 0; k < n; k++ {
		v, err := db2.Get(w.U.Key(k), nil)
		id := 0
		if err == nil {
			id = w.VG.In.Lookup(v)
		}
		tr.Emit(vt.Ev{"ev": "get", "k": k, "err": errName(err), "v": id})
	}
	db2.Close()
	tr.Emit(vt.Ev{"ev": "close", "err": "none"})
}
