// seqdb drives one real DB from a single client with a seeded program and
// records every completed call with its reply as one NDJSON line (schema of
// spec/KVTrace.tla).  Modes select the operation mix of one property.
package main

import (
	"bytes"
	"encoding/json"
	"flag"
	"fmt"
	"math/rand"
	"os"
	"runtime"
	"sort"
	"strings"
	"sync"
	"sync/atomic"
	"time"

	"github.com/syndtr/goleveldb/leveldb"
	lerrors "github.com/syndtr/goleveldb/leveldb/errors"
	"github.com/syndtr/goleveldb/leveldb/filter"
	"github.com/syndtr/goleveldb/leveldb/iterator"
	"github.com/syndtr/goleveldb/leveldb/opt"
	"github.com/syndtr/goleveldb/leveldb/storage"
	"github.com/syndtr/goleveldb/leveldb/util"

	"verif/harness/internal/vt"
	"verif/harness/internal/wl"
)

type drv struct {
	mode   string
	rng    *rand.Rand
	tr     *vt.Tracer
	u      *vt.Universe
	vg     *vt.ValueGen
	stor   *vt.RecStor
	db     *leveldb.DB
	row    vt.OptRow
	ro     bool
	closed bool

	snaps  map[int]*leveldb.Snapshot
	its    map[int]iterator.Iterator
	itSeen map[int][2][]byte // private copies of the iterator's last key/value (poison mode)
	itRaw  map[int][2][]byte // the slices the iterator exposed
	tx     *leveldb.Transaction
	nextH  int
	poison bool
	calls  int
	stats  map[string]int
	filt   int // current filter choice (c16)

	comp                               map[string]uint32
	mutOps, allOps, roBase, roOpenBase int64
	stopAt                             int
	lastMut                            []string
	mutFt                              map[string]bool
	openedRO                           bool
	prog                               int64 // progress counter for the watchdog

	// fault injection (c08)
	plan            *faultPlan
	matchSeen       int
	injected        int
	healed          bool
	dirty           bool // a fault was injected since the last successful open
	opCount         map[string]int
	afterFault      int
	failedWrites    int
	curCall         string
	curBg           string // a table compaction below level 0 is running (fault positions inside it are of interest)
	hot             map[string][]string
	postHeal        bool
	sleptAfterClose bool
	lastKeys        []int
	summary         func() map[string]interface{}
	known           map[int64]bool
	kmu             sync.Mutex
	installs        int
	pinned          bool
	sharedOpts      *opt.Options
	fmu             sync.Mutex
}

// faultPlan: fail the idx-th .. (idx+count-1)-th operation of (kind, file type); count 0 = until healed.
type faultPlan struct {
	kind  vt.OpKind
	ft    storage.FileType
	idx   int
	count int
	torn  bool
}

func parseFault(s string) *faultPlan {
	if s == "" {
		return nil
	}
	f := strings.Split(s, ":")
	p := &faultPlan{}
	for k := vt.OpCreate; k <= vt.OpGetMeta; k++ {
		if k.String() == f[0] {
			p.kind = k
		}
	}
	switch f[1] {
	case "journal":
		p.ft = storage.TypeJournal
	case "manifest":
		p.ft = storage.TypeManifest
	case "table":
		p.ft = storage.TypeTable
	case "temp":
		p.ft = storage.TypeTemp
	}
	fmt.Sscan(f[2], &p.idx)
	fmt.Sscan(f[3], &p.count)
	if len(f) > 4 && f[4] == "torn" {
		p.torn = true
	}
	return p
}

func (d *drv) hookFaults() {
	d.opCount = map[string]int{}
	d.hot = map[string][]string{}
	d.stor.Fault = func(op *vt.Op) (error, int) {
		d.fmu.Lock()
		defer d.fmu.Unlock()
		ft := op.Fd.Type
		if op.Kind == vt.OpSetMeta {
			ft = storage.TypeManifest
		}
		d.opCount[op.Kind.String()+":"+vt.FtName(ft)]++
		if bg := d.curBg; bg != "" && ft == storage.TypeTable && (op.Kind.Mutating() || op.Kind == vt.OpRead || op.Kind == vt.OpClose) && len(d.hot[bg]) < 160 {
			d.hot[bg] = append(d.hot[bg], fmt.Sprintf("%s:%s:%d", op.Kind, vt.FtName(ft), d.opCount[op.Kind.String()+":"+vt.FtName(ft)]))
		}
		if cc := d.curCall; cc != "" && op.Kind.Mutating() || cc != "" && (op.Kind == vt.OpOpen || op.Kind == vt.OpRead || op.Kind == vt.OpClose) {
			if len(d.hot[cc]) < 60 {
				d.hot[cc] = append(d.hot[cc], fmt.Sprintf("%s:%s:%d", op.Kind, vt.FtName(ft), d.opCount[op.Kind.String()+":"+vt.FtName(ft)]))
			}
		}
		p := d.plan
		if p == nil || d.healed || op.Kind != p.kind || ft != p.ft {
			return nil, -1
		}
		d.matchSeen++
		if d.matchSeen >= p.idx && (p.count == 0 || d.matchSeen < p.idx+p.count) {
			d.injected++
			d.dirty = true
			torn := -1
			if p.torn && op.Kind == vt.OpWrite {
				torn = len(op.Data) / 2
			}
			return vt.ErrInjected, torn
		}
		return nil, -1
	}
}

func (d *drv) opCountCopy() map[string]int {
	d.fmu.Lock()
	defer d.fmu.Unlock()
	m := map[string]int{}
	for k, v := range d.opCount {
		m[k] = v
	}
	return m
}

func (d *drv) hotCopy() map[string][]string {
	d.fmu.Lock()
	defer d.fmu.Unlock()
	m := map[string][]string{}
	for k, v := range d.hot {
		m[k] = append([]string(nil), v...)
	}
	return m
}

func (d *drv) in(call string) func() {
	d.fmu.Lock()
	d.curCall = call
	d.fmu.Unlock()
	return func() {
		d.fmu.Lock()
		d.curCall = ""
		d.fmu.Unlock()
	}
}

func (d *drv) heal(why string) {
	d.fmu.Lock()
	was := d.healed
	d.healed = true
	inj := d.injected
	d.fmu.Unlock()
	if !was {
		d.tr.Emit(vt.Ev{"ev": "note", "what": why, "injected": inj})
	}
}

// ename classifies an error for the trace; while a fault may still be echoing
// (injected since the last successful open) unknown errors count as failures.
func (d *drv) ename(err error) string {
	e := errName(err)
	if strings.HasPrefix(e, "other:") && d.dirty {
		if os.Getenv("VERIF_DEBUG") != "" {
			fmt.Fprintf(os.Stderr, "seqdb: error echoing a fault: %v\n", err)
		}
		return "fail"
	}
	return e
}

// watchdog: a call that does not return within the limit is reported as a
// "hang" line (which no KV action explains) instead of stalling the check.
func (d *drv) watchdog(limit time.Duration, sum func() map[string]interface{}) {
	last, since := int64(-1), time.Now()
	for {
		time.Sleep(500 * time.Millisecond)
		p := atomic.LoadInt64(&d.prog)
		if p != last {
			last, since = p, time.Now()
			continue
		}
		if d.plan != nil && time.Since(since) > 1500*time.Millisecond {
			d.fmu.Lock()
			active := d.injected > 0 && !d.healed
			d.fmu.Unlock()
			if active {
				// blocking while the storage keeps failing is allowed; stop the failures and keep waiting
				d.heal("healed-by-watchdog")
				since = time.Now()
				continue
			}
		}
		if time.Since(since) > limit {
			buf := make([]byte, 1<<16)
			buf = buf[:runtime.Stack(buf, true)]
			where := ""
			var stacks []string
			for _, g := range strings.Split(string(buf), "\n\n") {
				lines := strings.Split(g, "\n")
				var fr []string
				for i, ln := range lines {
					if strings.Contains(ln, "goleveldb/leveldb.") && i+1 < len(lines) {
						fn := strings.TrimPrefix(strings.TrimSpace(ln), "github.com/syndtr/goleveldb/leveldb.")
						if j := strings.Index(fn, "("); j > 0 && strings.HasPrefix(fn, "(") {
							if k := strings.Index(fn[1:], "("); k > 0 {
								fn = fn[:k+1]
							}
						} else if j > 0 {
							fn = fn[:j]
						}
						loc := strings.TrimSpace(lines[i+1])
						if k := strings.LastIndex(loc, "/"); k >= 0 {
							loc = loc[k+1:]
						}
						if k := strings.Index(loc, " "); k >= 0 {
							loc = loc[:k]
						}
						fr = append(fr, fn+"@"+loc)
						if len(fr) == 3 {
							break
						}
					}
				}
				if len(fr) > 0 {
					if where == "" && strings.Contains(g, "main.(*drv)") {
						where = fr[0]
					}
					stacks = append(stacks, strings.Join(fr, " < "))
				}
			}
			d.tr.Emit(vt.Ev{"ev": "hang", "after_s": int(limit.Seconds()), "where": where, "stacks": stacks})
			d.tr.Close()
			m := sum()
			m["hung"] = true
			b, _ := json.Marshal(m)
			fmt.Println(string(b))
			os.Exit(0)
		}
	}
}

func (d *drv) grab() {
	var st leveldb.DBStats
	if d.db != nil && d.db.Stats(&st) == nil {
		d.comp["mem"] += st.MemComp
		d.comp["l0"] += st.Level0Comp
		d.comp["nl0"] += st.NonLevel0Comp
		d.comp["seek"] += st.SeekComp
	}
}

func errName(err error) string {
	switch {
	case err == nil:
		return "none"
	case err == leveldb.ErrNotFound:
		return "notfound"
	case err == leveldb.ErrClosed:
		return "closed"
	case err == leveldb.ErrReadOnly:
		return "readonly"
	case err == leveldb.ErrSnapshotReleased, err == leveldb.ErrIterReleased:
		return "released"
	case err == vt.ErrInjected:
		return "fail"
	case strings.Contains(err.Error(), "transaction already closed"):
		return "txdone"
	case lerrors.IsCorrupted(err):
		return "corrupt"
	}
	return "other:" + err.Error()
}

func b2i(b bool) int {
	if b {
		return 1
	}
	return 0
}

func (d *drv) noteWrite(ops []wop, err error) {
	if err != nil {
		d.stats["writefail"]++
		d.lastKeys = d.lastKeys[:0]
		seen := map[int]bool{}
		for _, o := range ops {
			if !seen[o.k] {
				seen[o.k] = true
				d.lastKeys = append(d.lastKeys, o.k)
			}
		}
	}
}

func (d *drv) emit(e vt.Ev) {
	atomic.AddInt64(&d.prog, 1)
	d.calls++
	d.stats[e["ev"].(string)]++
	d.tr.Emit(e)
}

// exactFilter: a filter policy with its own name; the filter block is the sorted list of 4-byte key hashes.
type exactFilter struct{}

func xhash(b []byte) uint32 {
	h := uint32(2166136261)
	for _, c := range b {
		h = (h ^ uint32(c)) * 16777619
	}
	return h
}
func (exactFilter) Name() string                         { return "verif.ExactHashFilter" }
func (exactFilter) NewGenerator() filter.FilterGenerator { return &exactGen{} }
func (exactFilter) Contains(f, key []byte) bool {
	h := xhash(key)
	for i := 0; i+4 <= len(f); i += 4 {
		if uint32(f[i])|uint32(f[i+1])<<8|uint32(f[i+2])<<16|uint32(f[i+3])<<24 == h {
			return true
		}
	}
	return false
}

type exactGen struct{ hs []uint32 }

func (g *exactGen) Add(key []byte) { g.hs = append(g.hs, xhash(key)) }
func (g *exactGen) Generate(b filter.Buffer) {
	out := b.Alloc(4 * len(g.hs))
	for i, h := range g.hs {
		out[4*i], out[4*i+1], out[4*i+2], out[4*i+3] = byte(h), byte(h>>8), byte(h>>16), byte(h>>24)
	}
	g.hs = g.hs[:0]
}

func (d *drv) open(ro bool) error {
	o := *d.row.O
	o.ReadOnly = ro
	if d.mode == "c16" {
		// change the filter policy at every (re)open; tables written under the
		// other policies stay readable through AltFilters.
		// (all bloom settings share one policy name; exactFilter is a policy of another name, whose blocks a bloom
		// reader must ignore and vice versa unless it is listed among the alternatives)
		pol := []filter.Filter{nil, filter.NewBloomFilter(1), filter.NewBloomFilter(10), filter.NewBloomFilter(20), exactFilter{}, exactFilter{}}
		d.filt = (d.filt + 1 + d.rng.Intn(len(pol)-1)) % len(pol)
		o.Filter = pol[d.filt]
		o.AltFilters = nil
		for i, p := range pol {
			if i != d.filt && p != nil && d.rng.Intn(4) != 0 {
				o.AltFilters = append(o.AltFilters, p)
			}
		}
		o.FilterBaseLg = []int{0, 3, 11}[d.rng.Intn(3)]
	}
	op := &o
	if d.mode == "c16" {
		// applications keep one Options value and pass it to every Open
		if d.sharedOpts != nil && d.rng.Intn(2) == 0 {
			op = d.sharedOpts
			op.ReadOnly = ro
		} else {
			d.sharedOpts = op
		}
	}
	db, err := leveldb.Open(d.stor, op)
	if err != nil {
		return err
	}
	d.db, d.ro, d.closed, d.openedRO = db, ro, false, ro
	return nil
}

// argument buffers: in poison mode the caller's buffers are checked and scribbled after each call.
type argbuf struct{ cur, orig []byte }

func (d *drv) arg(b []byte) *argbuf {
	if b == nil {
		return &argbuf{}
	}
	// the argument is the front part of a larger array of the caller (a key followed by its payload, say): what lies
	// behind it within the capacity is the caller's memory too
	buf := make([]byte, len(b)+16)
	copy(buf, b)
	for i := len(b); i < len(buf); i++ {
		buf[i] = 0x5C
	}
	return &argbuf{cur: buf[:len(b)], orig: b}
}

func (d *drv) after(what string, bufs ...*argbuf) {
	if !d.poison {
		return
	}
	same := true
	for _, a := range bufs {
		if !bytes.Equal(a.cur, a.orig) {
			same = false
		}
		for _, c := range a.cur[len(a.cur):cap(a.cur)] {
			if c != 0x5C {
				same = false
			}
		}
		for i := range a.cur {
			a.cur[i] = 0xAA
		}
	}
	d.emit(vt.Ev{"ev": "intact", "what": what, "same": b2i(same)})
}

func (d *drv) key(r int) []byte { return d.u.Key(r) }

// ---- writes ----

type wop struct {
	k, v int
	val  []byte
}

func (d *drv) genOps(n int, big bool) []wop {
	ops := make([]wop, 0, n)
	for i := 0; i < n; i++ {
		k := d.rng.Intn(d.u.N())
		if d.rng.Intn(4) == 0 {
			ops = append(ops, wop{k: k})
		} else {
			var val []byte
			var id int
			if big {
				val, id = d.vg.FreshLen(d.row.O.WriteBuffer/2 + d.rng.Intn(d.row.O.WriteBuffer))
			} else {
				val, id = d.vg.Fresh()
			}
			ops = append(ops, wop{k: k, v: id, val: val})
		}
	}
	return ops
}

func opsJSON(ops []wop) [][2]int {
	r := make([][2]int, len(ops))
	for i, o := range ops {
		r[i] = [2]int{o.k, o.v}
	}
	return r
}

func (d *drv) wo() *opt.WriteOptions {
	return &opt.WriteOptions{Sync: d.rng.Intn(3) == 0, NoWriteMerge: d.rng.Intn(5) == 0}
}

func (d *drv) doPutDel() {
	ops := d.genOps(1, false)
	o := ops[0]
	var err error
	kb := d.arg(d.key(o.k))
	if o.v == 0 {
		err = d.db.Delete(kb.cur, d.wo())
		d.noteWrite(ops, err)
		d.emit(vt.Ev{"ev": "write", "ops": opsJSON(ops), "err": d.ename(err), "api": "delete"})
		d.after("delete", kb)
	} else {
		vb := d.arg(o.val)
		err = d.db.Put(kb.cur, vb.cur, d.wo())
		d.noteWrite(ops, err)
		d.emit(vt.Ev{"ev": "write", "ops": opsJSON(ops), "err": d.ename(err), "api": "put"})
		d.after("put", kb, vb)
	}
}

func (d *drv) fillBatch(b *leveldb.Batch, ops []wop) {
	for _, o := range ops {
		kb := d.arg(d.key(o.k))
		if o.v == 0 {
			b.Delete(kb.cur)
			d.after("batch.delete", kb)
		} else {
			vb := d.arg(o.val)
			b.Put(kb.cur, vb.cur)
			d.after("batch.put", kb, vb)
		}
	}
}

func (d *drv) doBatch() {
	big := d.rng.Intn(12) == 0
	n := 1 + d.rng.Intn(6)
	if big {
		n = 2 + d.rng.Intn(3)
	}
	ops := d.genOps(n, big)
	b := new(leveldb.Batch)
	d.fillBatch(b, ops)
	dump := append([]byte(nil), b.Dump()...)
	done := func() {}
	if big {
		done = d.in("bigwrite")
	}
	err := d.db.Write(b, d.wo())
	done()
	d.noteWrite(ops, err)
	d.emit(vt.Ev{"ev": "write", "ops": opsJSON(ops), "err": d.ename(err), "api": "write", "big": b2i(big)})
	if d.poison {
		// Write must not modify the batch, and must not keep it.
		d.emit(vt.Ev{"ev": "intact", "what": "batch", "same": b2i(bytes.Equal(dump, b.Dump()))})
		b.Reset()
		b.Put([]byte("\xAA\xAA"), bytes.Repeat([]byte{0xAA}, len(dump)))
		b.Reset()
	}
	if big && err == nil && (d.mode == "c01" || d.mode == "c03" || d.mode == "c16") && d.rng.Intn(3) == 0 {
		// an oversize batch is made durable by its tables and one manifest edit, not by the journal:
		// reopening right after it (no later journal record to repair anything) reads exactly that edit back
		d.doReopen(false)
	}
}

// ---- reads ----

func (d *drv) valID(v []byte, err error) int {
	if err != nil {
		return 0
	}
	return d.vg.In.Lookup(v)
}

func (d *drv) doGet(k int) {
	kb := d.arg(d.key(k))
	v, err := d.db.Get(kb.cur, nil)
	d.emit(vt.Ev{"ev": "get", "k": k, "err": d.ename(err), "v": d.valID(v, err)})
	d.after("get", kb)
	if d.poison {
		for i := range v {
			v[i] = 0xAA
		}
	}
}

func (d *drv) doHas(k int) {
	kb := d.arg(d.key(k))
	r, err := d.db.Has(kb.cur, nil)
	d.emit(vt.Ev{"ev": "has", "k": k, "err": d.ename(err), "r": b2i(r)})
	d.after("has", kb)
}

func (d *drv) readAll() {
	for k := 0; k < d.u.N(); k++ {
		if d.rng.Intn(2) == 0 {
			d.doGet(k)
		} else {
			d.doHas(k)
		}
	}
}

func (d *drv) rangeOf(lo, hi int) util.Range {
	var r util.Range
	if lo > 0 || d.rng.Intn(2) == 0 {
		r.Start = d.key(lo)
	}
	if hi < d.u.N() {
		r.Limit = d.key(hi)
	}
	return r
}

func (d *drv) randRange() (int, int) {
	// lo in 0..n-1 (0: no lower bound or the smallest key), hi in 0..n (n: no upper bound); never inverted.
	n := d.u.N()
	switch d.rng.Intn(4) {
	case 0:
		return 0, n
	case 1:
		return d.rng.Intn(n), n
	case 2:
		return 0, d.rng.Intn(n + 1)
	}
	a, b := d.rng.Intn(n), d.rng.Intn(n+1)
	if a > b {
		a, b = b, a
	}
	return a, b
}

func (d *drv) doCompact() {
	lo, hi := d.randRange()
	err := d.db.CompactRange(d.rangeOf(lo, hi))
	d.emit(vt.Ev{"ev": "compact", "lo": lo, "hi": hi, "err": d.ename(err)})
}

func (d *drv) releaseAll() {
	for h, it := range d.its {
		it.Release()
		d.emit(vt.Ev{"ev": "iterrel", "h": h})
		delete(d.its, h)
	}
}

func (d *drv) doClose() {
	d.grab()
	err := d.db.Close()
	d.emit(vt.Ev{"ev": "close", "err": d.ename(err)})
	d.closed = true
	d.tx = nil
}

func (d *drv) doReopen(ro bool) {
	// iterators must be released before Close (documented requirement)
	d.releaseAll()
	if !d.closed {
		d.doClose()
	}
	for h := range d.snaps {
		delete(d.snaps, h)
	}
	err := d.open(ro)
	d.emit(vt.Ev{"ev": "reopen", "ro": b2i(ro), "err": d.ename(err)})
	if err != nil {
		// a reopen that fails is a finding of its own: the line is in the trace; stop here
		d.finish()
	}
	d.dirty = false
}

// finish ends the run early, leaving the trace as evidence.
func (d *drv) finish() {
	d.tr.Close()
	b, _ := json.Marshal(d.summary())
	fmt.Println(string(b))
	os.Exit(0)
}

// stopRun ends the run after behaviour of the real code that the trace already records (the validator judges it).
func (d *drv) stopRun(reason string) {
	d.tr.Close()
	m := d.summary()
	m["stopped"] = reason
	b, _ := json.Marshal(m)
	fmt.Println(string(b))
	os.Exit(0)
}

func (d *drv) fatal(f string, a ...interface{}) {
	d.tr.Close()
	fmt.Fprintf(os.Stderr, "seqdb: "+f+"\n", a...)
	os.Exit(2)
}

// ---- snapshots ----

func (d *drv) doSnap() {
	s, err := d.db.GetSnapshot()
	d.nextH++
	h := d.nextH
	d.emit(vt.Ev{"ev": "snap", "h": h, "err": d.ename(err)})
	if err == nil {
		d.snaps[h] = s
	}
}

func (d *drv) anySnap() (int, *leveldb.Snapshot) {
	for h, s := range d.snaps {
		return h, s
	}
	return 0, nil
}

func (d *drv) doSnapRead(h int, s *leveldb.Snapshot, k int) {
	kb := d.arg(d.key(k))
	if d.rng.Intn(3) == 0 {
		r, err := s.Has(kb.cur, nil)
		d.emit(vt.Ev{"ev": "snaphas", "h": h, "k": k, "err": d.ename(err), "r": b2i(r)})
	} else {
		v, err := s.Get(kb.cur, nil)
		d.emit(vt.Ev{"ev": "snapget", "h": h, "k": k, "err": d.ename(err), "v": d.valID(v, err)})
	}
	d.after("snapget", kb)
}

func (d *drv) doSnapRel(h int, s *leveldb.Snapshot) {
	// re-read everything just before release
	for k := 0; k < d.u.N(); k++ {
		d.doSnapRead(h, s, k)
	}
	s.Release()
	d.emit(vt.Ev{"ev": "snaprel", "h": h})
	delete(d.snaps, h)
	// a released snapshot reports its own error
	d.doSnapRead(h, s, d.rng.Intn(d.u.N()))
}

// ---- iterators ----

func (d *drv) doIterNew(src string) {
	lo, hi := d.randRange()
	rg := d.rangeOf(lo, hi)
	var rp *util.Range
	if lo > 0 || hi < d.u.N() || d.rng.Intn(2) == 0 {
		rp = &rg
	}
	var it iterator.Iterator
	sh := 0
	switch src {
	case "db":
		it = d.db.NewIterator(rp, nil)
	case "snap":
		var s *leveldb.Snapshot
		sh, s = d.anySnap()
		if s == nil {
			return
		}
		it = s.NewIterator(rp, nil)
	case "tx":
		if d.tx == nil {
			return
		}
		it = d.tx.NewIterator(rp, nil)
	}
	d.nextH++
	h := d.nextH
	e := "none"
	if it.Error() != nil {
		e = "dead"
	}
	d.emit(vt.Ev{"ev": "iternew", "h": h, "src": src, "sh": sh, "lo": lo, "hi": hi, "err": e})
	d.its[h] = it
}

func (d *drv) checkIterBuf(h int) {
	if !d.poison {
		return
	}
	raw, ok := d.itRaw[h]
	if !ok {
		return
	}
	seen := d.itSeen[h]
	d.emit(vt.Ev{"ev": "intact", "what": "iter.kv", "same": b2i(bytes.Equal(raw[0], seen[0]) && bytes.Equal(raw[1], seen[1]))})
}

func (d *drv) doIterMove(h int, it iterator.Iterator) {
	d.checkIterBuf(h)
	mvs := []string{"first", "last", "seek", "next", "next", "next", "prev", "prev", "prev"}
	mv := mvs[d.rng.Intn(len(mvs))]
	arg := 0
	var ok bool
	switch mv {
	case "first":
		ok = it.First()
	case "last":
		ok = it.Last()
	case "next":
		ok = it.Next()
	case "prev":
		ok = it.Prev()
	case "seek":
		arg = d.rng.Intn(d.u.N())
		kb := d.arg(d.key(arg))
		ok = it.Seek(kb.cur)
		d.after("seek", kb)
	}
	k, v := -1, 0
	if ok {
		k = d.u.Rank(it.Key())
		if k < 0 {
			k = -2 // a key that was never in the universe
		}
		v = d.vg.In.Lookup(it.Value())
		if d.poison {
			d.itRaw[h] = [2][]byte{it.Key(), it.Value()}
			d.itSeen[h] = [2][]byte{append([]byte(nil), it.Key()...), append([]byte(nil), it.Value()...)}
			// the usual "next key" idiom: appending to an exposed slice writes into its spare capacity, which
			// must not be the memory of anything else the iterator exposes
			_ = append(it.Key(), 0xEE, 0xEE, 0xEE, 0xEE)
			_ = append(it.Value(), 0xEE, 0xEE, 0xEE, 0xEE)
		}
	} else {
		delete(d.itRaw, h)
		if it.Valid() {
			k = -3
		}
	}
	if err := it.Error(); err != nil && err != leveldb.ErrIterReleased {
		d.emit(vt.Ev{"ev": "note", "what": "iter-error", "h": h, "err": d.ename(err)})
		if d.plan != nil && d.ename(err) == "fail" {
			// an iterator that hit an injected storage fault has stopped for good (its error is sticky): not a move of the
			// cursor the contract describes; give it back
			it.Release()
			d.emit(vt.Ev{"ev": "iterrel", "h": h})
			delete(d.its, h)
			delete(d.itRaw, h)
			return
		}
	}
	d.emit(vt.Ev{"ev": "iter", "h": h, "mv": mv, "arg": arg, "ok": b2i(ok), "k": k, "v": v})
}

func (d *drv) doIterRel(h int, it iterator.Iterator) {
	d.checkIterBuf(h)
	it.Release()
	d.emit(vt.Ev{"ev": "iterrel", "h": h})
	delete(d.its, h)
	delete(d.itRaw, h)
	// released iterator: moves fail
	ok := it.Next()
	d.emit(vt.Ev{"ev": "iter", "h": h, "mv": "next", "arg": 0, "ok": b2i(ok), "k": -1, "v": 0})
}

func (d *drv) anyIter() (int, iterator.Iterator) {
	for h, it := range d.its {
		return h, it
	}
	return 0, nil
}

func (d *drv) walk(h int, it iterator.Iterator, n int) {
	for i := 0; i < n; i++ {
		d.doIterMove(h, it)
	}
}

// ---- transactions ----

func (d *drv) doTxOpen() {
	done := d.in("txopen")
	tx, err := d.db.OpenTransaction()
	done()
	d.emit(vt.Ev{"ev": "txopen", "err": d.ename(err)})
	if err == nil {
		d.tx = tx
	}
}

func (d *drv) doTxWrite() {
	n := 1 + d.rng.Intn(5)
	big := d.rng.Intn(6) == 0
	ops := d.genOps(n, big)
	var err error
	defer d.in("txwrite")()
	switch d.rng.Intn(3) {
	case 0:
		b := new(leveldb.Batch)
		d.fillBatch(b, ops)
		err = d.tx.Write(b, nil)
	default:
		for i, o := range ops {
			kb := d.arg(d.key(o.k))
			if o.v == 0 {
				err = d.tx.Delete(kb.cur, nil)
				d.after("tx.delete", kb)
			} else {
				vb := d.arg(o.val)
				err = d.tx.Put(kb.cur, vb.cur, nil)
				d.after("tx.put", kb, vb)
			}
			if err != nil {
				ops = ops[:i]
				break
			}
		}
	}
	d.emit(vt.Ev{"ev": "txwrite", "ops": opsJSON(ops), "err": d.ename(err)})
	if err != nil {
		// a failed transaction write leaves the transaction in an unknown state: discard it
		d.doTxEnd(false)
	}
}

func (d *drv) debugDump() {
	id, lv := leveldb.VerifVersion(d.db)
	fmt.Fprintf(os.Stderr, "DEBUG version %d seq %d frozen %v\n", id, leveldb.VerifSeq(d.db), leveldb.VerifHasFrozenMem(d.db))
	for l, ts := range lv {
		for _, t := range ts {
			fmt.Fprintf(os.Stderr, "  L%d #%d %q..%q\n", l, t.Num, t.Imin, t.Imax)
		}
	}
	if d.tx != nil {
		it := d.tx.NewIterator(nil, nil)
		for it.Next() {
			fmt.Fprintf(os.Stderr, "  tx-iter k=%d v=%d\n", d.u.Rank(it.Key()), d.vg.In.Lookup(it.Value()))
		}
		it.Release()
	}
}

func (d *drv) doTxRead(k int) {
	if dbg := os.Getenv("VERIF_DEBUG_AT"); dbg != "" && fmt.Sprint(d.tr.N()+1) == dbg {
		d.debugDump()
	}
	kb := d.arg(d.key(k))
	if d.rng.Intn(3) == 0 {
		r, err := d.tx.Has(kb.cur, nil)
		d.emit(vt.Ev{"ev": "txhas", "k": k, "err": d.ename(err), "r": b2i(r)})
	} else {
		v, err := d.tx.Get(kb.cur, nil)
		d.emit(vt.Ev{"ev": "txget", "k": k, "err": d.ename(err), "v": d.valID(v, err)})
		if d.poison {
			for i := range v {
				v[i] = 0xAA
			}
		}
	}
	d.after("txget", kb)
}

func (d *drv) doTxEnd(commit bool) {
	tx := d.tx
	if commit {
		done := d.in("txcommit")
		err := tx.Commit()
		done()
		d.emit(vt.Ev{"ev": "txcommit", "err": d.ename(err)})
		// "Return error, lets user decide either to retry or discard transaction": do both
		for try := 0; err != nil && d.ename(err) == "fail" && try < 2 && d.rng.Intn(2) == 0; try++ {
			done := d.in("txcommit")
			err = tx.Commit()
			done()
			d.emit(vt.Ev{"ev": "txcommit", "err": d.ename(err)})
		}
		if err != nil {
			tx.Discard()
			d.emit(vt.Ev{"ev": "txdiscard"})
		}
	} else {
		tx.Discard()
		d.emit(vt.Ev{"ev": "txdiscard"})
	}
	d.tx = nil
	// a finished transaction reports its own error
	if d.rng.Intn(2) == 0 {
		kb := d.key(d.rng.Intn(d.u.N()))
		v, err := tx.Get(kb, nil)
		d.emit(vt.Ev{"ev": "txget", "k": d.u.Rank(kb), "err": d.ename(err), "v": d.valID(v, err)})
	}
}

// ---- lifecycle (C18) ----

func (d *drv) hookStor() {
	d.stor.OnOp = func(op *vt.Op) {
		atomic.AddInt64(&d.allOps, 1)
		if op.Kind.Mutating() || op.Kind == vt.OpClose {
			atomic.AddInt64(&d.mutOps, 1)
			if d.stopAt != 0 {
				if len(d.lastMut) < 8 {
					d.lastMut = append(d.lastMut, fmt.Sprintf("%s %s-%d", op.Kind, vt.FtName(op.Fd.Type), op.Fd.Num))
				}
				d.mutFt[vt.FtName(op.Fd.Type)] = true
			}
		}
	}
}

// settle waits until the storage has been idle for a while (background work drained).
func (d *drv) settle() {
	last, since := atomic.LoadInt64(&d.allOps), time.Now()
	deadline := time.Now().Add(20 * time.Second)
	for time.Since(since) < 120*time.Millisecond || (d.db != nil && !d.closed && leveldb.VerifHasFrozenMem(d.db) && time.Now().Before(deadline)) {
		// a write buffer still waiting for (or in the middle of) its flush is in-flight work, however long the flush
		// goroutine is kept off the CPU by other processes
		time.Sleep(5 * time.Millisecond)
		if n := atomic.LoadInt64(&d.allOps); n != last {
			last, since = n, time.Now()
		}
	}
}

func (d *drv) quiet(what string, base int64) {
	var c int64
	if what == "mut" {
		c = atomic.LoadInt64(&d.mutOps) - base
	} else {
		c = atomic.LoadInt64(&d.allOps) - base
	}
	e := vt.Ev{"ev": "quiet", "what": what, "count": c, "opened_ro": b2i(d.openedRO)}
	if c != 0 {
		e["ops"] = append([]string{}, d.lastMut...) // never null: the JSON reader of the validator rejects it
		var fts []string
		for ft := range d.mutFt {
			fts = append(fts, ft)
		}
		sort.Strings(fts)
		e["filetypes"] = strings.Join(fts, "+")
	}
	d.emit(e)
}

func (d *drv) doOpen2() {
	o := *d.row.O
	o.ReadOnly = d.rng.Intn(2) == 0
	db2, err := leveldb.Open(d.stor, &o)
	e := d.ename(err)
	if err == storage.ErrLocked {
		e = "locked"
	}
	d.emit(vt.Ev{"ev": "open2", "err": e})
	if err == nil {
		db2.Close()
	}
}

func (d *drv) doMisc() {
	var err error
	api := ""
	switch d.rng.Intn(3) {
	case 0:
		api = "GetProperty"
		_, err = d.db.GetProperty("leveldb.stats")
	case 1:
		api = "Stats"
		err = d.db.Stats(&leveldb.DBStats{})
	default:
		api = "SizeOf"
		_, err = d.db.SizeOf([]util.Range{d.rangeOf(0, d.u.N())})
	}
	d.emit(vt.Ev{"ev": "misc", "api": api, "err": d.ename(err)})
}

func (d *drv) doSetRO() {
	err := d.db.SetReadOnly()
	d.emit(vt.Ev{"ev": "setro", "err": d.ename(err)})
	if err == nil {
		d.ro = true
	}
}

// everything a client may call, on whatever state the DB is in
func (d *drv) pokeAll() {
	n := d.u.N()
	d.doGet(d.rng.Intn(n))
	d.doHas(d.rng.Intn(n))
	d.doPutDel()
	d.doBatch()
	d.doCompact()
	d.doMisc()
	d.doMisc()
	d.doSnap()
	d.doTxOpen()
	if d.tx != nil {
		d.doTxEnd(false)
	}
	d.doIterNew("db")
	if h, it := d.anyIter(); it != nil {
		d.walk(h, it, 3)
		d.doIterRel(h, it)
	}
	if h, s := d.anySnap(); s != nil {
		d.doSnapRead(h, s, d.rng.Intn(n))
	}
}

func (d *drv) stepC18() {
	r := d.rng.Intn(1000)
	n := d.u.N()
	switch {
	case d.closed:
		// after Close: every method says closed, nothing touches storage, second Close harmless
		base := atomic.LoadInt64(&d.allOps)
		d.stopAt = 1
		d.lastMut = nil
		d.mutFt = map[string]bool{}
		d.pokeAll()
		if d.rng.Intn(2) == 0 {
			d.doSetRO()
		}
		d.doClose()
		d.quiet("any", base)
		d.stopAt = 0
		for h := range d.snaps {
			delete(d.snaps, h)
		}
		d.doReopen(d.rng.Intn(3) == 0)
		if d.ro {
			d.roBase = atomic.LoadInt64(&d.mutOps)
			d.roOpenBase = d.roBase
		}
	case d.ro:
		switch {
		case r < 500:
			d.doGet(d.rng.Intn(n))
		case r < 600:
			d.readAll()
		case r < 800:
			d.pokeAll() // writes, transactions, compaction are refused; reads served
		case r < 850:
			d.doOpen2()
		default:
			// drained => nothing mutates any more
			d.settle()
			base := atomic.LoadInt64(&d.mutOps)
			d.stopAt = 1
			d.lastMut = nil
			d.mutFt = map[string]bool{}
			d.readAll()
			d.pokeAll()
			d.settle()
			d.quiet("mut", base)
			d.stopAt = 0
			if d.rng.Intn(2) == 0 {
				d.releaseAll()
				for h, s := range d.snaps {
					s.Release()
					d.emit(vt.Ev{"ev": "snaprel", "h": h})
					delete(d.snaps, h)
				}
				if d.openedRO {
					// a DB opened read-only never mutated anything, Close included
					d.doClose()
					d.stopAt = 1
					d.quiet("mut", d.roOpenBase)
					d.stopAt = 0
				} else {
					d.doClose()
				}
			}
		}
	default:
		switch {
		case r < 500:
			d.writeSome()
		case r < 700:
			d.doGet(d.rng.Intn(n))
		case r < 730:
			d.doCompact()
		case r < 760:
			d.doOpen2()
		case r < 800:
			d.doMisc()
		case r < 850:
			if len(d.snaps) < 3 {
				d.doSnap()
			}
		case r < 900:
			d.doSetRO()
		case r < 930:
			// leave work pending: data only in the journal, open transaction, live snapshot
			d.writeSome()
			if d.rng.Intn(2) == 0 {
				d.doTxOpen()
				if d.tx != nil {
					d.doTxWrite()
				}
			}
			d.releaseAll()
			if d.rng.Intn(2) == 0 {
				// iterators that outlive Close are only released afterwards (TestDB_GracefulClose does the same): releasing
				// them must be harmless whenever it happens, also once the DB's background goroutines have wound down
				src := "db"
				if d.tx != nil {
					src = "tx"
				}
				d.doIterNew(src)
				for h, it := range d.its {
					d.walk(h, it, 2+d.rng.Intn(4))
				}
				d.doClose()
				if !d.sleptAfterClose {
					d.sleptAfterClose = true
					time.Sleep(1200 * time.Millisecond)
				}
				for h, it := range d.its {
					d.doIterRel(h, it)
				}
				return
			}
			d.doClose()
		default:
			d.releaseAll()
			d.doClose()
		}
	}
}

// ---- storage faults (C08) ----

func (d *drv) stepC08() {
	n := d.u.N()
	d.fmu.Lock()
	inj, healed := d.injected, d.healed
	d.fmu.Unlock()
	if inj > 0 && !d.postHeal {
		d.afterFault++
		if healed || d.afterFault > 4+d.rng.Intn(6) || d.failedWrites >= 6 {
			d.postHeal = true
			// the failures stop; the DB must go on serving (or fail fast), and a reopen must lose nothing acknowledged
			d.heal("healed")
			for i := 0; i < 3+d.rng.Intn(4); i++ {
				d.c08op()
			}
			d.readAll()
			// damage done to shared state during the failures (caches, pools) shows in later reads of this same
			// instance, before the reopen below replaces it
			for i := 0; i < 4+d.rng.Intn(6); i++ {
				d.c08op()
			}
			d.readAll()
			if d.tx != nil {
				d.doTxEnd(false)
			}
			d.doReopen(false)
			d.readAll()
			return
		}
	}
	_ = n
	if inj > 0 && !d.postHeal && !d.ro && d.tx == nil && d.rng.Intn(12) == 0 {
		// the application reacts to the errors by switching to read-only while a background error may still be pending:
		// writes must then be refused at once (ErrReadOnly), nothing may block, Close must return
		d.doSetRO()
		d.writeSome()
		return
	}
	d.c08op()
}

func (d *drv) c08op() {
	r := d.rng.Intn(1000)
	n := d.u.N()
	if d.tx != nil {
		switch {
		case r < 450:
			d.doTxWrite()
		case r < 650:
			d.doTxRead(d.rng.Intn(n))
		case r < 840:
			d.doTxEnd(true)
		case r < 960:
			d.doTxEnd(false)
		default:
			d.doReopenF() // Close with the transaction still open: it is discarded, Close returns
		}
		return
	}
	switch {
	case r < 480:
		d.writeSome()
	case r < 800:
		if d.rng.Intn(2) == 0 {
			d.doGet(d.rng.Intn(n))
		} else {
			d.doHas(d.rng.Intn(n))
		}
	case r < 830:
		d.doCompact()
	case r < 850:
		d.readAll()
	case r < 870:
		d.doReopenF()
	default:
		d.doTxOpen()
	}
}

// doReopenF: close and open again while faults may still be active; retried after healing.
func (d *drv) doReopenF() {
	d.releaseAll()
	if !d.closed {
		d.doClose()
	}
	for h := range d.snaps {
		delete(d.snaps, h)
	}
	for try := 0; try < 3; try++ {
		err := d.open(false)
		d.emit(vt.Ev{"ev": "reopen", "ro": 0, "err": d.ename(err)})
		if err == nil {
			if d.healed || d.plan == nil {
				d.dirty = false
			}
			return
		}
		if d.ename(err) != "fail" {
			// not an echo of the injected error (e.g. a corruption report on intact files): recorded above, the validator decides
			d.stopRun(fmt.Sprintf("reopen failed: %v", err))
		}
		d.stor.ForceUnlock()
		d.heal("healed-for-reopen")
	}
	d.emit(vt.Ev{"ev": "reopen", "ro": 0, "err": "stuck"})
	d.stopRun("reopen keeps failing after the faults stopped")
}

// ---- engine hooks: version installations, references, removals (C06, C07) ----

func ik3(u *vt.Universe, ik []byte) []int {
	uk, seq, kind, err := leveldb.VerifParseInternalKey(ik)
	if err != nil {
		return []int{-9, 0, 0}
	}
	return []int{u.Rank(uk), int(seq), kind}
}

func (d *drv) tableDesc(t leveldb.VerifTable) vt.Ev {
	fd := leveldb.VerifTableFd(t.Num)
	e := vt.Ev{"num": t.Num, "level": t.Level, "size": t.Size, "imin": ik3(d.u, t.Imin), "imax": ik3(d.u, t.Imax)}
	data, ok := d.stor.Data(fd)
	e["exists"] = b2i(ok)
	e["fsize"] = len(data)
	ents, corr, err := wl.ScanTable(d.stor, fd, d.row.O, d.u)
	if err != nil {
		corr = -1
	}
	e["corrupt"] = corr
	l := make([][3]int, 0, len(ents))
	for _, x := range ents {
		l = append(l, [3]int{x.K, int(x.Seq), x.Kind})
	}
	e["ents"] = l
	return e
}

func (d *drv) hookEngine() {
	sid := func() uintptr {
		if d.db == nil {
			return 0
		}
		return leveldb.VerifSessionID(d.db)
	}
	_ = sid
	d.known = map[int64]bool{}
	d.stor.OnOp = func(op *vt.Op) {
		if op.Kind == vt.OpRemove && op.Fd.Type == storage.TypeTable && !op.Err {
			d.kmu.Lock()
			delete(d.known, op.Fd.Num) // the number may be reused by a new table
			d.kmu.Unlock()
			d.tr.Emit(vt.Ev{"ev": "stremove", "num": op.Fd.Num})
		}
	}
	leveldb.VerifSetHooks(&leveldb.VerifHooks{
		Install: func(in *leveldb.VerifInstall) {
			if in.Closing {
				d.tr.Emit(vt.Ev{"ev": "session-end"})
				return
			}
			var lv [][]int64
			var tabs []vt.Ev
			for _, l := range in.Levels {
				nums := []int64{}
				for _, t := range l {
					nums = append(nums, t.Num)
					d.kmu.Lock()
					kn := d.known[t.Num]
					d.known[t.Num] = true
					d.kmu.Unlock()
					if !kn {
						tabs = append(tabs, d.tableDesc(t))
					}
				}
				lv = append(lv, nums)
			}
			if tabs == nil {
				tabs = []vt.Ev{}
			}
			if lv == nil {
				lv = [][]int64{}
			}
			d.installs++
			add, del := [][2]int64{}, [][2]int64{}
			for _, t := range in.Added {
				add = append(add, [2]int64{int64(t.Level), t.Num})
			}
			for _, t := range in.Deleted {
				del = append(del, [2]int64{int64(t.Level), t.Num})
			}
			d.tr.Emit(vt.Ev{"ev": "install", "old": in.OldID, "new": in.NewID, "levels": lv, "tabs": tabs, "nadd": len(in.Added), "ndel": len(in.Deleted),
				"add": add, "del": del, "hasrec": b2i(in.HasRec)})
		},
		Trace: func(_ uintptr, ev string, a []int64) {
			switch ev {
			case "s:acq", "s:rel", "tx:publish-begin":
				d.tr.Emit(vt.Ev{"ev": "eng", "h": ev, "seq": a[0]})
			case "w:publish-begin":
				// logged before the sequence number is advanced: an upper bound for anything read from it later
				d.tr.Emit(vt.Ev{"ev": "eng", "h": ev, "seq": a[0] + a[1]})
			}
		},
		Compaction: func(c *leveldb.VerifCompactionInfo) {
			in0, in1 := c.Inputs[0], c.Inputs[1]
			if in0 == nil {
				in0 = []int64{}
			}
			if in1 == nil {
				in1 = []int64{}
			}
			d.tr.Emit(vt.Ev{"ev": "compaction", "vid": c.VersionID, "level": c.SourceLevel, "in0": in0, "in1": in1, "trivial": b2i(c.Trivial), "typ": c.Typ, "minseq": c.MinSeq})
		},
		Ref: func(_ uintptr, kind string, vid int64, files [][]int64, added, deleted []int64) {
			if kind == "ref" || kind == "rel" {
				d.tr.Emit(vt.Ev{"ev": "vref", "kind": kind, "vid": vid})
			}
		},
	})
}

// settlePoint: release every reader, let background work drain, then compare the
// storage listing with what the DB still needs (C07, second sentence).
func (d *drv) settlePoint() {
	d.releaseAll()
	for h, s := range d.snaps {
		s.Release()
		d.emit(vt.Ev{"ev": "snaprel", "h": h})
		delete(d.snaps, h)
	}
	if d.tx != nil {
		d.doTxEnd(false)
	}
	// while a compaction is between two attempts (a transient error is pending) the wait reports that error at once:
	// the background work has not drained; keep waiting for the retry (back-off up to 8 s) to go through
	var werr error
	for t := 0; t < 600; t++ {
		if werr = leveldb.VerifWaitIdle(d.db); werr == nil {
			break
		}
		time.Sleep(50 * time.Millisecond)
	}
	if werr != nil {
		d.emit(vt.Ev{"ev": "note", "what": "no settle point: background work keeps failing", "err": werr.Error()})
		return
	}
	leveldb.VerifFileRefs(d.db) // round trip through the reference loop: earlier messages are processed
	_, lv := leveldb.VerifVersion(d.db)
	leveldb.VerifFileRefs(d.db)
	live := []int64{}
	for _, l := range lv {
		for _, t := range l {
			live = append(live, t.Num)
		}
	}
	sort.Slice(live, func(i, j int) bool { return live[i] < live[j] })
	cur, frozen := leveldb.VerifJournalNums(d.db)
	tabs, jr, mf := []int64{}, []int64{}, []int64{}
	var bytes int
	for _, f := range d.stor.Files() {
		switch f.Fd.Type {
		case storage.TypeTable:
			tabs = append(tabs, f.Fd.Num)
			bytes += f.Size
		case storage.TypeJournal:
			jr = append(jr, f.Fd.Num)
		case storage.TypeManifest:
			mf = append(mf, f.Fd.Num)
		}
	}
	meta, _ := d.stor.Meta()
	d.emit(vt.Ev{"ev": "settled", "tables": tabs, "live": live, "journals": jr, "jcur": cur, "jfrozen": frozen,
		"manifests": mf, "mcur": meta.Num, "table_bytes": bytes})
}

// reclaim: delete everything, compact everything: the space must come back.
func (d *drv) reclaim() {
	d.settlePoint() // readers pin old data: release them first
	b := new(leveldb.Batch)
	ops := []wop{}
	for k := 0; k < d.u.N(); k++ {
		b.Delete(d.key(k))
		ops = append(ops, wop{k: k})
	}
	err := d.db.Write(b, nil)
	d.emit(vt.Ev{"ev": "write", "ops": opsJSON(ops), "err": d.ename(err), "api": "write", "big": 0})
	werr := err
	err = d.db.CompactRange(util.Range{})
	d.emit(vt.Ev{"ev": "compact", "lo": 0, "hi": d.u.N(), "err": d.ename(err)})
	if werr != nil || err != nil {
		return // the delete-everything write or the compaction was refused (a fault is still echoing): nothing to measure
	}
	d.settlePoint()
	bytes := 0
	for _, f := range d.stor.Files() {
		if f.Fd.Type == storage.TypeTable {
			bytes += f.Size
		}
	}
	d.emit(vt.Ev{"ev": "reclaimed", "bytes": bytes, "bound": 4096})
}

func (d *drv) stepLSM() {
	if d.plan != nil && !d.postHeal {
		// C07 under storage faults: once the failures have stopped and the background work has drained,
		// the storage must hold exactly the live files (a failed table build leaves nothing behind)
		d.fmu.Lock()
		inj := d.injected
		d.fmu.Unlock()
		if inj > 0 {
			d.afterFault++
			if d.afterFault <= 2 {
				// calls that take a version and may fail while the storage fails must give it back (a version that stays
				// referenced blocks the reference loop: later obsolete tables are never removed)
				_, err := d.db.SizeOf([]util.Range{d.rangeOf(0, d.u.N()), d.rangeOf(d.rng.Intn(d.u.N()), d.u.N())})
				d.emit(vt.Ev{"ev": "misc", "api": "SizeOf", "err": d.ename(err)})
			}
			if d.afterFault > 3+d.rng.Intn(5) {
				d.postHeal = true
				d.heal("healed")
				d.settlePoint()
				return
			}
		}
	}
	r := d.rng.Intn(1000)
	n := d.u.N()
	switch {
	case r < 520:
		d.writeSome()
	case r < 560:
		d.doCompact()
	case r < 620:
		if len(d.snaps) < 4 {
			d.doSnap()
		} else if h, s := d.anySnap(); s != nil {
			d.doSnapRel(h, s)
		}
	case r < 680:
		if len(d.its) < 4 {
			srcs := []string{"db", "snap"}
			d.doIterNew(srcs[d.rng.Intn(len(srcs))])
		}
	case r < 700:
		if h, it := d.anyIter(); it != nil && len(d.its) > 1 {
			d.doIterRel(h, it)
		}
	case r < 820:
		// iterators held across many version changes keep returning their frozen view
		if h, it := d.anyIter(); it != nil {
			d.walk(h, it, 2+d.rng.Intn(6))
		} else {
			d.doGet(d.rng.Intn(n))
		}
	case r < 900:
		d.doGet(d.rng.Intn(n))
	case r < 925:
		d.doTxOpen()
		if d.tx != nil {
			for i := 0; i < 1+d.rng.Intn(3); i++ {
				if d.tx != nil {
					d.doTxWrite()
				}
			}
			if d.tx != nil {
				d.doTxEnd(d.rng.Intn(3) != 0)
			}
		}
	case r < 960:
		d.settlePoint()
	case r < 975:
		d.settlePoint()
		d.doReopen(false)
		d.settlePoint()
	case r < 985:
		d.reclaim()
	case r < 992:
		d.longPin()
	default:
		d.readAll()
	}
}

// longPin: a reader stays open across more version changes than the reference loop
// caches (maxCachedNumber = 256), i.e. through its conversion to full file references,
// while compactions delete the tables it pinned; it must still read its frozen view.
func (d *drv) longPin() {
	if d.pinned {
		return
	}
	d.pinned = true
	d.doCompact()
	d.doIterNew("db")
	var hh int
	for h := range d.its {
		if h > hh {
			hh = h
		}
	}
	it := d.its[hh]
	// the first version changes after the pin are table compactions that delete tables the reader has not opened yet
	for level := 1; level <= 3; level++ {
		leveldb.VerifCompactLevel(d.db, level, util.Range{})
	}
	for i := 0; i < 290; i++ {
		d.doPutDel()
		if err := leveldb.VerifRotateMem(d.db, true); err != nil {
			break
		}
		if i%40 == 39 {
			d.doCompact()
		}
	}
	d.emit(vt.Ev{"ev": "note", "what": "long-pin", "installs": d.installs})
	if _, ok := d.its[hh]; ok {
		d.walk(hh, it, d.u.N()+4)
		d.doIterRel(hh, it)
	}
	d.settlePoint()
}

// ---- the programs ----

func (d *drv) writeSome() {
	before := d.stats["writefail"]
	switch d.rng.Intn(3) {
	case 0:
		d.doBatch()
	default:
		d.doPutDel()
	}
	if d.mode == "c08" && d.stats["writefail"] > before {
		// decide at once whether the failed write took effect now (keeps the validator's branching small)
		for _, k := range d.lastKeys {
			d.doGet(k)
		}
		d.failedWrites++
	}
}

func (d *drv) step() {
	if d.mode == "c18" {
		d.stepC18()
		return
	}
	if d.mode == "c08" {
		d.stepC08()
		return
	}
	if d.mode == "c06" {
		d.stepLSM()
		return
	}
	r := d.rng.Intn(1000)
	n := d.u.N()
	switch d.mode {
	case "c01", "c16", "c20":
		switch {
		case r < 520:
			d.writeSome()
		case r < 880:
			if d.rng.Intn(2) == 0 {
				d.doGet(d.rng.Intn(n))
			} else {
				d.doHas(d.rng.Intn(n))
			}
		case r < 900:
			d.doCompact()
		case r < 915:
			d.doReopen(false)
		case r < 925:
			d.readAll()
		default:
			if d.mode == "c01" {
				d.writeSome()
				return
			}
			if d.mode == "c16" && d.rng.Intn(3) == 0 {
				// reads below the latest sequence (snapshots) probe other blocks and filter partitions
				if h, sn := d.anySnap(); sn != nil && d.rng.Intn(3) != 0 {
					for i := 0; i < 4; i++ {
						d.doSnapRead(h, sn, d.rng.Intn(n))
					}
					if d.rng.Intn(5) == 0 {
						d.doSnapRel(h, sn)
					}
				} else if len(d.snaps) < 4 {
					d.doSnap()
				}
				return
			}
			if d.mode == "c20" && d.rng.Intn(3) == 0 {
				// values returned by Transaction.Get are private copies too
				d.doTxOpen()
				if d.tx != nil {
					for i := 0; i < 2+d.rng.Intn(6) && d.tx != nil; i++ {
						d.doTxWrite()
						if d.tx != nil {
							d.doTxRead(d.rng.Intn(n))
							d.doTxRead(d.rng.Intn(n))
						}
					}
					if d.tx != nil {
						d.doTxEnd(d.rng.Intn(4) != 0)
					}
				}
				return
			}
			// c16 / c20 also exercise iterators
			if h, it := d.anyIter(); it != nil && d.rng.Intn(8) != 0 {
				d.walk(h, it, 1+d.rng.Intn(6))
				if d.rng.Intn(6) == 0 {
					d.doIterRel(h, it)
				}
			} else {
				d.doIterNew("db")
			}
		}
	case "c02":
		switch {
		case r < 380:
			d.writeSome()
		case r < 400:
			d.doCompact()
		case r < 410:
			d.doReopen(false)
		case r < 440:
			if len(d.snaps) < 3 {
				d.doSnap()
			} else if h, s := d.anySnap(); s != nil {
				s.Release()
				d.emit(vt.Ev{"ev": "snaprel", "h": h})
				delete(d.snaps, h)
			}
		case r < 520:
			if len(d.its) < 4 {
				srcs := []string{"db", "db", "snap"}
				d.doIterNew(srcs[d.rng.Intn(len(srcs))])
			}
		case r < 560:
			if h, it := d.anyIter(); it != nil {
				d.doIterRel(h, it)
			}
		case r < 590:
			// transaction iterators: overlay in the transaction's buffer and in its spilled tables, with ranges
			d.doTxOpen()
			if d.tx != nil {
				for i := 0; i < 2+d.rng.Intn(5) && d.tx != nil; i++ {
					d.doTxWrite()
				}
				for j := 0; j < 2 && d.tx != nil; j++ {
					before := d.nextH
					d.doIterNew("tx")
					if it, ok := d.its[d.nextH]; ok && d.nextH != before {
						h := d.nextH
						for w := d.rng.Intn(4); w > 0 && d.tx != nil; w-- {
							d.doTxWrite() // the iterator is a frozen view of the transaction: later writes and spills do not show
						}
						d.walk(h, it, 4+d.rng.Intn(10))
						d.doIterRel(h, it)
					}
				}
				if d.tx != nil {
					d.doTxEnd(d.rng.Intn(2) == 0)
				}
			}
		default:
			if h, it := d.anyIter(); it != nil {
				d.walk(h, it, 3+d.rng.Intn(12))
			} else {
				d.doIterNew("db")
			}
		}
	case "c03":
		switch {
		case r < 450:
			d.writeSome()
		case r < 480:
			d.doCompact()
		case r < 560:
			if len(d.snaps) < 8 {
				d.doSnap()
			}
		case r < 590:
			if h, s := d.anySnap(); s != nil && len(d.snaps) > 2 {
				d.doSnapRel(h, s)
			}
		case r < 640:
			if len(d.its) < 4 {
				srcs := []string{"db", "snap"}
				d.doIterNew(srcs[d.rng.Intn(len(srcs))])
			}
		case r < 660:
			if h, it := d.anyIter(); it != nil && len(d.its) > 1 {
				d.walk(h, it, n+2) // re-read everything just before release
				d.doIterRel(h, it)
			}
		case r < 800:
			if h, it := d.anyIter(); it != nil {
				d.walk(h, it, 2+d.rng.Intn(8))
			}
		case r < 990:
			if h, s := d.anySnap(); s != nil {
				d.doSnapRead(h, s, d.rng.Intn(n))
			} else {
				d.doGet(d.rng.Intn(n))
			}
		default:
			// close releases every snapshot; reads through them must say so
			old := d.snaps
			d.snaps = map[int]*leveldb.Snapshot{}
			d.doReopen(false)
			for h, s := range old {
				d.snaps = map[int]*leveldb.Snapshot{}
				d.doSnapRead(h, s, d.rng.Intn(n))
			}
		}
	case "c11":
		if d.tx == nil {
			switch {
			case r < 300:
				d.writeSome()
			case r < 500:
				d.doGet(d.rng.Intn(n))
			case r < 520:
				d.doCompact()
			case r < 540:
				d.doReopen(false)
			case r < 560:
				d.readAll()
			default:
				d.doTxOpen()
			}
			return
		}
		switch {
		case r < 400:
			d.doTxWrite()
		case r < 600:
			d.doTxRead(d.rng.Intn(n))
		case r < 700:
			// outside readers see none of the transaction's writes
			d.doGet(d.rng.Intn(n))
		case r < 760:
			if h, it := d.anyIter(); it != nil {
				d.walk(h, it, 2+d.rng.Intn(8))
				if d.rng.Intn(3) == 0 {
					d.doIterRel(h, it)
				}
			} else {
				srcs := []string{"tx", "tx", "db"}
				d.doIterNew(srcs[d.rng.Intn(len(srcs))])
			}
		case r < 780:
			d.readAll()
		case r < 900:
			d.doTxEnd(true)
			d.readAll()
		case r < 970:
			d.doTxEnd(false)
			d.readAll()
		default:
			// Close with the transaction open discards it.
			d.tx = nil
			d.doReopen(false)
			d.readAll()
		}
	}
}

func main() {
	mode := flag.String("mode", "c01", "operation mix: c01 c02 c03 c11 c16 c20")
	seed := flag.Int64("seed", 1, "seed")
	n := flag.Int("n", 1000, "number of program steps")
	out := flag.String("out", "", "trace file")
	nkeys := flag.Int("nkeys", 24, "distinct keys (<= 64)")
	cmpKind := flag.Int("cmp", -1, "comparer kind (-1: by seed)")
	hang := flag.Int("hang", 30, "seconds without progress after which a call counts as hung")
	fault := flag.String("fault", "", "kind:filetype:index:count[:torn] - fail that storage operation (c08)")
	flag.Parse()

	rng := rand.New(rand.NewSource(*seed))
	spec := vt.RowSpec{CmpKind: *cmpKind, CmpSep: -1, SmallOnly: rng.Intn(3) != 0}
	switch *mode {
	case "c16":
		spec.NoFilter = true // set per open
	case "c20":
		spec.BufferPool = 1 + int(*seed%2)
	}
	row := vt.DrawRow(*seed, spec)
	tr, err := vt.NewTracer(*out)
	if err != nil {
		fmt.Fprintln(os.Stderr, err)
		os.Exit(2)
	}
	wb := row.O.WriteBuffer
	classes := []int{0, 1, 8, 8, 30, 30, 100, 100, 100, wb / 8, wb / 3}
	d := &drv{mode: *mode, rng: rng, tr: tr, row: row,
		u:    vt.NewUniverse(row.Cmp, *nkeys, *seed, true),
		vg:   vt.NewValueGen(*seed, classes),
		stor: vt.NewRecStor(), snaps: map[int]*leveldb.Snapshot{}, its: map[int]iterator.Iterator{},
		mutFt: map[string]bool{}, itSeen: map[int][2][]byte{}, itRaw: map[int][2][]byte{}, stats: map[string]int{}, comp: map[string]uint32{},
		poison: *mode == "c20"}
	d.stor.Record = false
	tr.Emit(vt.Ev{"ev": "reset", "ro": 0, "mode": *mode, "seed": *seed, "row": row.Desc, "nk": d.u.N()})
	if err := d.open(false); err != nil {
		d.fatal("open: %v", err)
	}
	start := time.Now()
	d.summary = func() map[string]interface{} {
		return map[string]interface{}{"mode": *mode, "seed": *seed, "events": tr.N(), "row": row.Desc,
			"stats": d.stats, "comp": d.comp, "wall_s": time.Since(start).Seconds(), "nkeys": d.u.N(),
			"opcount": d.opCountCopy(), "hot": d.hotCopy(), "injected": d.injected, "fault": *fault, "installs": d.installs}
	}
	go d.watchdog(time.Duration(*hang)*time.Second, d.summary)
	if *mode == "c18" {
		d.hookStor()
	}
	if *mode == "c08" {
		d.plan = parseFault(*fault)
		d.hookFaults()
		leveldb.VerifSetHooks(&leveldb.VerifHooks{
			Compaction: func(c *leveldb.VerifCompactionInfo) {
				if c.SourceLevel >= 1 && !c.Trivial {
					d.fmu.Lock()
					d.curBg = "deepcompaction"
					d.fmu.Unlock()
				} else if !c.Trivial {
					d.fmu.Lock()
					d.curBg = "l0compaction"
					d.fmu.Unlock()
				}
			},
			Install: func(*leveldb.VerifInstall) {
				d.fmu.Lock()
				d.curBg = ""
				d.fmu.Unlock()
			},
		})
	}
	if *mode == "c06" {
		if *fault != "" {
			d.plan = parseFault(*fault)
			d.hookFaults()
		}
		d.hookEngine()
	}
	for i := 0; i < *n; i++ {
		if d.closed && *mode != "c18" {
			d.doReopen(false)
		}
		d.step()
	}
	// final sweep: every key, then a full scan through a fresh iterator
	if *mode == "c08" {
		// the sweep is not part of the fault experiment: stop the faults first (a position that was never
		// reached must not fire now) and get rid of a persistent error state
		d.heal("healed-for-final-sweep")
		if d.tx != nil {
			d.doTxEnd(false)
		}
		d.doReopen(false)
	}
	if d.tx != nil {
		d.doTxEnd(d.rng.Intn(2) == 0)
	}
	if d.closed || d.ro {
		d.doReopen(false)
	}
	d.readAll()
	if *mode != "c01" {
		d.doIterNew("db")
		if h, it := d.anyIter(); it != nil {
			for k := 0; k < d.u.N()+2; k++ {
				ok := it.Next()
				kk, v := -1, 0
				if ok {
					kk, v = d.u.Rank(it.Key()), d.vg.In.Lookup(it.Value())
				}
				d.emit(vt.Ev{"ev": "iter", "h": h, "mv": "next", "arg": 0, "ok": b2i(ok), "k": kk, "v": v})
			}
		}
	}
	d.releaseAll()
	for _, s := range d.snaps {
		s.Release()
	}
	d.grab()
	d.db.Close()
	tr.Close()
	b, _ := json.Marshal(d.summary())
	fmt.Println(string(b))
}
