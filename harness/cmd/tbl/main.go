// tbl drives the real table.Writer / table.Reader over byte buffers (C13).
//
// For every table of a seeded program it draws a row of the option matrix, a
// key universe with ranks under a reference comparer and a strictly increasing
// set of pairs, builds the table, learns its layout from the writer's own
// behaviour (one Write call per block; the separators from an OffsetOf sweep),
// and records one NDJSON line per completed call with its reply (schema of
// spec/TableTrace.tla): the layout, OffsetOf / Find / FindKey / Get for every
// key of the universe, random cursor walks over ranges, and damage trials (one
// byte of a checksummed block altered on a copy, reopened, every read
// repeated).  Damage trials with identical observations are folded into one
// line carrying their count.  Panics are recovered and logged as replies that
// no action of the specification explains.
package main

import (
	"bytes"
	"encoding/binary"
	"encoding/json"
	"flag"
	"fmt"
	"math/rand"
	"os"
	"runtime"
	"sort"
	"strings"
	"sync/atomic"
	"time"

	"github.com/syndtr/goleveldb/leveldb/cache"
	lerrors "github.com/syndtr/goleveldb/leveldb/errors"
	"github.com/syndtr/goleveldb/leveldb/filter"
	"github.com/syndtr/goleveldb/leveldb/iterator"
	"github.com/syndtr/goleveldb/leveldb/opt"
	"github.com/syndtr/goleveldb/leveldb/storage"
	"github.com/syndtr/goleveldb/leveldb/table"
	"github.com/syndtr/goleveldb/leveldb/util"

	"verif/harness/internal/vt"
)

const footerLen = 48

// recWriter records the length of every Write call: the table writer issues
// exactly one per block (payload + 5-byte trailer) and one for the footer.
type recWriter struct {
	buf    bytes.Buffer
	writes []int
}

func (w *recWriter) Write(p []byte) (int, error) {
	w.writes = append(w.writes, len(p))
	return w.buf.Write(p)
}

// univ is a key universe with ranks under one reference comparer: the keys of
// vt.NewUniverse plus material aimed at the block format.
type univ struct {
	cmp  vt.RefCmp
	keys [][]byte
	idx  map[string]int
}

func newUniv(cmp vt.RefCmp, n int, seed int64, blockSize int, rng *rand.Rand) *univ {
	seen := map[string]bool{}
	var keys [][]byte
	add := func(k []byte) {
		if len(keys) < n && !seen[string(k)] {
			seen[string(k)] = true
			keys = append(keys, append([]byte{}, k...))
		}
	}
	add([]byte{}) // the empty key
	// families with a long shared prefix (prefix compression, restart points, separators)
	for f := 0; f < 2; f++ {
		pl := 20 + rng.Intn(120)
		p := bytes.Repeat([]byte{byte('p' + f)}, pl)
		for _, s := range [][]byte{{}, {0x00}, {0x00, 0x00}, {'a'}, {'a', 0x00}, {'a', 0xff}, {'b'}, {0xff}, {0xff, 0xff}} {
			if rng.Intn(3) != 0 {
				add(append(append([]byte{}, p...), s...))
			}
		}
	}
	// keys longer than a block, differing only in the last byte
	if blockSize <= 1024 || rng.Intn(3) == 0 {
		l := blockSize + 1 + rng.Intn(40)
		k := bytes.Repeat([]byte{'L'}, l)
		add(k)
		k2 := append([]byte{}, k...)
		k2[l-1] = 'M'
		add(k2)
		add(k[:l-1])
	}
	base := vt.NewUniverse(cmp, n, seed, true)
	for _, i := range rng.Perm(len(base.Keys)) {
		add(base.Keys[i])
	}
	u := &univ{cmp: cmp, keys: keys, idx: map[string]int{}}
	sort.Slice(u.keys, func(i, j int) bool { return cmp.Compare(u.keys[i], u.keys[j]) < 0 })
	for i, k := range u.keys {
		u.idx[string(k)] = i
	}
	return u
}

func (u *univ) n() int           { return len(u.keys) }
func (u *univ) key(r int) []byte { return append([]byte{}, u.keys[r]...) }
func (u *univ) rank(k []byte) int {
	if r, ok := u.idx[string(k)]; ok {
		return r
	}
	return -1
}

// error classes
const (
	eNone = iota
	eNotFound
	eCorrupt
	eOther
	ePanic
)

var eNames = []string{"none", "notfound", "corrupt", "other", "panic"}

func errCode(err error) int {
	switch {
	case err == nil:
		return eNone
	case err == table.ErrNotFound:
		return eNotFound
	case lerrors.IsCorrupted(err):
		return eCorrupt
	}
	return eOther
}

func b2i(b bool) int {
	if b {
		return 1
	}
	return 0
}

type row struct {
	o       *opt.Options // writer options
	ro      *opt.Options // reader options
	cmp     vt.RefCmp
	bpool   bool
	cacheSz int // 0: no cache
	strict  bool
	fbits   int
	rfilter int // 0 same filter, 1 none, 2 through AltFilters
	wsize   int
	desc    string
}

var (
	colBlock   = []int{64, 128, 256, 1024, 4096}
	colRestart = []int{1, 2, 16}
	colFilter  = []int{0, 1, 10, 20}
	colBaseLg  = []int{3, 7, 11}
	colCache   = []int{0, 1, 2} // off, tiny (evicting), large
)

type drv struct {
	rng             *rand.Rand
	tr              *vt.Tracer
	prog            int64
	stats           map[string]int
	cols            map[string]bool
	rows            []string
	nsSeq           uint64
	nCorrupt, nGood int // under damage: corruption errors seen, reads answered
	// one shared block cache per capacity class, shared by every reader of every table
	// of that class (each reader under its own namespace)
	caches map[int]*cache.Cache
	pool   *util.BufferPool

	// per table
	u   *univ
	in  *vt.Interner
	row row
	img []byte
	nb  int
}

func (d *drv) emit(e vt.Ev) {
	atomic.AddInt64(&d.prog, 1)
	d.stats["events"]++
	d.tr.Emit(e)
}

func (d *drv) col(name string, v interface{}) {
	d.cols[fmt.Sprintf("%s=%v", name, v)] = true
}

// drawRow: the first tables of a program cycle through every value of every
// column (rotated by seed); later tables draw at random.
func (d *drv) drawRow(j int, seed int64) row {
	rng := d.rng
	pick := func(c int, n int) int {
		if j < 5 {
			return (j + int(seed)*(c+1) + c) % n
		}
		return rng.Intn(n)
	}
	var r row
	r.cmp = vt.RefCmp{Kind: pick(0, 3), Sep: pick(1, 3)}
	bs := colBlock[pick(2, len(colBlock))]
	ri := colRestart[pick(3, len(colRestart))]
	snappy := pick(4, 2) == 1
	r.fbits = colFilter[pick(5, len(colFilter))]
	lg := colBaseLg[pick(6, len(colBaseLg))]
	r.bpool = pick(7, 2) == 1
	cm := colCache[pick(8, len(colCache))]
	r.strict = pick(9, 2) == 0
	r.rfilter = pick(10, 3)
	r.wsize = []int{0, 16, 4096}[pick(11, 3)]

	strict := opt.StrictBlockChecksum
	if r.strict {
		strict |= opt.StrictReader
	}
	o := &opt.Options{Comparer: r.cmp, BlockSize: bs, BlockRestartInterval: ri, Strict: strict, FilterBaseLg: lg}
	if snappy {
		o.Compression = opt.SnappyCompression
	} else {
		o.Compression = opt.NoCompression
	}
	if r.fbits > 0 {
		o.Filter = filter.NewBloomFilter(r.fbits)
	}
	ro := *o
	switch {
	case r.fbits == 0:
		r.rfilter = 0
	case r.rfilter == 1:
		ro.Filter = nil
	case r.rfilter == 2:
		ro.Filter = nil
		ro.AltFilters = []filter.Filter{filter.NewBloomFilter(5)}
	}
	r.o, r.ro = o, &ro
	switch cm {
	case 1:
		r.cacheSz = 2 * bs
	case 2:
		r.cacheSz = 1 << 20
	}
	r.desc = fmt.Sprintf("cmp=%d/%d bs=%d ri=%d snappy=%d bloom=%d/%d rfilter=%d bpool=%d cache=%d strictreader=%d wsize=%d",
		r.cmp.Kind, r.cmp.Sep, bs, ri, b2i(snappy), r.fbits, lg, r.rfilter, b2i(r.bpool), r.cacheSz, b2i(r.strict), r.wsize)
	d.col("cmp", r.cmp.Kind)
	d.col("sep", r.cmp.Sep)
	d.col("bs", bs)
	d.col("ri", ri)
	d.col("snappy", b2i(snappy))
	d.col("bloom", r.fbits)
	if r.fbits > 0 {
		d.col("baselg", lg)
		d.col("rfilter", r.rfilter)
	}
	d.col("bpool", b2i(r.bpool))
	d.col("cache", cm)
	d.col("strictreader", b2i(r.strict))
	return r
}

func (d *drv) open(img []byte) (*table.Reader, error) {
	var cg *cache.NamespaceGetter
	if d.row.cacheSz > 0 {
		d.nsSeq++
		if d.caches[d.row.cacheSz] == nil {
			d.caches[d.row.cacheSz] = cache.NewCache(cache.NewLRU(d.row.cacheSz))
		}
		cg = &cache.NamespaceGetter{Cache: d.caches[d.row.cacheSz], NS: d.nsSeq}
	}
	var bp *util.BufferPool
	if d.row.bpool {
		bp = d.pool
	}
	return table.NewReader(bytes.NewReader(img), int64(len(img)), storage.FileDesc{Type: storage.TypeTable, Num: int64(d.nsSeq + 1)}, cg, bp, d.row.ro)
}

// ---- guarded calls on the reader -------------------------------------------------

func (d *drv) find(r *table.Reader, k int, filtered bool, ro *opt.ReadOptions) (ec, rk, v int, msg string) {
	defer func() {
		if x := recover(); x != nil {
			ec, rk, v, msg = ePanic, -1, 0, fmt.Sprint(x)
		}
	}()
	rkey, val, err := r.Find(d.u.key(k), filtered, ro)
	if err != nil {
		return errCode(err), -1, 0, err.Error()
	}
	return eNone, d.u.rank(rkey), d.in.Lookup(val), ""
}

func (d *drv) findKey(r *table.Reader, k int, filtered bool, ro *opt.ReadOptions) (ec, rk int, msg string) {
	defer func() {
		if x := recover(); x != nil {
			ec, rk, msg = ePanic, -1, fmt.Sprint(x)
		}
	}()
	rkey, err := r.FindKey(d.u.key(k), filtered, ro)
	if err != nil {
		return errCode(err), -1, err.Error()
	}
	return eNone, d.u.rank(rkey), ""
}

func (d *drv) get(r *table.Reader, k int, ro *opt.ReadOptions) (ec, v int, msg string) {
	defer func() {
		if x := recover(); x != nil {
			ec, v, msg = ePanic, 0, fmt.Sprint(x)
		}
	}()
	val, err := r.Get(d.u.key(k), ro)
	if err != nil {
		return errCode(err), 0, err.Error()
	}
	return eNone, d.in.Lookup(val), ""
}

func (d *drv) offsetOf(r *table.Reader, k int) (ec, off int, msg string) {
	defer func() {
		if x := recover(); x != nil {
			ec, off, msg = ePanic, 0, fmt.Sprint(x)
		}
	}()
	o, err := r.OffsetOf(d.u.key(k))
	if err != nil {
		return errCode(err), 0, err.Error()
	}
	return eNone, int(o), ""
}

type mres struct {
	ok, valid, k, v, ec int
	msg                 string
}

func (d *drv) move(it iterator.Iterator, mv string, arg int) (m mres) {
	defer func() {
		if x := recover(); x != nil {
			m = mres{0, 0, -1, 0, ePanic, fmt.Sprint(x)}
		}
	}()
	var ok bool
	switch mv {
	case "first":
		ok = it.First()
	case "last":
		ok = it.Last()
	case "next":
		ok = it.Next()
	case "prev":
		ok = it.Prev()
	case "seek":
		ok = it.Seek(d.u.key(arg))
	}
	m = mres{ok: b2i(ok), valid: b2i(it.Valid()), k: -1}
	if ok {
		m.k = d.u.rank(it.Key())
		m.v = d.in.Lookup(it.Value())
	}
	if err := it.Error(); err != nil {
		m.ec, m.msg = errCode(err), err.Error()
	}
	return
}

func (d *drv) newIter(r *table.Reader, lo, hi int, ro *opt.ReadOptions) (it iterator.Iterator, ec int, msg string) {
	defer func() {
		if x := recover(); x != nil {
			it, ec, msg = nil, ePanic, fmt.Sprint(x)
		}
	}()
	var sl *util.Range
	if lo >= 0 || hi < d.u.n() {
		sl = &util.Range{}
		if lo >= 0 {
			sl.Start = d.u.key(lo)
		}
		if hi < d.u.n() {
			sl.Limit = d.u.key(hi)
		}
	}
	it = r.NewIterator(sl, ro)
	if err := it.Error(); err != nil {
		ec, msg = errCode(err), err.Error()
	}
	return
}

// scan: a whole pass in one direction; pairs seen and the final error class.
func (d *drv) scan(r *table.Reader, fwd bool, ro *opt.ReadOptions) (pairs [][2]int, ec int) {
	it, ec0, _ := d.newIter(r, -1, d.u.n(), ro)
	if it == nil {
		return nil, ec0
	}
	defer func() {
		if x := recover(); x != nil {
			ec = ePanic
		}
	}()
	defer it.Release()
	mv1, mv2 := "first", "next"
	if !fwd {
		mv1, mv2 = "last", "prev"
	}
	m := d.move(it, mv1, 0)
	for steps := 0; m.ok == 1; steps++ {
		if steps > d.u.n()+2 {
			return pairs, eOther // does not terminate
		}
		pairs = append(pairs, [2]int{m.k, m.v})
		m = d.move(it, mv2, 0)
	}
	return pairs, m.ec
}

func name(ec int, msg string) string {
	if ec >= eOther {
		return eNames[ec] + ":" + msg
	}
	return eNames[ec]
}

// ---- one table -------------------------------------------------------------------

type tcfg struct {
	nkeys, walks, moves int
	dmgCap              int // alterations per block (0: every byte)
	probes              int
}

func (d *drv) table(j int, seed int64, c tcfg) error {
	rng := d.rng
	d.row = d.drawRow(j, seed)
	d.rows = append(d.rows, d.row.desc)
	bs := d.row.o.BlockSize
	d.u = newUniv(d.row.cmp, c.nkeys, seed*131+int64(j), bs, rng)
	n := d.u.n()
	vg := vt.NewValueGen(seed*977+int64(j), []int{1})
	d.in = vg.In

	// shape of the pair set
	var members []int
	shape := ""
	switch {
	case j%7 == 0:
		shape = "empty"
	case j%7 == 1:
		shape = "single"
		members = []int{rng.Intn(n)}
	case j%7 == 2:
		shape = "few"
		for _, r := range rng.Perm(n)[:2+rng.Intn(3)] {
			members = append(members, r)
		}
	default:
		shape = "many"
		p := 0.3 + 0.65*rng.Float64()
		for r := 0; r < n; r++ {
			if rng.Float64() < p {
				members = append(members, r)
			}
		}
	}
	sort.Ints(members)
	d.stats["shape_"+shape]++

	// build
	rw := &recWriter{}
	var wp *util.BufferPool
	if d.row.bpool {
		wp = d.pool
	}
	w := table.NewWriter(rw, d.row.o, wp, d.row.wsize)
	var blocks [][][2]int
	large := 0
	for _, r := range members {
		var l int
		switch x := rng.Intn(20); {
		case x < 3:
			l = 0
		case x < 12:
			l = 1 + rng.Intn(12)
		case x < 17:
			l = 30 + rng.Intn(90)
		default:
			if large < 3 {
				l = bs + 1 + rng.Intn(200)
				large++
				d.stats["values_larger_than_block"]++
			} else {
				l = 4 + rng.Intn(8)
			}
		}
		if l == 0 {
			d.stats["empty_values"]++
		}
		val, vid := vg.FreshLen(l)
		b := len(rw.writes) // blocks completed before this pair
		if err := w.Append(d.u.key(r), val); err != nil {
			return fmt.Errorf("append: %v", err)
		}
		for len(blocks) <= b {
			blocks = append(blocks, nil)
		}
		blocks[b] = append(blocks[b], [2]int{r, vid})
		if len(d.u.keys[r]) > bs {
			d.stats["keys_longer_than_block"]++
		}
	}
	if err := w.Close(); err != nil {
		return fmt.Errorf("close: %v", err)
	}
	nb := w.BlocksLen()
	if len(blocks) == 0 {
		blocks = [][][2]int{{}} // the empty table has one empty block
	}
	hasF := d.row.fbits > 0
	if len(blocks) != nb || len(rw.writes) != nb+b2i(hasF)+3 || rw.writes[len(rw.writes)-1] != footerLen {
		return fmt.Errorf("layout inference failed: blocks=%d BlocksLen=%d writes=%v filter=%v", len(blocks), nb, rw.writes, hasF)
	}
	for _, b := range blocks {
		if len(b) == 0 && nb != 1 {
			return fmt.Errorf("layout inference failed: empty block among %d", nb)
		}
	}
	d.nb = nb
	img := append([]byte(nil), rw.buf.Bytes()...)
	d.img = img
	if w.BytesLen() != len(img) {
		return fmt.Errorf("BytesLen %d != %d", w.BytesLen(), len(img))
	}
	type part struct {
		name     string
		b        int
		from, to int
	}
	var parts []part
	offs := make([]int, nb)
	pos := 0
	for i := 0; i < nb; i++ {
		offs[i] = pos
		parts = append(parts, part{"data", i + 1, pos, pos + rw.writes[i]})
		pos += rw.writes[i]
	}
	dataEnd := pos
	wi := nb
	if hasF {
		parts = append(parts, part{"filter", 0, pos, pos + rw.writes[wi]})
		pos += rw.writes[wi]
		wi++
	}
	parts = append(parts, part{"meta", 0, pos, pos + rw.writes[wi]})
	pos += rw.writes[wi]
	parts = append(parts, part{"index", 0, pos, pos + rw.writes[wi+1]})
	pos += rw.writes[wi+1]
	if pos+footerLen != len(img) {
		return fmt.Errorf("layout inference failed: %d + footer != %d", pos, len(img))
	}
	d.stats["tables"]++
	d.stats["blocks"] += nb
	d.stats["pairs"] += len(members)
	d.stats["table_bytes"] += len(img)
	if nb > 1 {
		d.stats["multi_block_tables"]++
	}

	// open; OffsetOf sweep; separators as far as universe keys can tell
	r, err := d.open(img)
	if err != nil {
		return fmt.Errorf("NewReader on the intact table: %v", err)
	}
	type offr struct {
		ec, off int
		msg     string
	}
	sweep := make([]offr, n)
	for k := 0; k < n; k++ {
		ec, off, msg := d.offsetOf(r, k)
		sweep[k] = offr{ec, off, msg}
	}
	seps := make([]int, nb)
	for i := 0; i < nb; i++ {
		seps[i] = -1
		for k := 0; k < n; k++ {
			if sweep[k].ec == eNone && sweep[k].off <= offs[i] {
				seps[i] = k
			}
		}
	}
	effFilter := hasF && d.row.rfilter != 1
	if hasF && !effFilter {
		// a reader that does not know the filter takes the filter block for data:
		// its "end of data" is the metaindex block
		dataEnd = parts[nb+1].from
	}
	d.emit(vt.Ev{"ev": "table", "nk": n, "blocks": blocks, "seps": seps, "filter": b2i(effFilter),
		"strict": b2i(d.row.strict), "offs": offs, "dataend": dataEnd, "size": len(img),
		"row": d.row.desc, "shape": shape, "t": j})
	for k := 0; k < n; k++ {
		d.emit(vt.Ev{"ev": "off", "k": k, "off": sweep[k].off, "err": name(sweep[k].ec, sweep[k].msg)})
		d.stats["offsetof"]++
	}

	// lookups: every key of the universe, present or not
	var nofill *opt.ReadOptions
	lookups := func(order []int) {
		for _, k := range order {
			ro := nofill
			if rng.Intn(4) == 0 {
				ro = &opt.ReadOptions{DontFillCache: true}
			}
			for f := 0; f < 2; f++ {
				ec, rk, v, msg := d.find(r, k, f == 1, ro)
				d.emit(vt.Ev{"ev": "find", "k": k, "f": f, "err": name(ec, msg), "rk": rk, "v": v})
			}
			f := rng.Intn(2)
			ec, rk, msg := d.findKey(r, k, f == 1, ro)
			d.emit(vt.Ev{"ev": "findkey", "k": k, "f": f, "err": name(ec, msg), "rk": rk})
			ec, v, msg := d.get(r, k, ro)
			d.emit(vt.Ev{"ev": "get", "k": k, "err": name(ec, msg), "v": v})
			d.stats["lookups"] += 4
		}
	}
	lookups(rng.Perm(n))

	// cursor walks
	for wk := 0; wk < c.walks; wk++ {
		lo, hi := -1, n
		if wk > 0 {
			lo = rng.Intn(n+1) - 1
			switch rng.Intn(6) {
			case 0:
				hi = n
			case 1:
				hi = lo // empty range
				if hi < 0 {
					hi = 0
				}
			default:
				hi = lo + rng.Intn(n-lo+1)
				if hi < 0 {
					hi = 0
				}
			}
		}
		var ro *opt.ReadOptions
		if rng.Intn(4) == 0 {
			ro = &opt.ReadOptions{DontFillCache: true}
		}
		it, ec, msg := d.newIter(r, lo, hi, ro)
		// slen / llen: byte lengths of Range.Start / Range.Limit (-1: nil)
		slen, llen := -1, -1
		if lo >= 0 {
			slen = len(d.u.keys[lo])
		}
		if hi < n {
			llen = len(d.u.keys[hi])
		}
		d.emit(vt.Ev{"ev": "iternew", "lo": lo, "hi": hi, "slen": slen, "llen": llen, "err": name(ec, msg)})
		if it == nil {
			continue
		}
		d.stats["walks"]++
		last := []string{"next", "prev"}[rng.Intn(2)]
		nmoves := c.moves
		if small := 10 + 6*len(members); small < nmoves {
			nmoves = small // few pairs: few distinct cursor states
		}
		off := false // the previous move left the cursor invalid
		for s := 0; s < nmoves; s++ {
			mv, arg := last, 0
			x := rng.Intn(100)
			if off && x < 58 && rng.Intn(4) != 0 {
				x = 58 + rng.Intn(42) // mostly turn around or reposition after stepping off an end
			}
			switch {
			case x < 58:
			case x < 72:
				if last == "next" {
					mv = "prev"
				} else {
					mv = "next"
				}
			case x < 88:
				mv, arg = "seek", rng.Intn(n)
			case x < 94:
				mv = "first"
			default:
				mv = "last"
			}
			if mv == "next" || mv == "prev" {
				if mv != last {
					d.stats["reversals"]++
				}
				last = mv
			}
			m := d.move(it, mv, arg)
			d.emit(vt.Ev{"ev": "iter", "mv": mv, "arg": arg, "ok": m.ok, "valid": m.valid, "k": m.k, "v": m.v, "err": name(m.ec, m.msg)})
			d.stats["moves"]++
			off = m.ok == 0
			if off {
				d.stats["moves_off_the_end"]++
			}
		}
		it.Release()
		d.emit(vt.Ev{"ev": "iterrel"})
	}
	// a second round of lookups: blocks now come from the cache / recycled buffers
	lookups(rng.Perm(n)[:n/3])
	r.Release()

	// ---- damage trials -------------------------------------------------------
	probes := rng.Perm(n)
	if len(probes) > c.probes {
		probes = probes[:c.probes]
	}
	// always probe around block boundaries
	for i := 0; i < nb && i < 6; i++ {
		if len(blocks[i]) > 0 {
			probes = append(probes, blocks[i][0][0], blocks[i][len(blocks[i])-1][0])
		}
	}
	sort.Ints(probes)
	probes = uniq(probes)
	type group struct {
		obs   *obsT
		count int
		first int
	}
	for _, p := range parts {
		var at []int
		ln := p.to - p.from
		if c.dmgCap == 0 || ln <= c.dmgCap {
			for x := p.from; x < p.to; x++ {
				at = append(at, x)
			}
		} else {
			// first and last payload byte, the whole trailer, random others
			at = append(at, p.from, p.to-6, p.to-5, p.to-4, p.to-3, p.to-2, p.to-1)
			for len(at) < c.dmgCap {
				at = append(at, p.from+rng.Intn(ln))
			}
		}
		groups := map[string]*group{}
		var order []string
		for _, x := range at {
			orig := img[x]
			img[x] ^= byte(1 + rng.Intn(255)) // altered in place, restored after the reads
			obs := d.observe(img, probes)
			img[x] = orig
			kb := obs.key()
			g := groups[kb]
			if g == nil {
				g = &group{obs: obs, first: x}
				groups[kb] = g
				order = append(order, kb)
			}
			g.count++
			d.stats["damage_trials"]++
			atomic.AddInt64(&d.prog, 1)
		}
		for _, kb := range order {
			g := groups[kb]
			e := vt.Ev{"ev": "trial", "part": p.name, "b": p.b, "count": g.count, "at": g.first}
			g.obs.fill(e)
			d.emit(e)
			d.stats["trial_lines"]++
		}
	}
	return nil
}

func uniq(xs []int) []int {
	var out []int
	for i, x := range xs {
		if i == 0 || x != xs[i-1] {
			out = append(out, x)
		}
	}
	return out
}

// obsT is everything one damaged reopen showed.
type obsT struct {
	panicked   int
	what, open string
	finds      [][5]int
	gets, offs [][3]int
	fwd, bwd   [][2]int
	fe, be     int
}

func (o *obsT) key() string {
	b := make([]byte, 0, 256)
	put := func(x int) { b = binary.AppendVarint(b, int64(x)) }
	put(o.panicked)
	b = append(b, o.what...)
	b = append(b, 0)
	b = append(b, o.open...)
	b = append(b, 0)
	for _, q := range o.finds {
		for _, x := range q {
			put(x)
		}
	}
	for _, q := range o.gets {
		for _, x := range q {
			put(x)
		}
	}
	for _, q := range o.offs {
		for _, x := range q {
			put(x)
		}
	}
	put(len(o.fwd))
	for _, q := range o.fwd {
		put(q[0])
		put(q[1])
	}
	put(len(o.bwd))
	for _, q := range o.bwd {
		put(q[0])
		put(q[1])
	}
	put(o.fe)
	put(o.be)
	return string(b)
}

func (o *obsT) fill(e vt.Ev) {
	e["panic"], e["open"] = o.panicked, o.open
	if o.what != "" {
		e["what"] = o.what
	}
	e["finds"], e["gets"], e["offs"] = o.finds, o.gets, o.offs
	e["fwd"], e["fwderr"], e["bwd"], e["bwderr"] = o.fwd, o.fe, o.bwd, o.be
}

// observe reopens an altered image and repeats every kind of read.
func (d *drv) observe(img []byte, probes []int) (obs *obsT) {
	obs = &obsT{open: "none", finds: [][5]int{}, gets: [][3]int{}, offs: [][3]int{}, fwd: [][2]int{}, bwd: [][2]int{}}
	defer func() {
		if x := recover(); x != nil {
			obs.panicked = 1
			obs.what = fmt.Sprint(x)
		}
	}()
	r, err := d.open(img)
	if err != nil {
		obs.open = name(errCode(err), err.Error())
		return
	}
	defer r.Release()
	count := func(ec int) {
		switch ec {
		case eCorrupt:
			d.nCorrupt++
		case eNone:
			d.nGood++
		}
	}
	for _, k := range probes {
		for f := 0; f < 2; f++ {
			ec, rk, v, _ := d.find(r, k, f == 1, nil)
			obs.finds = append(obs.finds, [5]int{k, f, ec, rk, v})
			count(ec)
		}
		ec, v, _ := d.get(r, k, nil)
		obs.gets = append(obs.gets, [3]int{k, ec, v})
		count(ec)
		ec, off, _ := d.offsetOf(r, k)
		obs.offs = append(obs.offs, [3]int{k, ec, off})
	}
	fwd, fe := d.scan(r, true, nil)
	// the backward scan reads the way compactions do: no cache fill, per-read strictness overriding the table's
	// (with the same reader strictness, so the expected outcome is the same; block checksums stay a property of the open table)
	cro := &opt.ReadOptions{DontFillCache: true, Strict: opt.StrictOverride}
	if d.row.strict {
		cro.Strict |= opt.StrictReader
	}
	bwd, be := d.scan(r, false, cro)
	if fwd != nil {
		obs.fwd = fwd
	}
	if bwd != nil {
		obs.bwd = bwd
	}
	obs.fe, obs.be = fe, be
	d.nGood += len(fwd) + len(bwd)
	count2 := func(ec int) {
		if ec == eCorrupt {
			d.nCorrupt++
		}
	}
	count2(fe)
	count2(be)
	return
}

func main() {
	seed := flag.Int64("seed", 1, "program seed")
	tables := flag.Int("tables", 10, "tables per program")
	nkeys := flag.Int("nkeys", 40, "universe size (<= NK of TableTrace.cfg)")
	walks := flag.Int("walks", 4, "cursor walks per table")
	moves := flag.Int("moves", 40, "moves per walk")
	dmg := flag.Int("dmg", 12, "alterations per checksummed block (0: every byte)")
	probes := flag.Int("probes", 10, "keys probed after every alteration (plus block boundaries)")
	out := flag.String("out", "", "trace file")
	hang := flag.Int("hang", 120, "seconds without progress before giving up")
	flag.Parse()

	tr, err := vt.NewTracer(*out)
	if err != nil {
		fmt.Fprintln(os.Stderr, err)
		os.Exit(2)
	}
	d := &drv{rng: rand.New(rand.NewSource(*seed*7907 + 13)), tr: tr, stats: map[string]int{}, cols: map[string]bool{},
		caches: map[int]*cache.Cache{}}
	d.pool = util.NewBufferPool(4096 + 5)
	cmdline := strings.Join(os.Args, " ")
	summary := func() map[string]interface{} {
		var cols []string
		for c := range d.cols {
			cols = append(cols, c)
		}
		sort.Strings(cols)
		d.stats["corruption_errors_seen"], d.stats["good_reads_under_damage"] = d.nCorrupt, d.nGood
		return map[string]interface{}{"seed": *seed, "events": d.stats["events"], "stats": d.stats, "cols": cols,
			"rows": d.rows, "row": strings.Join(d.rows, " | "), "cmd": cmdline}
	}
	go func() { // watchdog
		last, since := int64(-1), time.Now()
		for {
			time.Sleep(500 * time.Millisecond)
			p := atomic.LoadInt64(&d.prog)
			if p != last {
				last, since = p, time.Now()
				continue
			}
			if time.Since(since) > time.Duration(*hang)*time.Second {
				buf := make([]byte, 1<<16)
				buf = buf[:runtime.Stack(buf, true)]
				where := ""
				for _, ln := range strings.Split(string(buf), "\n") {
					if strings.Contains(ln, "leveldb/table.") && where == "" {
						where = strings.TrimSpace(ln)
					}
				}
				tr.Emit(vt.Ev{"ev": "hang", "after_s": *hang, "where": where})
				tr.Close()
				m := summary()
				m["hung"] = true
				b, _ := json.Marshal(m)
				fmt.Println(string(b))
				os.Exit(0)
			}
		}
	}()
	for j := 0; j < *tables; j++ {
		if err := d.table(j, *seed, tcfg{*nkeys, *walks, *moves, *dmg, *probes}); err != nil {
			tr.Close()
			fmt.Fprintln(os.Stderr, "tbl:", err)
			os.Exit(2)
		}
	}
	if err := tr.Close(); err != nil {
		fmt.Fprintln(os.Stderr, err)
		os.Exit(2)
	}
	b, _ := json.Marshal(summary())
	fmt.Println(string(b))
}
