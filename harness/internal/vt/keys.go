package vt

import (
	"bytes"
	"fmt"
	"math/rand"
	"sort"

	"github.com/syndtr/goleveldb/leveldb/comparer"
)

// Reference comparers. Each satisfies the documented comparer contract
// (strict total order, equal only if bytes equal, empty slice smallest).
//
//	kind 0  bytewise
//	kind 1  "revnz": empty first, then non-empty keys in DEcreasing byte order
//	kind 2  shortlex: shorter first, equal lengths bytewise
//
// sep selects the Separator/Successor behaviour:
//
//	0 proper (a valid, possibly shortened answer)   1 unshortened copy   2 nil
type RefCmp struct {
	Kind, Sep int
}

func (c RefCmp) Name() string {
	// One name per order: tables written with one Sep variant may be read by another.
	return fmt.Sprintf("verif.cmp.%d", c.Kind)
}

func (c RefCmp) Compare(a, b []byte) int {
	switch c.Kind {
	case 0:
		return bytes.Compare(a, b)
	case 1:
		if len(a) == 0 || len(b) == 0 {
			switch {
			case len(a) == 0 && len(b) == 0:
				return 0
			case len(a) == 0:
				return -1
			default:
				return 1
			}
		}
		return -bytes.Compare(a, b)
	default:
		if len(a) != len(b) {
			if len(a) < len(b) {
				return -1
			}
			return 1
		}
		return bytes.Compare(a, b)
	}
}

func (c RefCmp) Separator(dst, a, b []byte) []byte {
	switch c.Sep {
	case 1:
		return append(dst, a...)
	case 2:
		return nil
	}
	switch c.Kind {
	case 0:
		return comparer.DefaultComparer.Separator(dst, a, b)
	case 1:
		// a < b in revnz. Empty a: keep. Otherwise a >bytes b, both non-empty:
		// the prefix of a up to and including the first differing byte is
		// <=bytes a and >bytes b.
		if len(a) == 0 || c.Compare(a, b) >= 0 {
			return nil
		}
		i := 0
		for i < len(a) && i < len(b) && a[i] == b[i] {
			i++
		}
		if i+1 >= len(a) {
			return nil
		}
		return append(dst, a[:i+1]...)
	default:
		// Shortlex cannot shorten; return a same-length key >= a when a is
		// strictly shorter than b (still < b).
		if len(a) < len(b) && len(a) > 0 {
			x := append(dst, a...)
			x[len(x)-1] = 0xff
			return x
		}
		return nil
	}
}

func (c RefCmp) Successor(dst, b []byte) []byte {
	switch c.Sep {
	case 1:
		return append(dst, b...)
	case 2:
		return nil
	}
	switch c.Kind {
	case 0:
		return comparer.DefaultComparer.Successor(dst, b)
	case 1:
		// any non-empty prefix of b is <=bytes b, i.e. >= b in revnz.
		if len(b) >= 2 {
			return append(dst, b[:1]...)
		}
		return nil
	default:
		return nil
	}
}

// Universe is a finite set of keys with ranks under one comparer.
type Universe struct {
	Cmp  RefCmp
	Keys [][]byte // sorted by Cmp; rank = index
	idx  map[string]int
}

// adversarial key material
var baseKeys = [][]byte{
	{}, {0x00}, {0x00, 0x00}, {0x00, 0xff}, {0xff}, {0xff, 0xff}, {0xff, 0x00},
	[]byte("a"), []byte("aa"), []byte("ab"), []byte("b"), []byte("ba"),
	[]byte("key"), []byte("key0"), []byte("key00"), []byte("key1"), []byte("kez"),
	{0x61, 0xff}, {0x61, 0xff, 0xff}, {0x61, 0x00},
	{0x7f}, {0x80}, {0xfe}, {0xfe, 0xff, 0xff, 0xff},
	[]byte("zzzzzzzzzzzzzzzzzzzzzzzzzzzzzzzzzzzzzzzzzzzzzzzzzzzzzzzzzzzzzzzzzzzzzzzz"), // longer than a 64-byte block
}

// NewUniverse builds n distinct keys: the adversarial base set (as far as n
// allows, shuffled by seed so different seeds use different subsets) plus
// random short keys and, optionally, a few long keys.
func NewUniverse(cmp RefCmp, n int, seed int64, allowEmpty bool) *Universe {
	rng := rand.New(rand.NewSource(seed))
	seen := map[string]bool{}
	var keys [][]byte
	add := func(k []byte) {
		if !allowEmpty && len(k) == 0 {
			return
		}
		if len(keys) < n && !seen[string(k)] {
			seen[string(k)] = true
			keys = append(keys, append([]byte{}, k...))
		}
	}
	perm := rng.Perm(len(baseKeys))
	lim := n * 2 / 3
	for _, i := range perm {
		if len(keys) >= lim {
			break
		}
		add(baseKeys[i])
	}
	alpha := []byte{0x00, 0x01, 'a', 'b', 'k', 0x7f, 0x80, 0xfe, 0xff}
	for len(keys) < n {
		l := 1 + rng.Intn(6)
		if rng.Intn(12) == 0 {
			l = 60 + rng.Intn(80)
		}
		k := make([]byte, l)
		for i := range k {
			k[i] = alpha[rng.Intn(len(alpha))]
		}
		add(k)
	}
	u := &Universe{Cmp: cmp, Keys: keys}
	sort.Slice(u.Keys, func(i, j int) bool { return cmp.Compare(u.Keys[i], u.Keys[j]) < 0 })
	u.idx = map[string]int{}
	for i, k := range u.Keys {
		u.idx[string(k)] = i
	}
	return u
}

// Rank returns the rank of k, or -1 if k is not in the universe.
func (u *Universe) Rank(k []byte) int {
	if r, ok := u.idx[string(k)]; ok {
		return r
	}
	return -1
}

// N is the number of keys.
func (u *Universe) N() int { return len(u.Keys) }

// Key returns a private copy of the key of rank r.
func (u *Universe) Key(r int) []byte { return append([]byte{}, u.Keys[r]...) }

// Interner maps value bytes to small positive content ids (0 = absent,
// -1 = bytes never written by the driver).
type Interner struct {
	ids map[string]int
	n   int
}

func NewInterner() *Interner { return &Interner{ids: map[string]int{}} }

// ID interns b and returns its content id (>= 1).
func (in *Interner) ID(b []byte) int {
	if id, ok := in.ids[string(b)]; ok {
		return id
	}
	in.n++
	in.ids[string(b)] = in.n
	return in.n
}

// Lookup returns the content id of b or -1 if b was never interned.
func (in *Interner) Lookup(b []byte) int {
	if id, ok := in.ids[string(b)]; ok {
		return id
	}
	return -1
}

// ValueGen creates fresh values in several length classes.
type ValueGen struct {
	rng *rand.Rand
	n   uint64
	In  *Interner
	// Classes are value lengths to draw from (weights by repetition).
	Classes []int
}

func NewValueGen(seed int64, classes []int) *ValueGen {
	return &ValueGen{rng: rand.New(rand.NewSource(seed ^ 0x5eed)), In: NewInterner(), Classes: classes}
}

// Fresh returns a new value (unique bytes whenever length >= 4) and its content id.
func (g *ValueGen) Fresh() ([]byte, int) {
	l := g.Classes[g.rng.Intn(len(g.Classes))]
	return g.FreshLen(l)
}

func (g *ValueGen) FreshLen(l int) ([]byte, int) {
	g.n++
	b := make([]byte, l)
	x := g.n
	for i := 0; i < l; i++ {
		if i < 6 {
			b[i] = byte(x >> (8 * uint(i)))
		} else {
			// compressible but id-dependent filler
			b[i] = byte('A' + (g.n+uint64(i/16))%23)
		}
	}
	return b, g.In.ID(b)
}
