package vt

import (
	"fmt"
	"math/rand"

	"github.com/syndtr/goleveldb/leveldb/filter"
	"github.com/syndtr/goleveldb/leveldb/opt"
)

// OptRow is one row of the option matrix (DESIGN.md Appendix C).
type OptRow struct {
	O    *opt.Options
	Cmp  RefCmp
	Desc string
	// Steer: auto compaction neutralised; layout changes only on request.
	Steer bool
}

func pick(rng *rand.Rand, xs ...int) int { return xs[rng.Intn(len(xs))] }

// RowSpec lets a caller pin some columns; zero values mean "draw by seed".
type RowSpec struct {
	Steer        bool
	CmpKind      int // -1 draw
	CmpSep       int // -1 draw
	NoFilter     bool
	ForceFilter  int // bits per key (>0)
	BufferPool   int // 0 draw, 1 on, 2 off
	ManifestSize int64
	NoTxBatch    bool
	SmallOnly    bool // only small write buffers (exercise compaction quickly)
}

// DrawRow draws an option row from the matrix by seed.
func DrawRow(seed int64, spec RowSpec) OptRow {
	rng := rand.New(rand.NewSource(seed*7919 + 17))
	o := &opt.Options{}
	desc := ""
	add := func(f string, a ...interface{}) { desc += fmt.Sprintf(f, a...) + " " }

	ck, cs := spec.CmpKind, spec.CmpSep
	if ck < 0 {
		ck = rng.Intn(3)
	}
	if cs < 0 {
		cs = rng.Intn(3)
	}
	cmp := RefCmp{Kind: ck, Sep: cs}
	o.Comparer = cmp
	add("cmp=%d/%d", ck, cs)

	if spec.SmallOnly {
		o.WriteBuffer = pick(rng, 512, 1024, 2048)
	} else {
		o.WriteBuffer = pick(rng, 512, 2048, 8192, 65536)
	}
	add("wb=%d", o.WriteBuffer)
	switch rng.Intn(3) {
	case 0:
		o.CompactionTableSize, o.CompactionTotalSize, o.CompactionTotalSizeMultiplier = 512, 2048, 4
	case 1:
		o.CompactionTableSize, o.CompactionTotalSize, o.CompactionTotalSizeMultiplier = 2048, 8192, 10
	default:
		o.CompactionTableSize, o.CompactionTotalSize, o.CompactionTotalSizeMultiplier = 1024, 4096, 3
	}
	add("ts=%d tot=%d", o.CompactionTableSize, o.CompactionTotalSize)
	if spec.Steer {
		o.CompactionL0Trigger = 1 << 20
		o.WriteL0SlowdownTrigger = 1 << 20
		o.WriteL0PauseTrigger = 1 << 20
		o.CompactionTotalSize = 1 << 30
		o.DisableSeeksCompaction = true
		add("steer")
	} else {
		switch rng.Intn(2) {
		case 0:
			o.CompactionL0Trigger, o.WriteL0SlowdownTrigger, o.WriteL0PauseTrigger = 2, 4, 6
		default:
			o.CompactionL0Trigger, o.WriteL0SlowdownTrigger, o.WriteL0PauseTrigger = 4, 8, 12
		}
		add("l0=%d", o.CompactionL0Trigger)
		if rng.Intn(2) == 0 {
			o.DisableSeeksCompaction = true
		} else {
			o.IteratorSamplingRate = 64
			add("seekcomp")
		}
	}
	switch rng.Intn(3) {
	case 0:
		o.BlockSize, o.BlockRestartInterval = 64, 1
	case 1:
		o.BlockSize, o.BlockRestartInterval = 256, 2
	default:
		o.BlockSize, o.BlockRestartInterval = 4096, 16
	}
	add("bs=%d/%d", o.BlockSize, o.BlockRestartInterval)
	if rng.Intn(2) == 0 {
		o.Compression = opt.NoCompression
		add("nocomp")
	} else {
		o.Compression = opt.SnappyCompression
	}
	switch {
	case spec.NoFilter:
	case spec.ForceFilter > 0:
		o.Filter = filter.NewBloomFilter(spec.ForceFilter)
		add("bloom=%d", spec.ForceFilter)
	default:
		if b := pick(rng, 0, 1, 10, 20); b > 0 {
			o.Filter = filter.NewBloomFilter(b)
			o.FilterBaseLg = pick(rng, 3, 11)
			add("bloom=%d/%d", b, o.FilterBaseLg)
		}
	}
	switch rng.Intn(3) {
	case 0:
	case 1:
		o.BlockCacheCapacity = 1024
		add("bc=1k")
	default:
		o.DisableBlockCache = true
		add("nobc")
	}
	if rng.Intn(3) == 0 {
		o.OpenFilesCacheCapacity = 2
		add("ofc=2")
	}
	switch spec.BufferPool {
	case 1:
	case 2:
		o.DisableBufferPool = true
	default:
		o.DisableBufferPool = rng.Intn(2) == 0
	}
	if o.DisableBufferPool {
		add("nobpool")
	}
	o.NoWriteMerge = rng.Intn(4) == 0
	o.DisableLargeBatchTransaction = spec.NoTxBatch || rng.Intn(4) == 0
	if o.DisableLargeBatchTransaction {
		add("notxbatch")
	}
	if spec.ManifestSize != 0 {
		o.MaxManifestFileSize = spec.ManifestSize
	} else {
		switch rng.Intn(3) {
		case 0:
			o.MaxManifestFileSize = 1
		case 1:
			o.MaxManifestFileSize = 300
		}
	}
	add("mf=%d", o.MaxManifestFileSize)
	o.DisableCompactionBackoff = true
	return OptRow{O: o, Cmp: cmp, Desc: desc, Steer: spec.Steer}
}
