package vt

import (
	"errors"
	"io"
	"math/rand"
	"os"
	"sort"
	"sync"

	"github.com/syndtr/goleveldb/leveldb/storage"
)

// OpKind enumerates storage operations.
type OpKind int

const (
	OpCreate OpKind = iota
	OpWrite
	OpSync
	OpClose
	OpRemove
	OpRename
	OpSetMeta
	OpOpen
	OpRead
	OpList
	OpGetMeta
	OpLock
	OpUnlock
	OpReaderClose
	nOpKinds
)

var opNames = [...]string{"create", "write", "sync", "close", "remove", "rename", "setmeta", "open", "read", "list", "getmeta", "lock", "unlock", "rclose"}

func (k OpKind) String() string { return opNames[k] }

// Mutating reports whether the operation changes stored state.
func (k OpKind) Mutating() bool {
	switch k {
	case OpCreate, OpWrite, OpSync, OpRemove, OpRename, OpSetMeta:
		return true
	}
	return false
}

// FtName names a file type.
func FtName(t storage.FileType) string {
	switch t {
	case storage.TypeManifest:
		return "manifest"
	case storage.TypeJournal:
		return "journal"
	case storage.TypeTable:
		return "table"
	case storage.TypeTemp:
		return "temp"
	}
	return "other"
}

// Op is one logged storage operation.
type Op struct {
	Kind OpKind
	Fd   storage.FileDesc
	Fd2  storage.FileDesc
	Data []byte // bytes written (OpWrite)
	Off  int64  // read offset (OpRead)
	Len  int    // bytes requested / written
	Err  bool   // an injected failure was returned
	Idx  int    // index among mutating operations (position in the crash log), -1 otherwise
}

type rfile struct {
	data   []byte
	synced int
}

// ErrInjected is the error returned by injected faults.
var ErrInjected = errors.New("verif: injected storage fault")

// RecStor is an in-memory storage.Storage that serialises all operations under
// one mutex, logs the mutating ones (so that any prefix is a real crash state),
// can inject a failure into any operation and can materialise post-crash images.
type RecStor struct {
	mu      sync.Mutex
	files   map[storage.FileDesc]*rfile
	meta    storage.FileDesc
	hasMeta bool
	locked  bool
	log     []Op
	Record  bool // log mutating ops (needed for images)

	// Fault is consulted (under the mutex) before an operation executes. It may
	// return an error to inject; for OpWrite it may also return torn >= 0 to
	// let only a prefix of the data reach the file before failing.
	Fault func(op *Op) (err error, torn int)
	// OnOp is called (under the mutex) after every operation.
	OnOp func(op *Op)
	// ReadHook may alter bytes returned by a read (damage injection).
	ReadHook func(fd storage.FileDesc, off int64, p []byte)

	nAll [nOpKinds]int
}

func NewRecStor() *RecStor {
	return &RecStor{files: map[storage.FileDesc]*rfile{}, Record: true}
}

func (s *RecStor) do(op *Op, exec func()) error {
	// caller holds mu
	var ferr error
	torn := -1
	if s.Fault != nil {
		ferr, torn = s.Fault(op)
	}
	op.Idx = -1
	if ferr != nil {
		op.Err = true
		if op.Kind == OpWrite && torn > 0 && torn < len(op.Data) {
			// torn write: a prefix reaches the file
			op.Data = op.Data[:torn]
			exec()
			if s.Record {
				op.Idx = len(s.log)
				s.log = append(s.log, *op)
			}
		}
	} else {
		exec()
		if s.Record && op.Kind.Mutating() {
			op.Idx = len(s.log)
			s.log = append(s.log, *op)
		}
	}
	s.nAll[op.Kind]++
	if s.OnOp != nil {
		s.OnOp(op)
	}
	return ferr
}

// NOps returns the number of mutating operations logged so far.
func (s *RecStor) NOps() int {
	s.mu.Lock()
	defer s.mu.Unlock()
	return len(s.log)
}

// OpLog returns the mutating-operation log (shared slice; do not modify).
func (s *RecStor) OpLog() []Op {
	s.mu.Lock()
	defer s.mu.Unlock()
	return s.log[:len(s.log):len(s.log)]
}

type rlock struct{ s *RecStor }

func (l rlock) Unlock() {
	l.s.mu.Lock()
	defer l.s.mu.Unlock()
	op := &Op{Kind: OpUnlock}
	l.s.do(op, func() { l.s.locked = false })
}

func (s *RecStor) Lock() (storage.Locker, error) {
	s.mu.Lock()
	defer s.mu.Unlock()
	op := &Op{Kind: OpLock}
	if s.locked {
		op.Err = true
		if s.OnOp != nil {
			s.OnOp(op)
		}
		return nil, storage.ErrLocked
	}
	if err := s.do(op, func() { s.locked = true }); err != nil {
		return nil, err
	}
	return rlock{s}, nil
}

// Log implements storage.Storage (message log; ignored).
func (s *RecStor) Log(string) {}

func (s *RecStor) SetMeta(fd storage.FileDesc) error {
	s.mu.Lock()
	defer s.mu.Unlock()
	op := &Op{Kind: OpSetMeta, Fd: fd}
	return s.do(op, func() { s.meta = fd; s.hasMeta = true })
}

func (s *RecStor) GetMeta() (storage.FileDesc, error) {
	s.mu.Lock()
	defer s.mu.Unlock()
	op := &Op{Kind: OpGetMeta}
	if err := s.do(op, func() {}); err != nil {
		return storage.FileDesc{}, err
	}
	if !s.hasMeta {
		return storage.FileDesc{}, os.ErrNotExist
	}
	if _, ok := s.files[s.meta]; !ok {
		// CURRENT names a file that does not exist: what file storage reports as corruption.
		return storage.FileDesc{}, &storage.ErrCorrupted{Fd: s.meta, Err: errors.New("verif: CURRENT points to a missing manifest")}
	}
	return s.meta, nil
}

func (s *RecStor) List(ft storage.FileType) ([]storage.FileDesc, error) {
	s.mu.Lock()
	defer s.mu.Unlock()
	op := &Op{Kind: OpList}
	if err := s.do(op, func() {}); err != nil {
		return nil, err
	}
	var r []storage.FileDesc
	for fd := range s.files {
		if fd.Type&ft != 0 {
			r = append(r, fd)
		}
	}
	sort.Slice(r, func(i, j int) bool {
		if r[i].Num != r[j].Num {
			return r[i].Num < r[j].Num
		}
		return r[i].Type < r[j].Type
	})
	return r, nil
}

type rreader struct {
	s   *RecStor
	fd  storage.FileDesc
	f   *rfile
	pos int64
}

func (r *rreader) readAt(p []byte, off int64) (int, error) {
	op := &Op{Kind: OpRead, Fd: r.fd, Off: off, Len: len(p)}
	n := 0
	var rerr error
	err := r.s.do(op, func() {
		if off >= int64(len(r.f.data)) {
			rerr = io.EOF
			return
		}
		n = copy(p, r.f.data[off:])
		if r.s.ReadHook != nil {
			r.s.ReadHook(r.fd, off, p[:n])
		}
		if n < len(p) {
			rerr = io.EOF
		}
	})
	if err != nil {
		return 0, err
	}
	return n, rerr
}

func (r *rreader) Read(p []byte) (int, error) {
	r.s.mu.Lock()
	defer r.s.mu.Unlock()
	if len(p) == 0 {
		return 0, nil
	}
	n, err := r.readAt(p, r.pos)
	r.pos += int64(n)
	if n > 0 && err == io.EOF {
		err = nil
	}
	return n, err
}

func (r *rreader) ReadAt(p []byte, off int64) (int, error) {
	r.s.mu.Lock()
	defer r.s.mu.Unlock()
	return r.readAt(p, off)
}

func (r *rreader) Seek(offset int64, whence int) (int64, error) {
	r.s.mu.Lock()
	defer r.s.mu.Unlock()
	switch whence {
	case 0:
		r.pos = offset
	case 1:
		r.pos += offset
	case 2:
		r.pos = int64(len(r.f.data)) + offset
	}
	if r.pos < 0 {
		r.pos = 0
		return 0, errors.New("verif: negative seek")
	}
	return r.pos, nil
}

func (r *rreader) Close() error {
	r.s.mu.Lock()
	defer r.s.mu.Unlock()
	op := &Op{Kind: OpReaderClose, Fd: r.fd}
	r.s.do(op, func() {})
	return nil
}

func (s *RecStor) Open(fd storage.FileDesc) (storage.Reader, error) {
	s.mu.Lock()
	defer s.mu.Unlock()
	op := &Op{Kind: OpOpen, Fd: fd}
	if err := s.do(op, func() {}); err != nil {
		return nil, err
	}
	f, ok := s.files[fd]
	if !ok {
		return nil, os.ErrNotExist
	}
	return &rreader{s: s, fd: fd, f: f}, nil
}

type rwriter struct {
	s      *RecStor
	fd     storage.FileDesc
	f      *rfile
	closed bool
}

func (w *rwriter) Write(p []byte) (int, error) {
	w.s.mu.Lock()
	defer w.s.mu.Unlock()
	if w.closed {
		return 0, storage.ErrClosed
	}
	op := &Op{Kind: OpWrite, Fd: w.fd, Data: append([]byte(nil), p...), Len: len(p)}
	err := w.s.do(op, func() { w.f.data = append(w.f.data, op.Data...) })
	if err != nil {
		return 0, err
	}
	return len(p), nil
}

func (w *rwriter) Sync() error {
	w.s.mu.Lock()
	defer w.s.mu.Unlock()
	if w.closed {
		return storage.ErrClosed
	}
	op := &Op{Kind: OpSync, Fd: w.fd}
	return w.s.do(op, func() { w.f.synced = len(w.f.data) })
}

func (w *rwriter) Close() error {
	w.s.mu.Lock()
	defer w.s.mu.Unlock()
	if w.closed {
		return storage.ErrClosed
	}
	op := &Op{Kind: OpClose, Fd: w.fd}
	err := w.s.do(op, func() {})
	w.closed = true
	return err
}

func (s *RecStor) Create(fd storage.FileDesc) (storage.Writer, error) {
	s.mu.Lock()
	defer s.mu.Unlock()
	op := &Op{Kind: OpCreate, Fd: fd}
	f := &rfile{}
	if err := s.do(op, func() { s.files[fd] = f }); err != nil {
		return nil, err
	}
	return &rwriter{s: s, fd: fd, f: f}, nil
}

func (s *RecStor) Remove(fd storage.FileDesc) error {
	s.mu.Lock()
	defer s.mu.Unlock()
	if _, ok := s.files[fd]; !ok {
		return os.ErrNotExist
	}
	op := &Op{Kind: OpRemove, Fd: fd}
	return s.do(op, func() { delete(s.files, fd) })
}

func (s *RecStor) Rename(a, b storage.FileDesc) error {
	s.mu.Lock()
	defer s.mu.Unlock()
	f, ok := s.files[a]
	if !ok {
		return os.ErrNotExist
	}
	op := &Op{Kind: OpRename, Fd: a, Fd2: b}
	return s.do(op, func() { delete(s.files, a); s.files[b] = f })
}

func (s *RecStor) Close() error { return nil }

// Files returns the current listing (sorted) with sizes.
func (s *RecStor) Files() []FileInfo {
	s.mu.Lock()
	defer s.mu.Unlock()
	var r []FileInfo
	for fd, f := range s.files {
		r = append(r, FileInfo{Fd: fd, Size: len(f.data), Synced: f.synced})
	}
	sort.Slice(r, func(i, j int) bool {
		if r[i].Fd.Num != r[j].Fd.Num {
			return r[i].Fd.Num < r[j].Fd.Num
		}
		return r[i].Fd.Type < r[j].Fd.Type
	})
	return r
}

// Meta returns the CURRENT pointer.
func (s *RecStor) Meta() (storage.FileDesc, bool) {
	s.mu.Lock()
	defer s.mu.Unlock()
	return s.meta, s.hasMeta
}

// FileInfo describes one stored file.
type FileInfo struct {
	Fd     storage.FileDesc
	Size   int
	Synced int
}

// Data returns a copy of a file's bytes.
func (s *RecStor) Data(fd storage.FileDesc) ([]byte, bool) {
	s.mu.Lock()
	defer s.mu.Unlock()
	f, ok := s.files[fd]
	if !ok {
		return nil, false
	}
	return append([]byte(nil), f.data...), true
}

// SetData replaces a file's bytes (damage injection between runs).
func (s *RecStor) SetData(fd storage.FileDesc, b []byte) {
	s.mu.Lock()
	defer s.mu.Unlock()
	s.files[fd] = &rfile{data: append([]byte(nil), b...), synced: len(b)}
}

// Delete removes a file without logging (damage injection between runs).
func (s *RecStor) Delete(fd storage.FileDesc) {
	s.mu.Lock()
	defer s.mu.Unlock()
	delete(s.files, fd)
}

// ClearMeta forgets the CURRENT pointer (damage injection between runs).
func (s *RecStor) ClearMeta() {
	s.mu.Lock()
	defer s.mu.Unlock()
	s.hasMeta = false
	s.meta = storage.FileDesc{}
}

// Unlocked force-releases the storage lock (a crashed owner holds nothing).
func (s *RecStor) ForceUnlock() {
	s.mu.Lock()
	defer s.mu.Unlock()
	s.locked = false
}

// Clone copies the storage state (no log, unlocked), treating everything as synced or not per keepSynced.
func (s *RecStor) Clone() *RecStor {
	s.mu.Lock()
	defer s.mu.Unlock()
	c := NewRecStor()
	for fd, f := range s.files {
		c.files[fd] = &rfile{data: append([]byte(nil), f.data...), synced: f.synced}
	}
	c.meta, c.hasMeta = s.meta, s.hasMeta
	return c
}

// Image classes for post-crash states.
const (
	ImgLost    = iota // every unsynced tail lost
	ImgKept           // every unsynced tail kept
	ImgCut            // each unsynced tail cut at a random byte
	ImgCutZero        // cut, then a random number of zero bytes
	ImgCutJunk        // cut, then random garbage
	NImageClasses
)

var ImageClassNames = [...]string{"lost", "kept", "cut", "cut+zeros", "cut+garbage"}

// ImageFile reports what an image kept of one file.
type ImageFile struct {
	Fd      storage.FileDesc
	Written int // bytes written before the crash
	Synced  int // bytes covered by the last successful Sync
	Kept    int // bytes of the original kept in the image
	Extra   int // zero/garbage bytes appended after the cut
}

// Image materialises the storage as it may be found after a crash that
// happened right after the first n logged operations. Admissible images keep,
// for every file, all bytes up to its synced length and any prefix of the
// rest; Create/Remove/Rename/SetMeta are atomic and durable on return.
func Image(log []Op, n int, class int, rng *rand.Rand) (*RecStor, []ImageFile) {
	return ImageFrom(nil, log, n, class, rng)
}

// ImageFrom is Image starting from the (fully durable) contents of base instead
// of an empty storage: used for a crash during the recovery of an earlier image.
func ImageFrom(base *RecStor, log []Op, n int, class int, rng *rand.Rand) (*RecStor, []ImageFile) {
	s := NewRecStor()
	if base != nil {
		base.mu.Lock()
		for fd, f := range base.files {
			s.files[fd] = &rfile{data: append([]byte(nil), f.data...), synced: len(f.data)}
		}
		s.meta, s.hasMeta = base.meta, base.hasMeta
		base.mu.Unlock()
	}
	for i := 0; i < n; i++ {
		o := &log[i]
		switch o.Kind {
		case OpCreate:
			s.files[o.Fd] = &rfile{}
		case OpWrite:
			if f := s.files[o.Fd]; f != nil {
				f.data = append(f.data, o.Data...)
			}
		case OpSync:
			if f := s.files[o.Fd]; f != nil {
				f.synced = len(f.data)
			}
		case OpRemove:
			delete(s.files, o.Fd)
		case OpRename:
			if f := s.files[o.Fd]; f != nil {
				s.files[o.Fd2] = f
				delete(s.files, o.Fd)
			}
		case OpSetMeta:
			s.meta, s.hasMeta = o.Fd, true
		}
	}
	fds := make([]storage.FileDesc, 0, len(s.files))
	for fd := range s.files {
		fds = append(fds, fd)
	}
	sort.Slice(fds, func(i, j int) bool {
		if fds[i].Num != fds[j].Num {
			return fds[i].Num < fds[j].Num
		}
		return fds[i].Type < fds[j].Type
	})
	var info []ImageFile
	for _, fd := range fds {
		f := s.files[fd]
		inf := ImageFile{Fd: fd, Written: len(f.data), Synced: f.synced}
		tail := len(f.data) - f.synced
		keep := len(f.data)
		switch class {
		case ImgLost:
			keep = f.synced
		case ImgKept:
		default:
			if tail > 0 {
				keep = f.synced + rng.Intn(tail+1)
			}
		}
		// copy: the log's buffers must stay intact
		nd := append([]byte(nil), f.data[:keep]...)
		if tail > 0 && keep < len(f.data) {
			switch class {
			case ImgCutZero:
				inf.Extra = 1 + rng.Intn(64)
				nd = append(nd, make([]byte, inf.Extra)...)
			case ImgCutJunk:
				inf.Extra = 1 + rng.Intn(64)
				j := make([]byte, inf.Extra)
				rng.Read(j)
				nd = append(nd, j...)
			}
		}
		inf.Kept = keep
		f.data = nd
		f.synced = len(nd)
		info = append(info, inf)
	}
	return s, info
}
