// Package vt holds what every conformance driver shares: the NDJSON tracer,
// reference comparers and key universes, value interning, the recording /
// fault-injecting / crash-image storage, option rows and the seeded PRNG.
package vt

import (
	"bufio"
	"encoding/json"
	"fmt"
	"os"
	"sync"
)

// Ev is one trace event. Keys are sorted by encoding/json, so output is stable.
type Ev map[string]interface{}

// Tracer serialises events from all goroutines under one mutex and gives each
// a global sequence number "n"; order in the file is the order of Emit calls.
type Tracer struct {
	mu   sync.Mutex
	f    *os.File
	w    *bufio.Writer
	n    int64
	path string
	Mem  []Ev // when KeepMem is set
	Keep bool
	Sync bool // flush after every event (hang diagnosis, concurrent drivers)
}

// NewTracer opens path for writing (truncating). Empty path: memory only.
func NewTracer(path string) (*Tracer, error) {
	t := &Tracer{path: path}
	if path == "" {
		t.Keep = true
		return t, nil
	}
	f, err := os.Create(path)
	if err != nil {
		return nil, err
	}
	t.f = f
	t.w = bufio.NewWriterSize(f, 1<<20)
	t.Sync = os.Getenv("VERIF_TRACE_SYNC") != ""
	return t, nil
}

// Emit writes one event.
func (t *Tracer) Emit(e Ev) {
	t.mu.Lock()
	defer t.mu.Unlock()
	t.n++
	e["n"] = t.n
	if t.Keep {
		t.Mem = append(t.Mem, e)
	}
	if t.w != nil {
		b, err := json.Marshal(e)
		if err != nil {
			panic(fmt.Sprintf("tracer: %v (%v)", err, e))
		}
		t.w.Write(b)
		t.w.WriteByte('\n')
		if t.Sync {
			t.w.Flush()
		}
	}
}

// N returns the number of events emitted so far.
func (t *Tracer) N() int64 {
	t.mu.Lock()
	defer t.mu.Unlock()
	return t.n
}

// Locked runs f while holding the tracer mutex (to stamp something atomically
// with respect to event order).
func (t *Tracer) Locked(f func(n int64)) {
	t.mu.Lock()
	defer t.mu.Unlock()
	f(t.n)
}

// Close flushes and closes the file.
func (t *Tracer) Close() error {
	t.mu.Lock()
	defer t.mu.Unlock()
	if t.w != nil {
		if err := t.w.Flush(); err != nil {
			return err
		}
		return t.f.Close()
	}
	return nil
}

// Path returns the file path.
func (t *Tracer) Path() string { return t.path }
