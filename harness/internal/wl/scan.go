package wl

import (
	"fmt"

	"github.com/syndtr/goleveldb/leveldb"
	"github.com/syndtr/goleveldb/leveldb/opt"
	"github.com/syndtr/goleveldb/leveldb/storage"
	"github.com/syndtr/goleveldb/leveldb/table"

	"verif/harness/internal/vt"
)

// Entry is one table entry in abstract form.
type Entry struct {
	K    int // key rank (-1: not in the universe)
	Seq  uint64
	Kind int // 0 delete, 1 value
}

// ScanTable lists the readable entries of a table file (checksums on, damaged blocks skipped).
func ScanTable(stor *vt.RecStor, fd storage.FileDesc, o *opt.Options, u *vt.Universe) (ents []Entry, corrupted int, err error) {
	defer func() {
		if x := recover(); x != nil {
			err = fmt.Errorf("panic scanning table %d: %v", fd.Num, x)
		}
	}()
	data, ok := stor.Data(fd)
	if !ok {
		return nil, 0, fmt.Errorf("table %d missing", fd.Num)
	}
	st := vt.NewRecStor()
	st.SetData(fd, data)
	r, err := st.Open(fd)
	if err != nil {
		return nil, 0, err
	}
	oo := *o
	oo.Comparer = leveldb.VerifIComparer(o.Comparer)
	oo.Strict = opt.DefaultStrict &^ opt.StrictReader
	oo.Filter = nil
	tr, err := table.NewReader(r, int64(len(data)), fd, nil, nil, &oo)
	if err != nil {
		return nil, 1, nil // index or footer unreadable: nothing survives
	}
	defer tr.Release()
	it := tr.NewIterator(nil, nil)
	defer it.Release()
	if es, ok := it.(interface{ SetErrorCallback(func(error)) }); ok {
		es.SetErrorCallback(func(error) { corrupted++ })
	}
	for it.Next() {
		uk, seq, kind, kerr := leveldb.VerifParseInternalKey(it.Key())
		if kerr != nil {
			continue
		}
		ents = append(ents, Entry{K: u.Rank(uk), Seq: seq, Kind: kind})
	}
	return ents, corrupted, nil
}
