// Package wl is the seeded sequential workload shared by the crash, fault and
// recover drivers: batches with unique values, transactions, oversize batches,
// compactions and clean reopen, each batch recorded with the storage-operation
// indices at which its call began and was acknowledged.
package wl

import (
	"fmt"
	"math/rand"
	"sync"

	"github.com/syndtr/goleveldb/leveldb"
	"github.com/syndtr/goleveldb/leveldb/opt"
	"github.com/syndtr/goleveldb/leveldb/util"

	"verif/harness/internal/vt"
)

type Batch struct {
	ID      int
	Ops     [][2]int // key rank, value id (0 delete)
	Vals    [][]byte
	Sync    bool
	OK      bool
	Kind    string
	BeginOp int // storage ops logged before the call started
	AckOp   int // storage ops logged when the call had returned
}

type Workload struct {
	Rng     *rand.Rand
	U       *vt.Universe
	VG      *vt.ValueGen
	Stor    *vt.RecStor
	DB      *leveldb.DB
	O       *opt.Options
	Batches []*Batch
	Tr      *vt.Tracer
	mu      sync.Mutex
}

func B2i(b bool) int {
	if b {
		return 1
	}
	return 0
}

func (w *Workload) GenOps(n int, big bool) ([][2]int, [][]byte) {
	ops := make([][2]int, 0, n)
	vals := make([][]byte, 0, n)
	for i := 0; i < n; i++ {
		k := w.Rng.Intn(w.U.N())
		if w.Rng.Intn(5) == 0 {
			ops = append(ops, [2]int{k, 0})
			vals = append(vals, nil)
			continue
		}
		var v []byte
		var id int
		if big {
			v, id = w.VG.FreshLen(w.O.WriteBuffer/2 + w.Rng.Intn(w.O.WriteBuffer))
		} else {
			v, id = w.VG.Fresh()
		}
		ops = append(ops, [2]int{k, id})
		vals = append(vals, v)
	}
	return ops, vals
}

// ConcurrentPhase runs n writer goroutines, each owning the keys congruent to its index
// (so batches of different writers commute and the fold in completion order is exact),
// with write merging on: sync and non-sync writers are merged into common groups.
func (w *Workload) ConcurrentPhase(n, each int, seed int64) {
	var wg sync.WaitGroup
	for i := 0; i < n; i++ {
		wg.Add(1)
		go func(i int) {
			defer wg.Done()
			rng := rand.New(rand.NewSource(seed*977 + int64(i)))
			var mine []int
			for k := 0; k < w.U.N(); k++ {
				if k%n == i {
					mine = append(mine, k)
				}
			}
			if len(mine) == 0 {
				return
			}
			for j := 0; j < each; j++ {
				k := mine[rng.Intn(len(mine))]
				sync := rng.Intn(3) == 0
				w.mu.Lock()
				val, id := w.VG.FreshLen(8 + rng.Intn(60))
				w.mu.Unlock()
				b := &Batch{Ops: [][2]int{{k, id}}, Vals: [][]byte{val}, Sync: sync, Kind: "cput", BeginOp: w.Stor.NOps()}
				err := w.DB.Put(w.U.Key(k), val, &opt.WriteOptions{Sync: sync})
				w.mu.Lock()
				w.Record(b, err)
				w.mu.Unlock()
			}
		}(i)
	}
	wg.Wait()
}

func (w *Workload) Record(b *Batch, err error) {
	b.OK = err == nil
	b.AckOp = w.Stor.NOps()
	b.ID = len(w.Batches) + 1
	w.Batches = append(w.Batches, b)
	res := "ok"
	if err != nil {
		res = "fail"
	}
	w.Tr.Emit(vt.Ev{"ev": "batch", "id": b.ID, "ops": b.Ops, "sync": B2i(b.Sync), "res": res, "kind": b.Kind,
		"b": b.BeginOp, "a": b.AckOp})
}

func (w *Workload) Step() error {
	r := w.Rng.Intn(100)
	sync := w.Rng.Intn(3) == 0
	wo := &opt.WriteOptions{Sync: sync}
	switch {
	case r < 45: // single put/delete
		ops, vals := w.GenOps(1, false)
		b := &Batch{Ops: ops, Vals: vals, Sync: sync, Kind: "put", BeginOp: w.Stor.NOps()}
		var err error
		if ops[0][1] == 0 {
			err = w.DB.Delete(w.U.Key(ops[0][0]), wo)
		} else {
			err = w.DB.Put(w.U.Key(ops[0][0]), vals[0], wo)
		}
		w.Record(b, err)
		return err
	case r < 80: // batch, sometimes oversize (transaction path unless disabled)
		big := w.Rng.Intn(10) == 0
		n := 2 + w.Rng.Intn(5)
		ops, vals := w.GenOps(n, big)
		lb := new(leveldb.Batch)
		for i, o := range ops {
			if o[1] == 0 {
				lb.Delete(w.U.Key(o[0]))
			} else {
				lb.Put(w.U.Key(o[0]), vals[i])
			}
		}
		kind := "write"
		// DB.Write routes a batch through a transaction iff its internal length exceeds the write buffer
		ilen := 0
		for i, o := range ops {
			ilen += len(w.U.Keys[o[0]]) + len(vals[i]) + 8
		}
		wbuf := w.O.WriteBuffer
		if wbuf <= 0 {
			wbuf = 4 << 20
		}
		if ilen > wbuf && !w.O.DisableLargeBatchTransaction {
			kind = "bigwrite"
			sync = true // the transaction path is durable on return
		}
		b := &Batch{Ops: ops, Vals: vals, Sync: sync, Kind: kind, BeginOp: w.Stor.NOps()}
		err := w.DB.Write(lb, wo)
		w.Record(b, err)
		return err
	case r < 92: // explicit transaction; commit is durable on return
		begin := w.Stor.NOps()
		tx, err := w.DB.OpenTransaction()
		if err != nil {
			return err
		}
		var ops [][2]int
		var vals [][]byte
		for j := 0; j < 1+w.Rng.Intn(3); j++ {
			o, v := w.GenOps(1+w.Rng.Intn(4), w.Rng.Intn(8) == 0)
			for i := range o {
				if o[i][1] == 0 {
					err = tx.Delete(w.U.Key(o[i][0]), nil)
				} else {
					err = tx.Put(w.U.Key(o[i][0]), v[i], nil)
				}
				if err != nil {
					tx.Discard()
					return err
				}
			}
			ops = append(ops, o...)
			vals = append(vals, v...)
		}
		if w.Rng.Intn(4) == 0 {
			tx.Discard()
			return nil
		}
		b := &Batch{Ops: ops, Vals: vals, Sync: true, Kind: "tx", BeginOp: begin}
		err = tx.Commit()
		if err != nil {
			tx.Discard()
		}
		w.Record(b, err)
		return err
	case r < 95:
		return w.DB.CompactRange(util.Range{})
	case r < 96:
		// wipe: delete every key, then compact everything - the compactions end with empty outputs, i.e. manifest
		// edits that only delete tables (and the input files are removed right after)
		n := w.U.N()
		ops := make([][2]int, n)
		vals := make([][]byte, n)
		lb := new(leveldb.Batch)
		for k := 0; k < n; k++ {
			ops[k] = [2]int{k, 0}
			lb.Delete(w.U.Key(k))
		}
		b := &Batch{Ops: ops, Vals: vals, Sync: true, Kind: "write", BeginOp: w.Stor.NOps()}
		err := w.DB.Write(lb, &opt.WriteOptions{Sync: true})
		w.Record(b, err)
		if err != nil {
			return err
		}
		if err := w.DB.CompactRange(util.Range{}); err != nil {
			return err
		}
		return w.DB.CompactRange(util.Range{})
	default:
		// clean close + reopen inside the workload
		if err := w.DB.Close(); err != nil {
			return err
		}
		db, err := leveldb.Open(w.Stor, w.O)
		if err != nil {
			return err
		}
		w.DB = db
		return nil
	}
}

func ReadAll(db *leveldb.DB, u *vt.Universe, in *vt.Interner) ([][2]int, error) {
	var st [][2]int
	for k := 0; k < u.N(); k++ {
		v, err := db.Get(u.Key(k), nil)
		if err == leveldb.ErrNotFound {
			continue
		}
		if err != nil {
			return nil, fmt.Errorf("get %d: %v", k, err)
		}
		st = append(st, [2]int{k, in.Lookup(v)})
	}
	// the iterator must agree with the point reads
	it := db.NewIterator(nil, nil)
	i := 0
	for it.Next() {
		k := u.Rank(it.Key())
		if i >= len(st) || st[i][0] != k || st[i][1] != in.Lookup(it.Value()) {
			it.Release()
			return nil, fmt.Errorf("iterator disagrees with Get at position %d (key %d)", i, k)
		}
		i++
	}
	err := it.Error()
	it.Release()
	if err != nil {
		return nil, err
	}
	if i != len(st) {
		return nil, fmt.Errorf("iterator yields %d pairs, point reads %d", i, len(st))
	}
	return st, nil
}
