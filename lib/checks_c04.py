"""C04: crash at any instant. Design: Durable.tla (CrashSafe over every crash point and admissible
image of the model). Verdict: the REAL DB reopened on post-crash images of recorded workloads at every
storage-operation index x 5 image classes (+ crash during recovery), judged by CrashTrace.tla."""
import json
import os

from kvfam import neutralise_line, validate_traces
from vlib import (HarnessError, build, finish, log, mc_coverage, parallel, read_line, report_violation,
                  run_driver, save_replay, tlc_mc, tlc_trace, trace_lines)

ASSUME = ["storage contract: Create/Remove/Rename/SetMeta are atomic and durable on return; file data is durable up to the last successful Sync; "
          "after a crash each file keeps its synced prefix plus any prefix of the rest, possibly followed by zeros or garbage",
          "the witness subset is proposed by the harness and checked by TLC (CrashTrace.tla CrashSafe)",
          "for the real file storage, SetMeta's part of that contract is not assumed but checked (spec/FileStore.tla) under this file-system model: "
          "directory operations are volatile until the directory is fsynced and any subsequence of them may survive a crash, unsynced file data may be "
          "lost, cut or garbage, rename is atomic; strace reports the system calls faithfully",
          "TLC, the Json module, the harness's recording storage and image builder (harness/internal/vt/recstor.go) are trusted"]


def sig_of(ev):
    if ev.get("ev") == "recovered":
        if ev.get("ok") != 1:
            if ev.get("nometa") == 1:
                return "c04:openfail:no-current-yet"
            return "c04:openfail:depth%s" % ev.get("depth")
        return "c04:contents:depth%s" % ev.get("depth")
    return "c04:followup:%s" % ev.get("ev")


def crash_runs(ctx, nprog, nsteps, stride, nested, usage, extra=None):
    exe = build("crashdb")
    seeds = [ctx.seed * 1000 + i for i in range(nprog)]

    def drive(seed):
        out = ctx.path("crash-%d.ndjson" % seed)
        args = [exe, "-seed", str(seed), "-n", str(nsteps), "-out", out, "-stride", str(stride), "-nested", str(nested),
                "-usage", str(usage), "-par", "4"] + (extra or [])
        if seed % 2 == 1:
            args += ["-writers", str(2 + seed % 3)]     # a phase of merged concurrent writers (sync and non-sync in one group)
        s = run_driver(args, timeout=3000)
        s["path"] = out
        s["cmd"] = " ".join(args)
        return s

    return parallel(drive, seeds, workers=8)


def judge(ctx, sums, spec="CrashTrace.tla", cfg="CrashTrace.cfg", sigf=sig_of):
    pending = sums
    for _round in range(40):
        fails = validate_traces(ctx, spec, cfg, pending, chunk=4)
        pending = []
        for t, r in fails:
            line = read_line(t["path"], r["hwm"]) or "{}"
            ev = json.loads(line)
            sig = sigf(ev)
            what = "line %d of %s rejected by %s: %s (row: %s)" % (r["hwm"], os.path.basename(t["path"]), spec, line[:400], t["row"])
            rp = save_replay(ctx, "seed%d-line%d" % (t["seed"], r["hwm"]), [t["path"]],
                             {"property": ctx.pid, "cmd": t["cmd"], "stuck_line": r["hwm"], "event": ev, "row": t["row"],
                              "replay": "TRACE=<trace> tlc -workers 1 -config %s %s (in /verif/spec)" % (cfg, spec)})
            report_violation(ctx, sig, what, rp)
            # keep checking the rest of the trace whatever the verdict on this line
            neutralise_line(t["path"], r["hwm"])
            pending.append(t)
        if not pending:
            break


def main(ctx):
    tlc_mc(ctx, "Durable.tla", "Durable_quick.cfg" if ctx.quick else "Durable_thorough.cfg", timeout=1500,
           label="Durable.tla CrashSafe, repaired code")
    if not ctx.quick:
        for n in ("F2", "F3"):
            r = tlc_mc(ctx, "Durable.tla", "Durable_ascoded_%s.cfg" % n, timeout=600, expect_violation=True,
                       label="Durable.tla with defect %s as it was coded (must be violated: non-vacuity)" % n)
            if not r["violated"]:
                raise HarnessError("Durable.tla no longer exposes %s: CrashSafe is vacuous?" % n)
    if ctx.quick:
        sums = crash_runs(ctx, 8, 120, 1, 30, 6)
    else:
        sums = crash_runs(ctx, 48, 400, 1, 150, 12)
    judge(ctx, sums)
    from fstor import fstor_part
    fstor_part(ctx)      # the real file storage's CURRENT protocol (what the first assumption below says about SetMeta)
    tot = {}
    for s in sums:
        for k in ("batches", "storage_ops", "crash_points", "reopens", "nested_reopens", "distinct_outcomes",
                  "outcomes_differing_from_clean", "followups"):
            tot[k] = tot.get(k, 0) + s[k]
    ctx.samples.append({"workload": sums[0]["cmd"], "recovered_lines": [x for x in trace_lines(sums[0]["path"], 1, 400)
                                                                           if x.get("ev") == "recovered"][:3]})
    cov = mc_coverage(ctx, {
        "evaluations": tot["reopens"] + tot["nested_reopens"],
        "distinct_nontrivial": tot["outcomes_differing_from_clean"],
        "rule": "one evaluation = the real DB reopened on the image of one (storage-operation index, image class) pair, or of a second crash "
                "at one operation index of that recovery; distinct_nontrivial = distinct (must-have set, begun set, recovered contents) "
                "outcomes that differ from the clean-shutdown contents, summed over workloads",
        "exhaustive": True, "workloads": len(sums), "totals": tot,
        "image_classes": ["lost", "kept", "cut", "cut+zeros", "cut+garbage"],
        "option_rows": sorted(set(s["row"] for s in sums))})
    return finish(ctx, "fault_enumeration", cov, ASSUME)


def replay(ctx, path):
    import glob
    bad = 0
    for f in sorted(glob.glob(os.path.join(path, "*.ndjson"))):
        b = os.path.basename(f)
        if b.startswith("fs-image"):
            from fstor import replay_image
            if replay_image(ctx, f, json.load(open(os.path.join(path, "meta.json")))):
                bad += 1
                print("VIOLATION property=%s replay=%s" % (ctx.pid, path))
            continue
        if b.startswith("fstrace-"):
            r = tlc_trace(ctx, "FileStoreTrace.tla", "FileStoreTrace.cfg", f)
        else:
            r = tlc_trace(ctx, "CrashTrace.tla", "CrashTrace.cfg", f)
        if not r["accepted"]:
            bad += 1
            print("VIOLATION property=%s replay=%s" % (ctx.pid, path))
            log("  line %d: %s" % (r["hwm"], r["stuck"]))
    ctx.cleanup()
    return 1 if bad else 0
