from concfam import ASSUME, conc_runs, judge, replay as _replay
from vlib import HarnessError, finish, mc_coverage, tlc_mc, trace_lines


def gate_replay(ctx):
    """spec -> code: every schedule TLC enumerates from ReadPathGen.tla is forced on the real DB through the gate hooks."""
    import json
    import os
    from kvfam import validate_traces
    from vlib import build, parallel, read_line, report_violation, run_driver, save_replay
    r = tlc_mc(ctx, "ReadPathGen.tla", "ReadPathGen.cfg", timeout=900, workers=1,
               label="ReadPathGen.tla: all interleavings of one reader with write/rotate/flush steps (schedule generation)")
    sched = ctx.path("schedules.txt")
    with open(sched, "w") as f:
        f.write("\n".join(x for x in r["out"].splitlines() if "VERIF-SCHED" in x) + "\n")
    nsched = sum(1 for x in open(sched) if "VERIF-SCHED" in x)
    exe = build("gatedb")
    nproc = 8
    stride = (2 if ctx.quick else 1) * nproc

    def drive(i):
        out = ctx.path("gate-%d.ndjson" % i)
        off = (ctx.seed % 2) * nproc + i if ctx.quick else i
        s = run_driver([exe, "-in", sched, "-out", out, "-stride", str(stride), "-offset", str(off)], timeout=1200)
        s["path"], s["seed"], s["row"], s["cmd"] = out, i, "gate", "gatedb -stride %d -offset %d" % (stride, off)
        return s

    sums = parallel(drive, list(range(nproc)), workers=nproc)
    fails = validate_traces(ctx, "ReadPathTrace.tla", "ReadPathTrace.cfg", sums, chunk=1)
    for t, rr in fails:
        line = read_line(t["path"], rr["hwm"]) or "{}"
        ev = json.loads(line)
        ctxl = trace_lines(t["path"], max(1, rr["hwm"] - 14), rr["hwm"])
        rp = save_replay(ctx, "gate-%d-line%d" % (t["seed"], rr["hwm"]), [t["path"]],
                         {"property": ctx.pid, "stuck_line": rr["hwm"], "event": ev, "schedule_and_answer": ctxl})
        report_violation(ctx, "c05:gate:%s" % ev.get("ev"),
                         "forced schedule: the real reader's answer differs from ReadPath.tla's: %s" % json.dumps(ctxl)[-700:], rp)
    ctx.extra["schedules_generated_by_tlc"] = nsched
    ctx.extra["schedule_runs_on_real_code"] = sum(s["runs"] for s in sums)
    ctx.extra["point_reads_answered_from_buffers"] = sum(s["answered_from_buffers"] for s in sums)


def main(ctx):
    tlc_mc(ctx, "ReadPath.tla", "ReadPath_quick.cfg", timeout=900, label="ReadPath.tla: reader acquisition order vs publication, as coded")
    if not ctx.quick:
        for m in (1, 2, 3):
            r = tlc_mc(ctx, "ReadPath.tla", "ReadPath_mutant%d.cfg" % m, timeout=600, expect_violation=True,
                       label="ReadPath.tla with one pair of steps swapped (must be violated: non-vacuity)")
            if not r["violated"]:
                raise HarnessError("ReadPath mutant %d no longer violates ReadCorrect" % m)
    gate_replay(ctx)
    n = 64 if ctx.quick else 240
    jobs = [{"seed": ctx.seed * 1000 + i, "tag": "lin", "writers": 2 + i % 3, "readers": 2 + i % 3,
             "n": 140 if ctx.quick else 400} for i in range(n)]
    sums = conc_runs(ctx, jobs)
    judge(ctx, sums, "C05", cfg="ConcTraceLin.cfg")
    ctx.samples.append({"run": sums[0]["cmd"], "lines": trace_lines(sums[0]["path"], 2, 12)})
    return finish(ctx, "model_checking", mc_coverage(ctx), ASSUME)


def replay(ctx, path):
    return _replay(ctx, path)
