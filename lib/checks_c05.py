from concfam import ASSUME, conc_runs, judge, replay as _replay
from vlib import HarnessError, finish, mc_coverage, tlc_mc, trace_lines


def main(ctx):
    tlc_mc(ctx, "ReadPath.tla", "ReadPath_quick.cfg", timeout=900, label="ReadPath.tla: reader acquisition order vs publication, as coded")
    if not ctx.quick:
        for m in (1, 2, 3):
            r = tlc_mc(ctx, "ReadPath.tla", "ReadPath_mutant%d.cfg" % m, timeout=600, expect_violation=True,
                       label="ReadPath.tla with one pair of steps swapped (must be violated: non-vacuity)")
            if not r["violated"]:
                raise HarnessError("ReadPath mutant %d no longer violates ReadCorrect" % m)
    n = 28 if ctx.quick else 240
    jobs = [{"seed": ctx.seed * 1000 + i, "tag": "lin", "writers": 2 + i % 3, "readers": 2 + i % 3,
             "n": 140 if ctx.quick else 400} for i in range(n)]
    sums = conc_runs(ctx, jobs)
    judge(ctx, sums, "C05")
    ctx.samples.append({"run": sums[0]["cmd"], "lines": trace_lines(sums[0]["path"], 2, 12)})
    return finish(ctx, "model_checking", mc_coverage(ctx), ASSUME)


def replay(ctx, path):
    return _replay(ctx, path)
