from lsmfam import C06_KINDS, replay as _replay, run


def main(ctx):
    return run(ctx, C06_KINDS)


def replay(ctx, path):
    return _replay(ctx, path)
