from lsmfam import C07_KINDS, replay as _replay, run


def main(ctx):
    return run(ctx, C07_KINDS)


def replay(ctx, path):
    return _replay(ctx, path)
