"""C08: storage errors never cause wrong answers or loss of acknowledged writes."""
import json
import os

from faultfam import fault_runs
from kvchecks import kv_replay
from kvfam import kv_design_mc, neutralise_line, validate_traces
from vlib import finish, mc_coverage, read_line, report_violation, save_replay, tlc_mc, trace_lines

ASSUME = ["a failed storage operation has no effect except a torn write, which leaves a prefix of the data in the file",
          "one fault position (possibly repeated or persistent until healed) per run; positions: operation kind x file type x index",
          "a call that blocks is not judged here (that is C09); the trace is cut at that point",
          "TLC, the Json module and the harness's fault-injecting storage are trusted"]


def main(ctx):
    kv_design_mc(ctx)
    tlc_mc(ctx, "Durable.tla", "Durable_faults.cfg", timeout=900, label="Durable.tla CrashSafe with failing journal Sync")
    if ctx.quick:
        refs, sums = fault_runs(ctx, 3, 260, 6, 8)
    else:
        refs, sums = fault_runs(ctx, 10, 400, 12, 10, exhaustive_cap=40)
    hangs = 0
    pending = sums
    for _round in range(6):
        fails = validate_traces(ctx, "KVTrace.tla", "KVTrace.cfg", pending, chunk=8)
        pending = []
        for t, r in fails:
            line = read_line(t["path"], r["hwm"]) or "{}"
            ev = json.loads(line)
            if ev.get("ev") == "hang":
                hangs += 1           # C09's business; everything before it was validated
                ctx.traces_ok += 1
                ctx.trace_events += r["hwm"] - 1
                continue
            sig = "c08:%s:%s" % (ev.get("ev"), t["fault"].split(":")[0] + ":" + t["fault"].split(":")[1])
            if ev.get("ev") == "reopen" and ev.get("err") == "corrupt":
                before = trace_lines(t["path"], 1, r["hwm"])
                failed_commit = any(x.get("ev") == "txcommit" and x.get("err") == "fail" for x in before) or \
                    any(x.get("ev") == "write" and x.get("big") == 1 and x.get("err") == "fail" for x in before)
                if failed_commit and t["fault"].split(":")[1] == "manifest" and t["fault"].split(":")[0] in ("sync", "write"):
                    sig = "c08:reopen:corrupt:manifest-edit-of-failed-then-discarded-transaction"
            what = "fault %s: line %d of %s not explained by KV.tla: %s (row: %s)" % (
                t["fault"], r["hwm"], os.path.basename(t["path"]), line[:300], t["row"])
            rp = save_replay(ctx, "seed%d-%s" % (t["seed"], t["fault"].replace(":", "_")), [t["path"]],
                             {"property": ctx.pid, "cmd": t["cmd"], "stuck_line": r["hwm"], "event": ev, "row": t["row"],
                              "context": trace_lines(t["path"], max(1, r["hwm"] - 10), r["hwm"])})
            if not report_violation(ctx, sig, what, rp):
                neutralise_line(t["path"], r["hwm"])
                pending.append(t)
        if not pending:
            break
    injected = [s for s in sums if s.get("injected", 0) > 0]
    kinds = sorted(set(":".join(s["fault"].split(":")[:2]) for s in injected))
    ctx.samples.append({"run": sums[0]["cmd"], "events": trace_lines(sums[0]["path"], 1, 5)})
    cov = mc_coverage(ctx, {
        "evaluations": len(sums),
        "distinct_nontrivial": len(set(s["fault"] + str(s["seed"]) for s in injected)),
        "rule": "one evaluation = the seeded workload re-run with one fault position (kind:filetype:index:repetitions[:torn]); "
                "non-trivial = the fault was actually injected at least once",
        "fault_kinds_injected": kinds, "runs_with_blocked_call_not_judged_here": hangs,
        "reference_runs": len(refs)})
    return finish(ctx, "fault_enumeration", cov, ASSUME)


def replay(ctx, path):
    return kv_replay(ctx, path)
