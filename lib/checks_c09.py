"""C09: no call blocks forever and Close always returns.
Design: Locks.tla (write lock, commit lock, transaction mutex, flush goroutine, Close, fault budget): NoLeak, NoStuck and
<>(all calls returned) under fairness. Real code: (a) the fault enumeration of C08 where a call that does not return (after the
faults were healed) is the violation; (b) concurrent histories with Close racing and with storage faults, judged by ConcTrace.tla
(quiesce: nothing pending; a finished call holds neither lock)."""
import json
import os
import random

from concfam import ASSUME, conc_runs, judge, replay as _replay
from faultfam import fault_runs
from kvfam import validate_traces
from vlib import HarnessError, finish, mc_coverage, read_line, report_violation, save_replay, tlc_mc, trace_lines


def main(ctx):
    tlc_mc(ctx, "Locks.tla", "Locks_quick.cfg", timeout=900, label="Locks.tla repaired protocol (writers, transaction, flush and table-compaction goroutines, Close, transient faults): NoLeak NoStuck")
    tlc_mc(ctx, "Locks.tla", "Locks_largebatch.cfg", timeout=900, label="Locks.tla with the oversize-batch writer: NoLeak NoStuck")
    tlc_mc(ctx, "Locks.tla", "Locks_live_quick.cfg", timeout=900,
           label="Locks.tla with a sticky manifest error (compaction commits retried for ever): every client call and Close still return (Live, per-process fairness)")
    tlc_mc(ctx, "Locks.tla", "Locks_setro.cfg", timeout=900,
           label="Locks.tla with a client calling SetReadOnly (lock handed to the error goroutine, given back at Close): NoLeak NoStuck Live")
    if not ctx.quick:
        tlc_mc(ctx, "Locks.tla", "Locks_thorough.cfg", timeout=3000, label="Locks.tla two writers, 3 faults: NoLeak NoStuck Live")
        tlc_mc(ctx, "Locks.tla", "Locks_sticky_F9.cfg", timeout=1800, label="Locks.tla two writers, sticky manifest error: Live")
        for f in ("F6", "F7", "F8", "F9", "F30"):
            r = tlc_mc(ctx, "Locks.tla", "Locks_ascoded_%s.cfg" % f, timeout=600, expect_violation=True,
                       label="Locks.tla with defect %s as it was coded (must be violated: non-vacuity)" % f)
            if not r["violated"]:
                raise HarnessError("Locks.tla no longer exposes %s" % f)
    # (a) sequential workload x fault positions: a blocked call is the violation
    if ctx.quick:
        refs, sums = fault_runs(ctx, 2, 240, 5, 10)
    else:
        refs, sums = fault_runs(ctx, 8, 400, 10, 15, exhaustive_cap=30)
    hung = [s for s in sums if s.get("hung")]
    for s in hung:
        ev = trace_lines(s["path"], s["events"], s["events"])[0]
        prev = [x for x in trace_lines(s["path"], max(1, s["events"] - 12), s["events"] - 1) if x.get("ev") not in ("note",)]
        lastfail = next((x.get("ev") for x in reversed(prev) if str(x.get("err", "")).startswith("fail")), "none")
        where = str(ev.get("where", "")).split("(")[-2].strip("*.) ") if "(" in str(ev.get("where", "")) else "?"
        sig = "c09:hang:%s:after-failed-%s:%s" % (str(ev.get("where", "")).split("@")[0].split("(0x")[0], lastfail, s["fault"].split(":")[0] + ":" + s["fault"].split(":")[1])
        what = "fault %s: a call never returned although the faults had stopped: %s" % (s["fault"], json.dumps(ev)[:600])
        rp = save_replay(ctx, "seq-seed%d-%s" % (s["seed"], s["fault"].replace(":", "_")), [s["path"]],
                         {"property": ctx.pid, "cmd": s["cmd"], "hang": ev, "before": prev[-6:]})
        report_violation(ctx, sig, what, rp)
    ctx.extra["sequential_fault_runs"] = len(sums)
    ctx.extra["sequential_runs_with_blocked_call"] = len(hung)
    # (b) concurrent histories: Close racing, storage faults, both
    rng = random.Random(ctx.seed)
    faults = ["sync:journal", "write:journal", "create:table", "write:table", "sync:table", "write:manifest", "sync:manifest",
              "create:journal", "remove:table", "open:table", "read:table"]
    n = 12 if ctx.quick else 120
    jobs = []
    for i in range(n):
        seed = ctx.seed * 1000 + i
        jobs.append({"seed": seed, "tag": "close", "close": True, "writers": 2 + i % 4})
        f = "%s:%d:%d" % (faults[i % len(faults)], rng.randint(1, 12), rng.choice([1, 1, 3, 0]))
        jobs.append({"seed": seed, "tag": "fault-" + f.replace(":", "_"), "fault": f, "writers": 3 + i % 3, "fat": 3})
        jobs.append({"seed": seed, "tag": "faultclose-" + f.replace(":", "_"), "fault": f, "close": True, "writers": 3 + i % 3, "fat": 3})
        # journal faults while groups overflow: the error path of the hand-off
        jf = "%s:journal:%d:%d" % (rng.choice(["write", "sync"]), rng.randint(2, 40), rng.choice([1, 3, 0]))
        jobs.append({"seed": seed, "tag": "jfault-" + jf.replace(":", "_"), "fault": jf, "writers": 5, "fat": 2})
    # SetReadOnly at a random moment, racing the writers and (half of the time) Close
    for i in range(16 if ctx.quick else 160):
        seed = ctx.seed * 1000 + 700 + i
        jobs.append({"seed": seed, "tag": "setro" + ("-close" if i % 2 == 0 else ""), "setro": True, "close": i % 2 == 0,
                     "writers": 2 + i % 3, "n": 60})
    csums = conc_runs(ctx, jobs)
    judge(ctx, csums, "C09")
    ctx.extra["concurrent_runs_with_fault_injected"] = sum(1 for s in csums if s.get("injected", 0) > 0)
    ctx.samples.append({"run": csums[0]["cmd"], "last_lines": trace_lines(csums[0]["path"], max(1, csums[0]["events"] - 3), csums[0]["events"])})
    return finish(ctx, "model_checking", mc_coverage(ctx), ASSUME)


def replay(ctx, path):
    return _replay(ctx, path)
