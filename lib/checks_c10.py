from concfam import ASSUME, conc_runs, judge, replay as _replay
from vlib import finish, mc_coverage, tlc_mc, trace_lines


def main(ctx):
    tlc_mc(ctx, "WriteProto.tla", "WriteProto_quick.cfg", timeout=900, label="WriteProto.tla: Mutex ExactlyOne NoOrphan LockFreeAtEnd Terminates")
    n = 48 if ctx.quick else 160
    jobs = []
    for i in range(n):
        seed = ctx.seed * 1000 + i
        jobs.append({"seed": seed, "tag": "plain", "writers": 2 + i % 5, "readers": 1, "n": 140 if ctx.quick else 400})
        jobs.append({"seed": seed, "tag": "close", "writers": 2 + i % 5, "readers": 1, "n": 140 if ctx.quick else 400, "close": True})
    sums = conc_runs(ctx, jobs)
    judge(ctx, sums, "C10")
    hk = {}
    for s in sums[:8]:
        for x in trace_lines(s["path"], 1, 100000):
            if x.get("ev") == "hk":
                hk[x["h"]] = hk.get(x["h"], 0) + 1
    ctx.samples.append({"run": sums[0]["cmd"], "hook_lines_in_first_8_histories": hk,
                        "lines": [x for x in trace_lines(sums[0]["path"], 1, 60) if x.get("ev") == "hk"][:8]})
    return finish(ctx, "model_checking", mc_coverage(ctx), ASSUME)


def replay(ctx, path):
    return _replay(ctx, path)
