"""C12 journal framing round-trips and contains damage.

1. spec/Journal.tla (writer fields and calls of journal.Writer on lengths; the reader's
   resynchronisation rule transcribed as Read) is model-checked exhaustively with a 16-byte block
   (JournalMC): layout laws, round trip, TolerantMon / StrictMon, nothing invented, and the lemma
   that lets a range of truncation offsets be validated at its break points.
2. spec -> code: TLC simulates JournalGen (same actions, REAL block size, Write sizes from the
   block-end residue classes) and prints action sequences; harness/cmd/jrn executes them on the real
   journal.Writer, damages the file (every truncation offset, foreign tails, byte flips) and reads it
   with the real journal.Reader, tolerant and strict, checksums on.
3. code -> spec: TLC validates every recorded line against Journal.tla through JournalTrace.tla.
"""
import glob
import json
import os
import re
import shutil
import subprocess
import time

from vlib import (SPEC, HarnessError, build, finish, log, mc_coverage, ncpu, parallel, report_violation,
                  run_driver, save_replay, tlc_mc, tlc_trace)

ASSUME = ["TLC and the CommunityModules Json reader are trusted",
          "the driver's own chunk parser, CRC-32C and content-derived record labels are trusted (harness/cmd/jrn)",
          "a changed byte always fails the chunk's CRC-32C (collisions, probability 2^-32 per trial, are ignored); "
          "foreign tail bytes never form a chunk with a valid checksum",
          "a range of truncation offsets is validated by TLC at its break points (chunk start, end of header, chunk end); "
          "lemma TruncPiecewiseConstant, model-checked with the 16-byte block, covers the offsets between them "
          "(the real reader was run at EVERY offset of the range and gave one outcome)",
          "the reading client reads every yielded record to its end before asking for the next one",
          "the model-checked block is 16 bytes with a 7-byte header; the real 32 KiB block is reached by trace validation only"]

TIERS = {  # sequences wanted, generator processes, traces per generator, parts (driver processes)
    "quick": dict(want=320, gens=8, per_gen=60, parts=16, mc="JournalMC_quick.cfg", allmax=3 * 32768 + 4096),
    "thorough": dict(want=1400, gens=16, per_gen=120, parts=64, mc="JournalMC_thorough.cfg", allmax=5 * 32768 + 4096),
}
_re_seq = re.compile(r'<<\s*"VERIF-SEQ",\s*<<([^>]*)>>\s*>>', re.S)
_re_gen = re.compile(r"The number of states generated: (\d+)")


def generate(ctx, t):
    """TLC in simulation mode over JournalGen: behaviours of the spec, real block size."""
    def one(k):
        md = ctx.path("gen-md-%d" % k)
        args = ["timeout", "600", "tlc", "-simulate", "num=%d" % t["per_gen"], "-depth", "64",
                "-seed", str(ctx.seed * 1000 + k), "-workers", "1", "-metadir", md, "-noGenerateSpecTE",
                "-config", "JournalGen.cfg", "JournalGen.tla"]
        p = subprocess.run(args, cwd=SPEC, capture_output=True, text=True, env=dict(os.environ, JAVA_TOOL_OPTIONS="-Xmx2g"))
        shutil.rmtree(md, ignore_errors=True)
        out = p.stdout + "\n" + p.stderr
        if "Error:" in out or "is violated" in out or not _re_gen.search(out):
            raise HarnessError("generation from JournalGen failed (rc=%s):\n%s" % (p.returncode, out[-3000:]))
        seqs = [[int(x) for x in m.replace("\n", " ").split(",") if x.strip()] for m in _re_seq.findall(out)]
        return seqs, int(_re_gen.search(out).group(1))
    res = parallel(one, list(range(t["gens"])))
    seen, seqs, states = set(), [], 0
    for ss, st in res:
        states += st
        for s in ss:
            if tuple(s) not in seen:
                seen.add(tuple(s))
                seqs.append(s)
    total = sum(len(ss) for ss, _ in res)
    if len(seqs) < t["want"] * 0.8:
        raise HarnessError("JournalGen produced only %d distinct sequences (wanted %d)" % (len(seqs), t["want"]))
    return seqs[:t["want"]], total, states


def drive(ctx, exe, part, seqs, allmax, tag="p"):
    sf = ctx.path("%s%d.seqs" % (tag, part))
    with open(sf, "w") as f:
        for s in seqs:
            f.write(json.dumps(s) + "\n")
    out = ctx.path("%s%d.ndjson" % (tag, part))
    args = [exe, "-seqs", sf, "-out", out, "-seed", str(ctx.seed), "-alltrunc", str(len(seqs)), "-allmax", str(allmax)]
    s = run_driver(args, timeout=3000)
    s.update(path=out, seqfile=sf, seqs=seqs, cmd=" ".join(args), part=part)
    return s


def split_sequences(path):
    """[(first line number, [lines])] per sequence (a sequence starts at its reset line)."""
    out = []
    with open(path) as f:
        for n, line in enumerate(f, 1):
            if '"ev":"reset"' in line or not out:
                out.append((n, []))
            out[-1][1].append(line)
    return out


def validate_part(ctx, t):
    """Validate one driver trace; a rejected sequence is cut out and the rest validated again.
    Returns (sequences accepted, lines accepted, failures)."""
    fails = []
    path = t["path"]
    seqs = split_sequences(path)
    ops = list(t["seqs"])
    ok_seqs = ok_lines = 0
    for _round in range(8):
        if not seqs:
            break
        r = tlc_trace(ctx, "JournalTrace.tla", "JournalTrace.cfg", path, timeout=1200)
        if r["accepted"]:
            ok_seqs += len(seqs)
            ok_lines += sum(len(x[1]) for x in seqs)
            break
        # locate the rejected sequence
        pos, k = 0, 0
        for k, (_n, lines) in enumerate(seqs):
            if pos + len(lines) >= r["hwm"]:
                break
            pos += len(lines)
        ok_seqs += k
        ok_lines += pos
        bad_lines = seqs[k][1]
        line = bad_lines[min(r["hwm"] - pos, len(bad_lines)) - 1]
        fails.append(dict(part=t["part"], ops=ops[k], lines=bad_lines, at=r["hwm"] - pos, line=line.strip(),
                          kinds=sorted(set(re.findall(r'"(reader-rule|property)"', " ".join(r["monitors"])))),
                          stuck=r["stuck"]))
        seqs, ops = seqs[k + 1:], ops[k + 1:]
        path = ctx.path("rest-%d-%d.ndjson" % (t["part"], _round))
        with open(path, "w") as f:
            for _n, lines in seqs:
                f.writelines(lines)
    return ok_seqs, ok_lines, fails


def describe(fl):
    ev = json.loads(fl["line"])
    if ev.get("ev") == "hang":
        return "c12:hang", "a read of a (damaged) journal never returned: %s" % ev.get("where")
    if ev.get("ev") == "panic":
        return "c12:panic:%s" % ev.get("where", "?").split()[0], "the real code panicked (%s): %s" % (ev.get("where"), ev.get("what"))
    if ev.get("ev") == "w":
        return "c12:w:%s" % ev.get("op"), ("writer call %s(len=%s) is not a step of Journal.tla with the recorded outcome "
                                            "(err=%s size=%s file=%s new chunks=%s)" % (ev.get("op"), ev.get("len"), ev.get("err"),
                                                                                         ev.get("size"), ev.get("blen"), ev.get("new")))
    kinds = fl["kinds"] or ["?"]
    what = []
    if "property" in kinds:
        what.append("the yielded records are not admitted by the property monitors (a record not written, order broken, "
                    "a record lost that touches no damaged block, or strict mode did not stop with a corruption error)")
    if "reader-rule" in kinds:
        what.append("the yielded records differ from the transcribed reader rule of Journal.tla")
    return "c12:rd:%s" % "+".join(kinds), "damage trial cut=%s..%s tail=%s flips=%s/%s: %s; tolerant=%s strict=%s/%s" % (
        ev.get("lo"), ev.get("hi"), ev.get("tail"), ev.get("sim"), ev.get("alt"), "; ".join(what) or "no spec step",
        ev.get("gt"), ev.get("gs"), ev.get("es"))


def driver():
    """harness/cmd/jrn built against /repo; VERIF_C12_DRIVER substitutes a binary built against a
    mutated copy of the repository (sensitivity experiments only)."""
    return os.environ.get("VERIF_C12_DRIVER") or build("jrn")


def main(ctx):
    t = TIERS[ctx.tier]
    # the specs of this check are small: a bounded heap keeps a dozen parallel validators cheap
    os.environ.setdefault("JAVA_TOOL_OPTIONS", "-Xmx4g")
    tlc_mc(ctx, "JournalMC.tla", t["mc"], timeout=1500, label="Journal framing, block 16 (%s)" % t["mc"])
    exe = driver()
    seqs, generated, gen_states = generate(ctx, t)
    log("C12: %d distinct sequences from TLC (%d behaviours, %d states) at %.0f s" % (len(seqs), generated, gen_states, time.time() - ctx.t0))
    parts = [seqs[k::t["parts"]] for k in range(t["parts"])]
    parts = [p for p in parts if p]
    sums = parallel(lambda kp: drive(ctx, exe, kp[0], kp[1], t["allmax"]), list(enumerate(parts)))
    stats = {}
    for s in sums:
        for k, v in s["stats"].items():
            stats[k] = max(stats.get(k, 0), v) if k == "max_blocks" else stats.get(k, 0) + v
    missing = [k for k in ["residue_%d" % r for r in range(8)] + ["empty_records", "multi_block_records", "strict_errors",
                                                                     "trials_with_loss", "tails", "multi", "flips"]
               if stats.get(k, 0) == 0]
    if missing and not any(x.get("hung") or x.get("panicked") for x in sums):
        raise HarnessError("generated sequences / damage trials did not reach: %s" % missing)
    log("C12: driver done at %.0f s: %d damage trials, %d trace lines" % (time.time() - ctx.t0, stats.get("reads", 0) // 2, stats.get("lines", 0)))
    results = parallel(lambda s: validate_part(ctx, s), sums, workers=min(ncpu(), 12))
    log("C12: traces validated at %.0f s" % (time.time() - ctx.t0))
    nfail = 0
    per_sig = {}
    for s, (okq, okl, fails) in zip(sums, results):
        ctx.traces_ok += okq
        ctx.trace_events += okl
        for fl in fails:
            nfail += 1
            sig, what = describe(fl)
            per_sig[sig] = per_sig.get(sig, 0) + 1
            if per_sig[sig] > 3:      # three replays per kind of failure are kept, all are counted
                continue
            name = "seq-%d-%d" % (fl["part"], nfail)
            tf = ctx.path(name + ".ndjson")
            open(tf, "w").writelines(fl["lines"])
            of = ctx.path(name + ".seqs")
            open(of, "w").write(json.dumps(fl["ops"]) + "\n")
            rp = save_replay(ctx, name, [tf, of],
                             {"property": ctx.pid, "ops": fl["ops"], "codes": "-1 Next, -2 Flush, -3 Close, n>=0 Write(n)",
                              "seed": ctx.seed, "allmax": t["allmax"], "rejected_line": fl["at"], "event": json.loads(fl["line"]),
                              "failed": fl["kinds"], "what": what,
                              "replay": "./check C12 --replay <this directory>  (re-runs harness/cmd/jrn on the sequence and "
                                        "validates the new and the stored trace: TRACE=<trace> tlc -workers 1 -config "
                                        "JournalTrace.cfg JournalTrace.tla in /verif/spec)"})
            report_violation(ctx, sig, what, rp)
    if sums:
        ctx.samples.append({"sequence (op codes: -1 Next, -2 Flush, -3 Close, n Write(n))": sums[0]["seqs"][0],
                            "first_events": [json.loads(x) for x in open(sums[0]["path"]).readlines()[:7]]})
        if len(sums) > 1:
            ctx.samples.append({"sequence": sums[1]["seqs"][0]})
    extra = {"sequences_generated_by_tlc": generated, "generator_states": gen_states,
             "sequences_executed": stats.get("sequences", 0), "writer_calls": stats.get("actions", 0),
             "records_written": stats.get("records", 0), "chunks_written": stats.get("chunks", 0),
             "file_bytes": stats.get("file_bytes", 0), "max_blocks": stats.get("max_blocks", 0),
             "empty_records": stats.get("empty_records", 0), "multi_block_records": stats.get("multi_block_records", 0),
             "chunks_ending_k_bytes_before_block_end": {str(r): stats.get("residue_%d" % r, 0) for r in range(8)},
             "damage_trials": stats.get("reads", 0) // 2, "reader_runs": stats.get("reads", 0),
             "truncation_offsets": stats.get("truncations", 0),
             "sequences_truncated_at_every_offset": stats.get("exhaustive_truncation_sequences", 0),
             "bytes_flipped": stats.get("flips", 0), "cut_and_tail_trials": stats.get("tails", 0),
             "multi_flip_trials": stats.get("multi", 0), "records_kept": stats.get("kept", 0),
             "records_lost": stats.get("lost", 0), "trials_with_loss": stats.get("trials_with_loss", 0),
             "strict_mode_errors": stats.get("strict_errors", 0), "dropper_calls": stats.get("dropper_calls", 0),
             "panics": stats.get("panics", 0), "damage_lines": stats.get("rd_lines", 0),
             "sequences_rejected": nfail, "rejected_by_kind": per_sig}
    return finish(ctx, "model_checking", mc_coverage(ctx, extra), ASSUME)


def replay(ctx, path):
    """Re-run the stored sequence on the current code and validate the new trace (verdict); the stored
    trace is validated too, for the record. Without meta.json the stored traces give the verdict."""
    os.environ.setdefault("JAVA_TOOL_OPTIONS", "-Xmx4g")
    stored = sorted(glob.glob(os.path.join(path, "*.ndjson"))) if os.path.isdir(path) else [path]
    meta = os.path.join(path, "meta.json") if os.path.isdir(path) else None
    fresh = []
    if meta and os.path.exists(meta):
        m = json.load(open(meta))
        ctx.seed = m.get("seed", ctx.seed)
        fresh.append(drive(ctx, driver(), 0, [m["ops"]], m.get("allmax", TIERS["quick"]["allmax"]), tag="replay")["path"])
    bad = 0
    for f in stored + fresh:
        r = tlc_trace(ctx, "JournalTrace.tla", "JournalTrace.cfg", f)
        which = "re-executed" if f in fresh else "stored"
        if r["accepted"]:
            log("  %s trace %s: accepted (%d lines)" % (which, os.path.basename(f), r["len"]))
        else:
            log("  %s trace %s rejected at line %d %s: %s" % (which, os.path.basename(f), r["hwm"], r["monitors"], r["stuck"]))
            if f in fresh or not fresh:
                bad += 1
    if bad:
        print("VIOLATION property=%s replay=%s" % (ctx.pid, path))
    ctx.cleanup()
    return 1 if bad else 0
