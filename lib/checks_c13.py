"""C13 - sorted tables round-trip under all layouts and detect block damage.

1. TLC checks spec/Table.tla exhaustively on small constants (TableMC.tla): every key
   subset, cut into blocks, separator choice, filter/strictness setting and damaged set;
   lookups equal the sorted-map oracle, iterator moves obey KV.tla's cursor laws,
   OffsetOf is monotone, damage gives corruption-or-original.
2. harness/cmd/tbl builds real tables with table.NewWriter over an option matrix and
   adversarial key/value sets, reads them back with table.NewReader (lookups, OffsetOf,
   cursor walks, single-byte damage trials) and records every reply.
3. TLC validates every recorded line against Table.tla through spec/TableTrace.tla; a
   line no action explains is the violation.
"""
import glob
import json
import os

from kvfam import validate_traces
from vlib import (HarnessError, build, finish, log, mc_coverage, parallel, read_line, report_violation,
                  run_driver, save_replay, tlc_mc, tlc_trace, trace_lines)

ASSUME = ["TLC and the CommunityModules Json reader are trusted",
          "the harness's reference comparers, key ranks and value interning are trusted (harness/internal/vt, harness/cmd/tbl)",
          "the layout fed to the model is the writer's own: pairs per block from its Write calls (one per block), "
          "separators as ranks derived from an OffsetOf sweep that is itself validated line by line",
          "snappy's own correctness is trusted; CRC-32C detects every single-byte alteration (the reader is run with "
          "StrictBlockChecksum on); the footer is not altered",
          "single client; blockIter's restart-point arithmetic is not modelled but bound by conformance (every reply is "
          "compared with the oracle the model is proved equal to)"]

# per tier: programs, tables per program, walks per table, moves per walk, alterations per block (0 = every byte), probes
TIERS = {
    "quick": dict(programs=64, tables=14, walks=5, moves=48, dmg=24, probes=10),
    "thorough": dict(programs=256, tables=14, walks=6, moves=60, dmg=0, probes=10),
}

ALL_COLS = (["cmp=%d" % i for i in range(3)] + ["sep=%d" % i for i in range(3)] +
            ["bs=%d" % b for b in (64, 128, 256, 1024, 4096)] + ["ri=%d" % r for r in (1, 2, 16)] +
            ["snappy=0", "snappy=1"] + ["bloom=%d" % b for b in (0, 1, 10, 20)] +
            ["baselg=%d" % b for b in (3, 7, 11)] + ["rfilter=%d" % i for i in range(3)] +
            ["bpool=0", "bpool=1", "cache=0", "cache=1", "cache=2", "strictreader=0", "strictreader=1"])


def _exe():
    # test hook: a driver built against a scratch copy of the code (sensitivity experiments)
    return os.environ.get("VERIF_TBL_EXE") or build("tbl")


def _context(path, lineno):
    """the table line and (for iterator lines) the iternew line governing line `lineno`"""
    tab, itn, tab_at, itn_at = None, None, 0, 0
    with open(path) as f:
        for i, line in enumerate(f, 1):
            if i > lineno:
                break
            if '"ev":"table"' in line:
                tab, tab_at, itn = json.loads(line), i, None
            elif '"ev":"iternew"' in line:
                itn, itn_at = json.loads(line), i
    return tab, tab_at, itn, itn_at


def _sig(ev, tab, itn):
    kind = ev.get("ev")
    if kind in ("iter", "iternew") and tab is not None:
        rng = itn or ev
        if (tab.get("shape") == "empty" and tab.get("blocks") == [[]] and ev.get("err") == "corrupt"
                and rng.get("slen", -1) == 0
                and (rng.get("llen", -1) >= 0 or (ev.get("mv") == "seek" and ev.get("arg") == rng.get("lo")))):
            # known finding, kept narrow: intact EMPTY table, Range.Start = empty non-nil key, and either a
            # non-nil Range.Limit or a Seek to the empty key: block.seek reads restart slot [restartsLen] of
            # the empty data block => spurious "entries offset not aligned" (walks only run on the intact
            # table). Any other corruption error on an intact table gets another signature.
            return "c13:iter:empty-table-range"
        return "c13:%s:%s" % (kind, "corrupt-on-intact-table" if str(ev.get("err", "")).startswith("corrupt") else ev.get("mv", "new"))
    if kind == "trial":
        what = "panic" if ev.get("panic") else ("open" if ev.get("open") != "none" else "reads")
        return "c13:trial:%s:%s" % (ev.get("part"), what)
    if kind in ("find", "findkey", "get", "off"):
        err = str(ev.get("err", ""))
        return "c13:%s:%s" % (kind, err.split(":")[0])
    return "c13:%s" % kind


def _neutralise(path, lineno):
    """Turn the unexplained line into a note - together with the lines that depend on it
    (the rest of the walk for an iterator line, the rest of the table for a table line)."""
    lines = open(path).read().splitlines()
    ev = json.loads(lines[lineno - 1])
    lo = hi = lineno
    if ev["ev"] in ("iter", "iternew"):
        while lo > 1 and json.loads(lines[lo - 1])["ev"] != "iternew":
            lo -= 1
        while hi < len(lines) and json.loads(lines[hi - 1])["ev"] != "iterrel":
            hi += 1
    elif ev["ev"] == "table":
        while hi < len(lines) and json.loads(lines[hi])["ev"] != "table":
            hi += 1
    for i in range(lo, hi + 1):
        lines[i - 1] = json.dumps({"ev": "note", "what": "known-finding", "was": json.loads(lines[i - 1])})
    open(path, "w").write("\n".join(lines) + "\n")


def _neutralise_known_walks(ctx, path):
    """After TLC met a known finding in this trace: every other walk of the trace whose first
    corruption error on the (intact) table has the signature of a listed known finding is
    neutralised in the same pass instead of one TLC round each.  Sound: the model never answers
    "corrupt" on an intact table, so each of these lines is one TLC would stop at, and it is
    classified by the same _sig; walks with any other signature are left for TLC to report."""
    lines = open(path).read().splitlines()
    evs = [json.loads(x) for x in lines]
    tab, itn, start, skip, n = None, None, 0, False, 0
    for i, ev in enumerate(evs):
        kind = ev["ev"]
        if kind == "table":
            tab = ev
        elif kind == "iternew":
            itn, start, skip = ev, i, False
        elif kind == "iter" and not skip and itn is not None and ev.get("err") == "corrupt":
            skip = True                      # only the first corruption error of a walk is classified
            sig = _sig(ev, tab, itn)
            if not report_violation(ctx, sig, "line %d of %s (same finding, found by scanning)" % (i + 1, os.path.basename(path)), None):
                end = i
                while end < len(evs) - 1 and evs[end]["ev"] != "iterrel":
                    end += 1
                for j in range(start, end + 1):
                    lines[j] = json.dumps({"ev": "note", "what": "known-finding", "was": evs[j]})
                    evs[j] = {"ev": "note"}
                n += 1
            else:
                ctx.violations.pop()         # not a known finding: leave the line for TLC to report with a replay
    if n:
        open(path, "w").write("\n".join(lines) + "\n")
    return n


def main(ctx):
    t = TIERS[ctx.tier]
    cfg = "TableMC_quick.cfg" if ctx.quick else "TableMC_thorough.cfg"
    tlc_mc(ctx, "TableMC.tla", cfg, timeout=1500, label="Table layouts x separators x damaged sets x cursor walks (%s)" % cfg)

    exe = _exe()
    seeds = [ctx.seed * 1000 + i for i in range(t["programs"])]

    def drive(seed):
        out = ctx.path("tbl-%d.ndjson" % seed)
        args = [exe, "-seed", str(seed), "-tables", str(t["tables"]), "-walks", str(t["walks"]), "-moves", str(t["moves"]),
                "-dmg", str(t["dmg"]), "-probes", str(t["probes"]), "-out", out]
        s = run_driver(args, timeout=3000)
        s["path"] = out
        s["cmd"] = " ".join(args)
        return s

    sums = parallel(drive, seeds)
    stats, cols, rows = {}, set(), set()
    for s in sums:
        for k, v in s["stats"].items():
            stats[k] = stats.get(k, 0) + v
        cols.update(s["cols"])
        rows.update(s["rows"])
    missing = [c for c in ALL_COLS if c not in cols]
    if missing:
        raise HarnessError("option matrix columns not covered: %s" % missing)
    for need in ("shape_empty", "shape_single", "shape_many", "multi_block_tables", "empty_values",
                 "values_larger_than_block", "keys_longer_than_block", "reversals", "moves_off_the_end",
                 "damage_trials", "corruption_errors_seen", "good_reads_under_damage"):
        if not stats.get(need):
            raise HarnessError("drivers never produced %s: %s" % (need, stats))

    pending = sums
    for _round in range(40):
        fails = validate_traces(ctx, "TableTrace.tla", "TableTrace.cfg", pending, chunk=4)
        pending = []
        for tr, r in fails:
            line = read_line(tr["path"], r["hwm"]) or "{}"
            ev = json.loads(line)
            tab, tab_at, itn, itn_at = _context(tr["path"], r["hwm"])
            sig = _sig(ev, tab, itn)
            row = tab.get("row") if tab else "?"
            what = "line %d of %s not explained by Table.tla: %s (table %s: %s)" % (
                r["hwm"], os.path.basename(tr["path"]), line[:400], tab.get("t") if tab else "?", row)
            rp = save_replay(ctx, "tbl-seed%d-line%d" % (tr["seed"], r["hwm"]), [tr["path"]],
                             {"property": ctx.pid, "cmd": tr["cmd"], "stuck_line": r["hwm"], "event": ev, "row": row,
                              "table_line": tab_at, "table": tab, "iternew": itn,
                              "context": trace_lines(tr["path"], max(1, r["hwm"] - 6), r["hwm"]),
                              "replay": "TRACE=<trace> tlc -workers 1 -config TableTrace.cfg TableTrace.tla (in /verif/spec); "
                                        "or ./check C13 --replay <this directory>"})
            if not report_violation(ctx, sig, what, rp):
                _neutralise(tr["path"], r["hwm"])     # a listed known finding: check the rest of the trace
                _neutralise_known_walks(ctx, tr["path"])
                pending.append(tr)
        if not pending:
            break
    else:
        raise HarnessError("known findings kept recurring after 40 rounds")

    if sums:
        ctx.samples.append({"program": sums[0]["cmd"], "first_events": trace_lines(sums[0]["path"], 1, 3),
                            "a_walk_and_a_trial": _sample_lines(sums[0]["path"])})
    cov = mc_coverage(ctx, {
        "programs": len(sums),
        "tables_built": stats.get("tables", 0),
        "option_rows": len(rows),
        "option_columns_covered": sorted(cols),
        "table_shapes": {k[6:]: v for k, v in stats.items() if k.startswith("shape_")},
        "multi_block_tables": stats.get("multi_block_tables", 0),
        "data_blocks": stats.get("blocks", 0),
        "pairs": stats.get("pairs", 0),
        "table_bytes": stats.get("table_bytes", 0),
        "empty_values": stats.get("empty_values", 0),
        "values_larger_than_block": stats.get("values_larger_than_block", 0),
        "keys_longer_than_block": stats.get("keys_longer_than_block", 0),
        "lookups": stats.get("lookups", 0),
        "offsetof_calls": stats.get("offsetof", 0),
        "walks": stats.get("walks", 0),
        "moves": stats.get("moves", 0),
        "reversals": stats.get("reversals", 0),
        "moves_off_the_end": stats.get("moves_off_the_end", 0),
        "damage_trials": stats.get("damage_trials", 0),
        "damage_trial_lines": stats.get("trial_lines", 0),
        "every_byte_of_every_block": t["dmg"] == 0,
        "corruption_errors_seen": stats.get("corruption_errors_seen", 0),
        "good_reads_under_damage": stats.get("good_reads_under_damage", 0),
        "exhaustive": False,
    })
    return finish(ctx, "model_checking", cov, ASSUME)


def _sample_lines(path):
    out, want = [], {"iternew": 1, "iter": 3, "trial": 1}
    with open(path) as f:
        for line in f:
            ev = json.loads(line)
            if want.get(ev["ev"], 0) > 0:
                want[ev["ev"]] -= 1
                out.append(ev)
            if not any(want.values()):
                break
    return out


def replay(ctx, path):
    path = os.path.abspath(path)
    files = sorted(glob.glob(os.path.join(path, "*.ndjson"))) if os.path.isdir(path) else [path]
    bad = 0
    for f in files:
        r = tlc_trace(ctx, "TableTrace.tla", "TableTrace.cfg", f)
        if not r["accepted"]:
            bad += 1
            print("VIOLATION property=%s replay=%s" % (ctx.pid, path))
            log("  line %d: %s" % (r["hwm"], r["stuck"]))
    ctx.cleanup()
    return 1 if bad else 0
