"""C14: leveldb/memdb is an ordered map with exact Len/Size/Free accounting, safe under
concurrent readers.

1. spec/MemDB.tla (contract) is model checked through spec/MemDBMC.tla next to a model of
   memdb.go as coded (append-only nodes, level-0 links, lock = atomic critical section).
2. harness/cmd/memdbchk records the real memdb: sequential programs (one line per call)
   and concurrent histories (writer wbeg/wend, readers inv/resp); spec/MemDBTrace.tla
   accepts a line only if an action of MemDB.tla explains it.
3. thorough: the concurrent driver is also built and run with -race; a race report is
   printed and counted, it is not a verdict by itself (its traces are validated like the others).
"""
import glob
import json
import os
import re
import threading

import vlib
from vlib import (HarnessError, build, finish, log, mc_coverage, ncpu, parallel, read_line, report_violation,
                  run, run_driver, save_replay, tlc_mc, tlc_trace, trace_lines)

ASSUME = ["TLC and the CommunityModules Json reader are trusted",
          "the harness's reference comparers, key ranks and value interning are trusted (harness/internal/vt)",
          "file order of the shared tracer is a real-time order: a call takes effect between its two lines "
          "(writer wbeg/wend, reader inv/resp)",
          "Reset is called only when no iterator is outstanding (the driver releases them first; goleveldb "
          "resets only unreferenced memdbs)",
          "one writer at a time (memdb serialises writers by its lock; goleveldb has a single writer)",
          "interleavings are those the Go scheduler produced in this run, not all of them; the contract's window "
          "rule itself is checked for all interleavings on the model of the code (MemDBMC.tla)"]

TIERS = {  # seq programs, steps; conc traces, writer calls per epoch, epochs
    "quick": dict(seq=(48, 500), conc=(40, 50, 3), race=0),
    "thorough": dict(seq=(240, 800), conc=(160, 90, 4), race=32),
}
MC = {
    "quick": ["MemDBMC_seq.cfg", "MemDBMC_quick.cfg", "MemDBMC_quick2.cfg"],
    "thorough": ["MemDBMC_seq.cfg", "MemDBMC_quick.cfg", "MemDBMC_quick2.cfg", "MemDBMC_thorough.cfg",
                 "MemDBMC_thorough2.cfg", "MemDBMC_thorough3.cfg", "MemDBMC_thorough4.cfg"],
}
KNOWN_SIG = "c14:seq:next-after-delete"
MAX_ROUNDS = 60


def classify(path, lineno):
    """Signature of the line TLC could not explain.  KNOWN_SIG only if that line really is an
    iterator Next whose cursor key was deleted since the iterator's previous move (decided from
    the trace itself, not from the driver's flag)."""
    lines = open(path).read().splitlines()
    ev = json.loads(lines[lineno - 1])
    kind = ev.get("ev")
    if kind == "iter" and ev.get("mv") == "next" and ev.get("err") == "none":
        pos, since = None, None
        for i in range(lineno - 2, -1, -1):
            p = json.loads(lines[i])
            if p.get("ev") == "reset":
                break
            if p.get("h") == ev.get("h") and p.get("ev") in ("iter", "itersync", "iternew", "iterrel"):
                if p["ev"] in ("iter", "itersync") and p.get("ok") == 1 and p.get("k", -1) >= 0:
                    pos, since = p["k"], i
                break
        if pos is not None:
            for i in range(since + 1, lineno - 1):
                p = json.loads(lines[i])
                if p.get("ev") == "write" and p.get("op") == "del" and p.get("k") == pos and p.get("err") == "none":
                    return KNOWN_SIG, ev
        return "c14:seq:iter:next", ev
    if kind == "iter":
        return "c14:seq:iter:%s" % ev.get("mv"), ev
    if kind in ("resp", "inv"):
        # find the call this reply belongs to
        call = {}
        if kind == "resp":
            for i in range(lineno - 2, -1, -1):
                p = json.loads(lines[i])
                if p.get("ev") == "inv" and p.get("r") == ev.get("r"):
                    call = p
                    break
        what = call.get("op", "?")
        if what == "iter":
            what += ":" + call.get("mv", "?")
        return "c14:conc:%s" % what, ev
    if kind == "write":
        return "c14:seq:write:%s" % ev.get("op"), ev
    if kind in ("wbeg", "wend"):
        return "c14:conc:%s" % kind, ev
    if kind in ("get", "find", "has"):
        return "c14:seq:%s" % kind, ev
    return "c14:%s" % kind, ev


def resync(path, lineno):
    """Replace a reported known-finding line by a resynchronisation event: the specification's
    cursor is put where the real iterator said it is and the rest of the trace is validated."""
    lines = open(path).read().splitlines()
    ev = json.loads(lines[lineno - 1])
    lines[lineno - 1] = json.dumps({"ev": "itersync", "h": ev["h"], "ok": ev["ok"], "k": ev["k"], "was": ev})
    open(path, "w").write("\n".join(lines) + "\n")


def known_entry(ctx):
    for kf in vlib.known_findings():
        if kf.get("property") == ctx.pid and kf.get("status", "known") == "known" and re.fullmatch(kf["sig"], KNOWN_SIG):
            return kf
    return None


def validate(ctx, t):
    """Validate one trace to its end.  Returns (known finding hits, violation or None)."""
    known = 0
    for _ in range(MAX_ROUNDS):
        r = tlc_trace(ctx, "MemDBTrace.tla", "MemDBTrace.cfg", t["path"], timeout=1200)
        t["tlc_states"] = r["states"]
        if r["accepted"]:
            return known, None
        sig, ev = classify(t["path"], r["hwm"])
        if sig == KNOWN_SIG and known_entry(ctx):
            known += 1
            resync(t["path"], r["hwm"])
            continue
        return known, (sig, ev, r)
    raise HarnessError("trace %s: more than %d known-finding lines" % (t["path"], MAX_ROUNDS))


def windows(path):
    """Evidence only: reader calls, how many of them had a window wider than one state, and how many
    were a Next from a key the writer had begun to delete since the cursor landed on it (these are
    the replies the contract judges by its weak law)."""
    calls = wide = weak = 0
    wbeg = wdone = 0
    frm, pend, cur = {}, {}, {}
    with open(path) as f:
        for line in f:
            e = json.loads(line)
            k = e["ev"]
            if k == "reset":
                wbeg = wdone = 0
                frm, pend, cur = {}, {}, {}
            elif k == "wbeg":
                wbeg += 1
                if e["op"] == "del":
                    for c in cur.values():
                        if c[0] == e["k"]:
                            c[1] = True
            elif k == "wend":
                wdone += 1
            elif k == "write":
                wbeg += 1
                wdone += 1
                if e["op"] == "clear":
                    cur = {}
            elif k == "inv":
                frm[e["r"]] = wdone
                pend[e["r"]] = e
            elif k == "resp":
                calls += 1
                if wbeg > frm.get(e["r"], wbeg):
                    wide += 1
                call = pend.get(e["r"], {})
                if call.get("op") == "iter":
                    c = cur.setdefault(call["h"], [-1, False])
                    stale = call["mv"] == "next" and c[0] >= 0 and c[1]
                    if stale:
                        weak += 1
                    c[0], c[1] = (e["k"] if e["k"] >= 0 else -1), stale
    return calls, wide, weak


def drive(ctx, exe, mode, seed, n, extra=(), env=None, tag=""):
    out = ctx.path("%s%s-%d.ndjson" % (mode, tag, seed))
    args = [exe, "-mode", mode, "-seed", str(seed), "-n", str(n), "-out", out] + list(extra)
    if env is None:
        s = run_driver(args, timeout=900)
        s["race_report"] = ""
    else:
        rc, so, se = run(args, timeout=900, env=env)
        if rc != 0:
            raise HarnessError("driver failed (%s): %s\n%s" % (rc, " ".join(args), (se or "")[-3000:]))
        s = json.loads([x for x in so.strip().splitlines() if x.strip()][-1])
        s["race_report"] = se if "DATA RACE" in (se or "") else ""
    s["path"], s["cmd"] = out, " ".join(args)
    return s


def main(ctx):
    os.environ.setdefault("JAVA_TOOL_OPTIONS", "-Xmx4g")   # many TLC runs share the machine
    tier = TIERS[ctx.tier]
    exe = build("memdbchk")
    exe_race = build("memdbchk", race=True) if tier["race"] else None

    # 1. the design specification, checked while the drivers and the trace validation run
    mc_err = []

    def design():
        try:
            for cfg in MC[ctx.tier]:
                tlc_mc(ctx, "MemDBMC.tla", cfg, timeout=1500, workers=max(4, ncpu() // 2),
                       label="MemDB contract vs. memdb.go as coded (%s)" % cfg)
        except Exception as e:  # re-raised in the main thread
            mc_err.append(e)

    th = threading.Thread(target=design)
    th.start()

    # 2. the real memdb
    nseq, steps = tier["seq"]
    nconc, wcalls, epochs = tier["conc"]
    jobs = [("seq", ctx.seed * 1000 + i, steps, [], None, "") for i in range(nseq)]
    jobs += [("conc", ctx.seed * 1000 + i, wcalls, ["-epochs", str(epochs)], None, "") for i in range(nconc)]
    race_env = dict(vlib.GOENV, GORACE="exitcode=0 halt_on_error=0")
    jobs += [("conc", ctx.seed * 1000 + 500 + i, wcalls, ["-epochs", str(epochs)], race_env, "-race")
             for i in range(tier["race"])]

    def work(j):
        mode, seed, n, extra, env, tag = j
        t = drive(ctx, exe_race if env else exe, mode, seed, n, extra, env, tag)
        t["known"], t["bad"] = validate(ctx, t)
        t["calls"], t["wide"], t["weak"] = windows(t["path"]) if mode == "conc" else (0, 0, 0)
        return t

    try:
        res = parallel(work, jobs, workers=max(4, ncpu() // 2))
    finally:
        th.join()
    if mc_err:
        raise mc_err[0]

    calls, rows = {}, set()
    known = explained = wide = weak = histories = races = 0
    for t in res:
        for k, v in t.get("stats", {}).items():
            calls[k] = calls.get(k, 0) + v
        rows.add(t["row"])
        known += t["known"]
        if t["race_report"]:
            races += 1
            log("RACE REPORT (not a verdict by itself) from: %s\n%s" % (t["cmd"], t["race_report"][:3000]))
        if t["bad"] is None:
            ctx.traces_ok += 1
            ctx.trace_events += t["events"]
            explained += t["calls"]
            wide += t["wide"]
            weak += t["weak"]
            if t["mode"] == "conc":
                histories += t["stats"].get("w:clear", 0)
            continue
        sig, ev, r = t["bad"]
        ctx_lines = trace_lines(t["path"], max(1, r["hwm"] - 10), r["hwm"])
        what = "line %d of %s is not explained by MemDB.tla: %s (%s)" % (
            r["hwm"], os.path.basename(t["path"]), json.dumps(ev)[:300], t["row"])
        rp = save_replay(ctx, "%s-seed%d" % (t["mode"], t["seed"]), [t["path"]],
                         {"property": ctx.pid, "cmd": t["cmd"], "stuck_line": r["hwm"], "event": ev, "sig": sig,
                          "row": t["row"], "context": ctx_lines,
                          "replay": "./check C14 --replay <this directory>  (or: TRACE=<trace> tlc -workers 1 "
                                    "-config MemDBTrace.cfg MemDBTrace.tla in /verif/spec)"})
        report_violation(ctx, sig, what, rp)
    if known:
        kf = known_entry(ctx)
        ctx.known_hits.append((kf["sig"], kf["what"] + " [%d occurrences in this run, each resynchronised and the "
                               "rest of its trace validated]" % known))
    seqs = [t for t in res if t["mode"] == "seq"]
    concs = [t for t in res if t["mode"] == "conc"]
    if seqs:
        ctx.samples.append({"program": seqs[0]["cmd"], "first_events": trace_lines(seqs[0]["path"], 1, 8)})
    if concs:
        ctx.samples.append({"history": concs[0]["cmd"], "first_events": trace_lines(concs[0]["path"], 1, 12)})
    cov = mc_coverage(ctx, {
        "programs": len(seqs), "concurrent_traces": len(concs), "concurrent_histories": histories,
        "calls_by_kind": calls, "reader_calls_explained": explained,
        "reader_calls_overlapping_a_write": wide,
        "next_calls_from_a_key_under_deletion": weak,
        "known_finding_lines_resynchronised": known,
        "rows": sorted(rows)[:40],
        "race_detector_runs": tier["race"], "race_reports": races,
    })
    return finish(ctx, "model_checking", cov, ASSUME)


def replay(ctx, path):
    os.environ.setdefault("JAVA_TOOL_OPTIONS", "-Xmx4g")
    files = sorted(glob.glob(os.path.join(path, "*.ndjson"))) if os.path.isdir(path) else [path]
    bad = 0
    for f in files:
        t = {"path": ctx.path(os.path.basename(f))}
        open(t["path"], "w").write(open(f).read())
        known, v = validate(ctx, t)
        if known:
            print("KNOWN-FINDING: property=%s %s (%d lines)" % (ctx.pid, KNOWN_SIG, known))
        if v is not None:
            bad += 1
            sig, ev, r = v
            print("VIOLATION property=%s replay=%s" % (ctx.pid, path))
            log("  %s line %d: %s" % (sig, r["hwm"], r["stuck"]))
    ctx.cleanup()
    return 1 if bad else 0
