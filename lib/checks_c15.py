"""C15 — internal key order and index-key shortening obey their laws.

1. spec/IKey.tla is model-checked: strict total order, probe placement,
   a <= Separator(a,b) < b and Successor(b) >= b for every admissible user-level
   answer, index routing; plus a run of the rule WITHOUT its guard that must fail
   (the laws are not vacuous).
2. harness/cmd/ikeychk evaluates the REAL internal comparer over ten user comparers
   (the built-in one and vt.RefCmp 3 orders x 3 shortening behaviours) on the
   enumerated universe (240 internal keys, all ordered pairs, all separator /
   successor calls, all probes) and on seeded universes of long random keys; TLC
   validates every recorded answer against IKey.tla through spec/IKeyTrace.tla.
A recorded line that contradicts a law stops its trace: that is the only verdict."""
import glob
import json
import os
import re

from vlib import (HarnessError, build, finish, log, mc_coverage, ncpu, parallel, read_line, report_violation,
                  run_driver, save_replay, tlc_mc, tlc_trace)

CMPS = ["default"] + ["k%ds%d" % (k, s) for k in range(3) for s in range(3)]

# per comparer: number of trace files, random universes per file, sampled triples (enumerated universe)
TIERS = {"quick": dict(parts=1, extras=100, triples=4000, cfg="IKey_quick.cfg"),
         "thorough": dict(parts=12, extras=200, triples=20000, cfg="IKey_thorough.cfg")}

ASSUME = ["TLC and the CommunityModules Json reader are trusted",
          "the harness's reference user orders (vt.RefCmp.Compare; bytes.Compare for the built-in comparer) and the positions "
          "and sequence classes computed from them are trusted; the implementation's own Compare is never used to judge a law",
          "user comparers obey the comparer contract (a <= x < b, x >= b, or nil); for equal user keys nil or a copy of a",
          "Separator/Successor are called with an empty dst, as table.Writer does (scratch[:0])",
          "'all byte strings' is the enumerated universe (length <= 3 over {00,61,ff}) plus seeded long random keys"]

_re_drift = re.compile(r'<<"VERIF-DRIFT", (\d+)>>')


def design_mc(ctx, cfg):
    tlc_mc(ctx, "IKey.tla", cfg, timeout=1500, label="IKey laws (%s)" % cfg)
    # Non-vacuity: the acceptance rule without its guard must break the separator law.
    st, tr, nruns = ctx.mc["states"], ctx.mc["transitions"], len(ctx.mc["runs"])
    r = tlc_mc(ctx, "IKey.tla", "IKey_noguard.cfg", timeout=300, expect_violation=True,
               label="IKey rule without guard (must fail)")
    ctx.mc["states"], ctx.mc["transitions"] = st, tr          # not part of the claim
    del ctx.mc["runs"][nruns:]
    if not re.search(r"Invariant (SeparatorLaw|SuccessorLaw) is violated", r["out"]):
        raise HarnessError("IKey_noguard.cfg: the unguarded rule did not violate the laws; the model is vacuous:\n%s"
                           % r["out"][-2000:])
    return {"unguarded_rule_rejected_by_tlc": True, "states_until_counterexample": r["distinct"]}


def sample_from(path):
    """A few recorded calls written out (for the evidence file)."""
    out, univ = [], None
    with open(path) as f:
        for line in f:
            e = json.loads(line)
            if e["ev"] == "univ":
                if univ is not None:
                    break
                univ = e
                out.append({"universe": e["label"], "comparer": e["cmp"], "internal_keys": e["nk"],
                            "first_keys[u,s,t]": e["keys"][:7], "max_seq_class": e["mx"]})
            elif e["ev"] == "cmp" and e["a"] == 3:
                out.append({"call": "Compare(key 3, key j) for j=1..", "signs": e["sg"][:12]})
            elif e["ev"] == "probe" and len(out) < 3:
                out.append({"call": "Compare(probe(k=%d, s=%d), key j)" % (e["k"], e["s"]), "signs": e["sg"][:12]})
            elif e["ev"] == "sep" and any(e["rp"]) and not any("Separator" in str(o.get("call")) for o in out):
                x = [i for i, p in enumerate(e["rp"]) if p][0]
                out.append({"call": "Separator(a, b)", "a": univ["keys"][e["a"] - 1], "b": univ["keys"][e["b"][x] - 1],
                            "user_answer[pos,shorter]": [e["up"][x], e["ush"][x]],
                            "reply[u,s,t]": [e["rp"][x], e["rs"][x], e["rt"][x]],
                            "real_signs[cmp(a,r),cmp(r,b)]": [e["ca"][x], e["cb"][x]]})
    return out


def hint(ev):
    """Informational only: the first element of a failing row whose recorded signs already show the breach."""
    try:
        if ev.get("ev") == "sep":
            for x, p in enumerate(ev["rp"]):
                if p and not (ev["ca"][x] <= 0 and ev["cb"][x] < 0 and ev["ha"][x] <= 0 and ev["hb"][x] < 0):
                    return {"a": ev["a"], "b": ev["b"][x], "user_answer[pos,shorter]": [ev["up"][x], ev["ush"][x]],
                            "reply[u,s,t]": [p, ev["rs"][x], ev["rt"][x]], "real[cmp(a,r),cmp(r,b)]": [ev["ca"][x], ev["cb"][x]],
                            "reference[cmp(a,r),cmp(r,b)]": [ev["ha"][x], ev["hb"][x]]}
        if ev.get("ev") == "succ":
            for x, p in enumerate(ev["rp"]):
                if p and not (ev["cb"][x] >= 0 and ev["hb"][x] >= 0):
                    return {"b": ev["b"][x], "reply[u,s,t]": [p, ev["rs"][x], ev["rt"][x]],
                            "real cmp(r,b)": ev["cb"][x], "reference cmp(r,b)": ev["hb"][x]}
    except Exception:
        pass
    return None


def main(ctx):
    t = TIERS[ctx.tier]
    nonvac = design_mc(ctx, t["cfg"])
    exe = build("ikeychk")
    jobs = [(c, p) for c in CMPS for p in range(t["parts"])]

    def drive(job):
        c, p = job
        out = ctx.path("ikey-%s-%d.ndjson" % (c, p))
        args = [exe, "-cmp", c, "-seed", str(ctx.seed * 100003 + p * 101 + CMPS.index(c)),
                "-enum=%s" % ("true" if p == 0 else "false"), "-extras", str(t["extras"]),
                "-triples", str(t["triples"]), "-out", out]
        s = run_driver(args, timeout=900)
        s.update(path=out, cmd=" ".join(args), part=p)
        return s

    sums = parallel(drive, jobs)

    def validate(s):
        return s, tlc_trace(ctx, "IKeyTrace.tla", "IKeyTrace.cfg", s["path"], timeout=1500)

    # a trace file is some tens of MB of TLC values; bound every validator's heap so that they fit side by side
    jto = os.environ.get("JAVA_TOOL_OPTIONS")
    os.environ["JAVA_TOOL_OPTIONS"] = ((jto or "") + " -Xmx3g").strip()
    try:
        results = parallel(validate, sums, workers=min(ncpu(), 12))
    finally:
        if jto is None:
            del os.environ["JAVA_TOOL_OPTIONS"]
        else:
            os.environ["JAVA_TOOL_OPTIONS"] = jto
    stats, drift = {}, 0
    for s, r in results:
        for k, v in s["stats"].items():
            stats[k] = stats.get(k, 0) + v
        if r["accepted"]:
            ctx.traces_ok += 1
            ctx.trace_events += s["events"]
            m = _re_drift.search(r["out"])
            drift += int(m.group(1)) if m else 0
            continue
        line = read_line(s["path"], r["hwm"]) or "{}"
        ev = json.loads(line)
        # the universe the failing line belongs to
        label = "?"
        with open(s["path"]) as f:
            for i, ln in enumerate(f, 1):
                if i > r["hwm"]:
                    break
                if '"ev":"univ"' in ln[:200]:
                    label = json.loads(ln)["label"]
        sig = "c15:%s:%s" % (s["cmp"], ev.get("ev"))
        what = ("comparer %s, universe %s: line %d of %s (%s) contradicts IKey.tla: %s"
                % (s["cmp"], label, r["hwm"], os.path.basename(s["path"]), ev.get("ev"), hint(ev) or line[:240]))
        rp = save_replay(ctx, "%s-part%d-seed%d" % (s["cmp"], s["part"], ctx.seed), [s["path"]],
                         {"property": ctx.pid, "cmd": s["cmd"], "stuck_line": r["hwm"], "event": ev, "universe": label, "hint": hint(ev),
                          "replay": "TRACE=<trace> tlc -workers 1 -config IKeyTrace.cfg IKeyTrace.tla (in /verif/spec)"})
        report_violation(ctx, sig, what, rp)

    if drift:
        log("C15 note: %d lawful replies differ from the coded acceptance rule of IKey.tla (no verdict)" % drift)
    for s in sums:
        if s["cmp"] in ("default", "k1s0") and s["part"] == 0 and os.path.exists(s["path"]):
            ctx.samples.extend(sample_from(s["path"]))
    extra = {
        "comparers": len(CMPS),
        "comparer_names": CMPS,
        "universes": stats.get("universes", 0),
        "internal_keys": stats.get("keys", 0),
        "pairs_compared": stats.get("pairs", 0),
        "triples_sampled": stats.get("triples", 0),
        "probes": stats.get("probes", 0),
        "separator_calls": stats.get("sep_calls", 0),
        "separator_calls_nonnil_result": stats.get("sep_nonnil", 0),
        "separator_calls_user_answer_nonnil": stats.get("sep_user_nonnil", 0),
        "successor_calls": stats.get("succ_calls", 0),
        "successor_calls_nonnil_result": stats.get("succ_nonnil", 0),
        "builtin_user_level_separator_calls": stats.get("usep_calls", 0),
        "builtin_user_level_separator_nonnil": stats.get("usep_nonnil", 0),
        "builtin_user_level_successor_calls": stats.get("usucc_calls", 0),
        "lawful_replies_differing_from_coded_rule": drift,
        "non_vacuity": nonvac,
        "exhaustive": False,
        "enumerated_universe": "all user keys of length <= 3 over {00,61,ff} x seq {0,1,2^56-1} x both kinds = 240 internal "
                               "keys, every ordered pair / separator / successor / probe, per comparer",
    }
    if stats.get("sep_nonnil", 0) == 0 or stats.get("succ_nonnil", 0) == 0:
        raise HarnessError("no shortened key was ever produced: %s" % stats)
    return finish(ctx, "model_checking", mc_coverage(ctx, extra), ASSUME)


def replay(ctx, path):
    path = os.path.abspath(path)
    files = sorted(glob.glob(os.path.join(path, "*.ndjson"))) if os.path.isdir(path) else [path]
    bad = 0
    for f in files:
        r = tlc_trace(ctx, "IKeyTrace.tla", "IKeyTrace.cfg", f)
        if not r["accepted"]:
            bad += 1
            print("VIOLATION property=%s replay=%s" % (ctx.pid, path))
            log("  line %d: %s" % (r["hwm"], (r["stuck"] or "")[:600]))
    ctx.cleanup()
    return 1 if bad else 0
