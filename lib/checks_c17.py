"""C17 - the shared cache (leveldb/cache) never hands out a dead value and respects its capacity.

1. spec/Cache.tla is model-checked (Cache_quick.cfg / Cache_thorough.cfg: the algorithm as coded, every interleaving
   of Get/Release/Delete/Evict/EvictNS-All/SetCapacity/Close).  Cache_beforefix.cfg - the algorithm before fixes
   e7aceb0 / 9182bd2 - is EXPECTED to break FinalizeOnce (so the model can see that family of defects), and
   Cache_beforefix_excl.cfg (same, under the assumption that Close does not overlap Release) must hold.  None of
   these runs is a verdict about the code.
2. harness/cmd/cachechk drives the real cache.NewCache(cache.NewLRU(n)) under 2-16 goroutines and GOMAXPROCS
   1/2/4/16; every trace is validated by TLC against spec/CacheTrace.tla (monitor over the observable layer of
   Cache.tla).  A line the monitor cannot accept is a violation of C17 by the real code.
   Two groups of programs: "base" closes the cache alone or with only Handle.Release overlapping a non-force
   Close; "hazard" lets Get/Release overlap Close(false) and Release overlap Close(true) (the windows of F20/F21)."""
import glob
import json
import os
import re
import shutil

import vlib
from vlib import (HarnessError, build, finish, log, mc_coverage, ncpu, parallel, read_line, report_violation, run_driver,
                  save_replay, tlc_mc, trace_lines)

ASSUME = ["TLC and the CommunityModules Json reader are trusted",
          "the driver's event discipline is trusted: release-begin is written before Handle.Release is called, get-end after "
          "Get returned, construct/finalize/delfunc from inside the callbacks, all through one mutex-ordered tracer "
          "(harness/cmd/cachechk, harness/internal/vt/tracer.go)",
          "throw-away keys of the second namespace are checked by the driver's atomic counters, summarised in 'bulk' events",
          "schedules are those the Go runtime produces under random yields, 2-16 goroutines and GOMAXPROCS 1/2/4/16; the "
          "hash table and its resizing are exercised on the real code, not modelled",
          "Cache.tla abstracts the hash table to one node per key and all charges to 1; its bounds are 2 keys, 2 (quick) "
          "or 3 (thorough) threads, one handle per thread, capacities {0,1}"]

PROCS = [1, 2, 4, 16]
GOROUTINES = [2, 16, 3, 8, 4, 12, 6]     # cycled against PROCS (coprime lengths: every pair occurs)
TIERS = {
    "quick": dict(mc="Cache_quick.cfg", mc_timeout=600,
                  base=(32, ["-epochs", "2", "-rounds", "3", "-ops", "3000"]),
                  hazard=(24, ["-epochs", "24", "-rounds", "1", "-ops", "300", "-close", "soft-gets,force-race,soft-release"])),
    "thorough": dict(mc="Cache_thorough.cfg", mc_timeout=1750,
                     base=(320, ["-epochs", "3", "-rounds", "4", "-ops", "4000"]),
                     hazard=(160, ["-epochs", "60", "-rounds", "1", "-ops", "300", "-close", "soft-gets,force-race,soft-release"])),
}


def design_runs(ctx, tier):
    res = {}
    res["main"] = tlc_mc(ctx, "Cache.tla", tier["mc"], timeout=tier["mc_timeout"],
                         label="Cache as coded, all interleavings (%s)" % tier["mc"])
    r = tlc_mc(ctx, "Cache.tla", "Cache_beforefix.cfg", timeout=600, expect_violation=True,
               label="Cache before fixes e7aceb0/9182bd2, Close overlapping Release (expected to break FinalizeOnce)")
    if not r["violated"] or "Invariant FinalizeOnce is violated" not in r["out"]:
        raise HarnessError("Cache_beforefix.cfg no longer shows the FinalizeOnce counterexample: the model lost its "
                           "sensitivity to F20/F21:\n%s" % r["out"][-1500:])
    res["beforefix"] = r
    r = tlc_mc(ctx, "Cache.tla", "Cache_ascoded_F29.cfg", timeout=600, expect_violation=True,
               label="Cache with mBucket.delete leaving the delete funcs on the removed node (before fix 319ed8d; expected to break CallbackOnce)")
    if not r["violated"] or "Invariant CallbackOnce is violated" not in r["out"]:
        raise HarnessError("Cache_ascoded_F29.cfg no longer shows the CallbackOnce counterexample (F29)")
    res["beforefix_excl"] = tlc_mc(ctx, "Cache.tla", "Cache_beforefix_excl.cfg", timeout=600,
                                   label="Cache before the fixes under CloseExcl (Close never overlaps Release)")
    return res


_seq = [0]


def trace_tlc(ctx, trace, timeout=900):
    """vlib.tlc_trace with a small JVM (many run side by side with the design-spec run)."""
    _seq[0] += 1
    md = ctx.path("c17-md-%d-%d" % (os.getpid(), _seq[0]))
    env = dict(os.environ, TRACE=trace, JAVA_TOOL_OPTIONS="-Xmx2g -Xss512m")
    rc, out, err = vlib.run(["timeout", str(timeout), "tlc", "-workers", "1", "-metadir", md, "-noGenerateSpecTE",
                             "-config", "CacheTrace.cfg", "CacheTrace.tla"], cwd=vlib.SPEC, env=env)
    shutil.rmtree(md, ignore_errors=True)
    out = (out or "") + "\n" + (err or "")
    m = re.search(r'<<"VERIF-HWM", (\d+), (\d+)>>', out)
    if m is None:
        raise HarnessError("trace validation of %s produced no report (rc=%s):\n%s" % (trace, rc, out[-3000:]))
    hwm, n = int(m.group(1)), int(m.group(2))
    i = out.find('"VERIF-STUCK"')
    return {"accepted": hwm == n + 1, "hwm": hwm, "len": n,
            "stuck": out[i:i + 1500].split("\nModel checking")[0] if hwm <= n and i >= 0 else None}


def epoch_of(path, lineno):
    """The reset line that governs `lineno` (closing variant, goroutines, ...)."""
    last = {}
    with open(path) as f:
        for i, line in enumerate(f, 1):
            if i > lineno:
                break
            if '"ev":"reset"' in line:
                last = json.loads(line)
    return last


def mark_known(path, lineno):
    lines = open(path).read().splitlines()
    ev = json.loads(lines[lineno - 1])
    ev["known"] = 1
    lines[lineno - 1] = json.dumps(ev, sort_keys=True, separators=(",", ":"))
    open(path, "w").write("\n".join(lines) + "\n")


def validate_one(ctx, t):
    """Validate one trace; a rejected line that matches a listed known finding is marked and the trace is
    validated again, so that the rest of it still counts.  Returns None when accepted."""
    for _ in range(40):
        r = trace_tlc(ctx, t["path"])
        if r["accepted"]:
            return None
        line = read_line(t["path"], r["hwm"]) or "{}"
        ev = json.loads(line)
        ep = epoch_of(t["path"], r["hwm"])
        sig = "c17:%s:%s" % (ep.get("close", "?"), ev.get("ev"))
        what = ("line %d of %s (epoch %s: %s goroutines, GOMAXPROCS %s, %s keys, closing variant %s) is not accepted "
                "by the C17 monitor: %s" % (r["hwm"], os.path.basename(t["path"]), ep.get("epoch"), ep.get("g"),
                                            ep.get("procs"), ep.get("nk"), ep.get("close"), line[:300]))
        rp = save_replay(ctx, "%s-seed%d" % (t["group"], t["seed"]), [t["path"]],
                         {"property": ctx.pid, "cmd": t["cmd"], "stuck_line": r["hwm"], "event": ev, "epoch": ep, "sig": sig,
                          "context": trace_lines(t["path"], max(1, r["hwm"] - 12), r["hwm"]),
                          "replay": "./check C17 --replay <this directory>  (TRACE=<trace> tlc -workers 1 -config "
                                    "CacheTrace.cfg CacheTrace.tla in /verif/spec)"})
        if report_violation(ctx, sig, what, rp):
            return r
        shutil.rmtree(rp, ignore_errors=True)        # a listed known finding needs no replay
        if ev.get("ev") not in ("finalize", "delfunc", "get-end"):
            raise HarnessError("known finding %s matches a line the monitor cannot step over: %s" % (sig, line[:200]))
        t["known_lines"] = t.get("known_lines", 0) + 1
        mark_known(t["path"], r["hwm"])
    raise HarnessError("more than 40 known-finding lines in %s" % t["path"])


def main(ctx):
    tier = TIERS[ctx.tier]
    exe = build("cachechk")
    jobs = []
    for group in ("base", "hazard"):
        n, args = tier[group]
        for i in range(n):
            jobs.append((group, ctx.seed * 1000 + i, PROCS[i % len(PROCS)], GOROUTINES[i % len(GOROUTINES)], args))

    def drive(job):
        if job == "design":
            return design_runs(ctx, tier)
        group, seed, procs, g, args = job
        out = ctx.path("%s-%d.ndjson" % (group, seed))
        cmd = [exe, "-seed", str(seed), "-procs", str(procs), "-g", str(g), "-out", out] + args
        s = run_driver(cmd, timeout=600)
        s.update(path=out, group=group, cmd=" ".join(cmd).replace(out, "<trace>"))
        s["fail"] = validate_one(ctx, s)
        if s["fail"] is None:
            s["first"] = trace_lines(out, 1, 12)
            os.unlink(out)
        return s

    # the design-spec runs share the machine with the drivers and the (single-threaded) trace validations
    res = parallel(drive, ["design"] + jobs, workers=max(4, ncpu() - 2))
    sums = res[1:]
    for s in sums:
        if s["fail"] is None:
            ctx.traces_ok += 1
            ctx.trace_events += s["events"]

    tot = {"calls": {}, "closes": {}}
    for s in sums:
        for k in ("calls", "closes"):
            for a, b in s.get(k, {}).items():
                tot[k][a] = tot[k].get(a, 0) + b
    agg = lambda k: sum(s.get(k, 0) for s in sums)
    whole = [s for s in sums if not (s.get("panicked") or s.get("hung"))] or sums
    counters = {
        "programs": len(sums),
        "goroutines_range": [min(s.get("goroutines", 2) for s in whole), max(s.get("goroutines", 16) for s in whole)],
        "gomaxprocs_used": sorted(set(s["procs"] for s in whole if "procs" in s)),
        "caches_closed_by_variant": tot["closes"],
        "calls_by_kind": tot["calls"],
        "values_constructed": agg("constructed"), "values_finalised": agg("finalized"),
        "deletes": agg("deletes"), "deletion_callbacks": agg("callbacks"),
        "max_handles_outstanding": max(s.get("max_handles", 0) for s in sums),
        "quiescent_points": agg("quiesce"),
        "table_grows": agg("grow"), "table_shrinks": agg("shrink"), "throwaway_keys": agg("bulk_keys"),
    }
    ctx.extra.update(counters)
    need = {"values_constructed": 100, "deletion_callbacks": 100, "quiescent_points": 10, "table_grows": 10,
            "table_shrinks": 10, "max_handles_outstanding": 2}
    incomplete = len(whole) != len(sums)
    for k, v in need.items():
        if counters[k] < v and not incomplete:
            raise HarnessError("drivers did not exercise the cache enough: %s = %s" % (k, counters[k]))
    if not incomplete and (counters["gomaxprocs_used"] != PROCS or counters["goroutines_range"] != [2, 16]):
        raise HarnessError("drivers did not cover the GOMAXPROCS / goroutine range: %s" % counters)
    for v in ("force-alone", "soft-release", "soft-gets", "force-race"):
        if tot["closes"].get(v, 0) == 0 and not incomplete:
            raise HarnessError("closing variant %s never ran" % v)

    ctx.extra["known_finding_lines_stepped_over"] = sum(s.get("known_lines", 0) for s in sums)
    if sums:
        ok = [x for x in sums if x["fail"] is None] or sums
        ctx.samples.append({"program": ok[0]["cmd"], "first_events": ok[0].get("first", [])})
    cov = mc_coverage(ctx, {"design_spec_before_fixes": "Cache_beforefix.cfg breaks FinalizeOnce as expected (F20/F21)"})
    return finish(ctx, "model_checking", cov, ASSUME)


def replay(ctx, path):
    files = sorted(glob.glob(os.path.join(path, "*.ndjson"))) if os.path.isdir(path) else [path]
    bad = 0
    for f in files:
        r = trace_tlc(ctx, f)
        if not r["accepted"]:
            bad += 1
            print("VIOLATION property=%s replay=%s" % (ctx.pid, path))
            log("  line %d: %s" % (r["hwm"], r["stuck"]))
    ctx.cleanup()
    return 1 if bad else 0
