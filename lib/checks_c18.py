from kvchecks import kv_main, kv_replay


def sig(t, ev):
    if ev.get("ev") == "quiet":
        return "c18:quiet:%s:%s:%s" % (ev.get("what"), "opened" if ev.get("opened_ro") else "switched", ev.get("filetypes", ""))
    return "c18:%s" % ev.get("ev")


def _pre(ctx):
    from fstor import fstor_ro_part
    fstor_ro_part(ctx)       # read-only opens of the REAL file storage (every other part runs on the recording storage)


def main(ctx):
    return kv_main(ctx, "c18", sig_fn=sig, need_comp=("mem",), pre=_pre)


def replay(ctx, path):
    import glob
    import json
    import os
    imgs = glob.glob(os.path.join(path, "fs-image*.ndjson")) if os.path.isdir(path) else []
    if imgs:
        from fstor import replay_image
        bad = replay_image(ctx, imgs[0], json.load(open(os.path.join(path, "meta.json"))))
        if bad:
            print("VIOLATION property=%s replay=%s" % (ctx.pid, path))
        ctx.cleanup()
        return 1 if bad else 0
    return kv_replay(ctx, path)
