from kvchecks import kv_main, kv_replay


def sig(t, ev):
    if ev.get("ev") == "quiet":
        return "c18:quiet:%s:%s:%s" % (ev.get("what"), "opened" if ev.get("opened_ro") else "switched", ev.get("filetypes", ""))
    return "c18:%s" % ev.get("ev")


def main(ctx):
    return kv_main(ctx, "c18", sig_fn=sig, need_comp=("mem",))


def replay(ctx, path):
    return kv_replay(ctx, path)
