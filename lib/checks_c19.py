"""C19: Recover rebuilds the DB from its table and journal files."""
import json
import os

from checks_c04 import judge
from vlib import build, finish, mc_coverage, parallel, run_driver, tlc_mc, tlc_trace, trace_lines, log

ASSUME = ["the DB was shut down cleanly and settled (Close, Open, Close) before the damage; settledness is checked, not assumed",
          "which entries survive block damage is determined by the harness scanning the damaged table with the table reader (checksums on)",
          "TLC, the Json module and the harness's storage are trusted"]


def sig_of(ev):
    if ev.get("ev") == "recoverdb":
        return "c19:recover:%s:%s" % ("fail" if ev.get("ok") != 1 else "contents", "damaged" if ev.get("tables_damaged") else "intact")
    return "c19:%s" % ev.get("ev")


def main(ctx):
    tlc_mc(ctx, "Durable.tla", "Durable_quick.cfg", timeout=900, label="Durable.tla (recovery arithmetic shared with Open)")
    exe = build("recoverdb")
    nprog, nsteps, variants = (64, 220, 15) if ctx.quick else (300, 500, 30)
    seeds = [ctx.seed * 1000 + i for i in range(nprog)]

    # a few almost empty databases too (nothing or a handful of writes, all still in the journal, no table yet)
    tiny = {ctx.seed * 1000 + 900 + i: i // 2 for i in range(4 if ctx.quick else 12)}
    seeds += list(tiny)

    def drive(seed):
        out = ctx.path("recover-%d.ndjson" % seed)
        args = [exe, "-seed", str(seed), "-n", str(tiny.get(seed, nsteps) if seed in tiny else nsteps), "-out", out, "-variants", str(variants)]
        s = run_driver(args, timeout=1200)
        s["path"] = out
        s["cmd"] = " ".join(args)
        return s

    sums = parallel(drive, seeds)
    judge(ctx, sums, spec="RecoverTrace.tla", cfg="RecoverTrace.cfg", sigf=sig_of)
    ctx.samples.append({"run": sums[0]["cmd"], "recover_lines": [x for x in trace_lines(sums[0]["path"], 1, 2000)
                                                                   if x.get("ev") == "recoverdb"][:2]})
    cov = mc_coverage(ctx, {"workloads": len(sums), "recovers": sum(s["recovers"] for s in sums),
                            "recovers_with_table_damage": sum(s["with_table_damage"] for s in sums),
                            "unsettled_workloads": sum(1 for s in sums if not s["settled"]),
                            "manifest_damage_modes": ["removed", "truncated", "garbled", "current-lost"],
                            "option_rows": sorted(set(s["row"] for s in sums))[:40]})
    return finish(ctx, "model_checking", cov, ASSUME)


def replay(ctx, path):
    import glob
    bad = 0
    for f in sorted(glob.glob(os.path.join(path, "*.ndjson"))):
        r = tlc_trace(ctx, "RecoverTrace.tla", "RecoverTrace.cfg", f)
        if not r["accepted"]:
            bad += 1
            print("VIOLATION property=%s replay=%s" % (ctx.pid, path))
            log("  line %d: %s" % (r["hwm"], r["stuck"]))
    ctx.cleanup()
    return 1 if bad else 0
