from kvchecks import kv_main, kv_replay


def concurrent_part(ctx):
    """Write must not modify the caller's batch: only visible when another writer's Put is merged into a Write leader."""
    from concfam import conc_runs, judge
    n = 10 if ctx.quick else 80
    jobs = [{"seed": ctx.seed * 1000 + i, "tag": "c20", "writers": 3 + i % 3, "readers": 1, "n": 150 if ctx.quick else 400}
            for i in range(n)]
    # a value returned by Get is a private copy also while the buffer it came from is frozen, flushed and recycled:
    # large values, write buffers of four values, several readers
    jobs += [{"seed": ctx.seed * 1000 + 500 + i, "tag": "c20huge", "writers": 2, "readers": 4, "n": 60 if ctx.quick else 150,
              "huge": [256, 512, 1024][i % 3], "nkeys": 4} for i in range(6 if ctx.quick else 36)]
    judge(ctx, conc_runs(ctx, jobs), "C20", cfg="ConcTraceLin.cfg")


def main(ctx):
    return kv_main(ctx, "c20", pre=concurrent_part)


def replay(ctx, path):
    return kv_replay(ctx, path)
