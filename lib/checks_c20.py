from kvchecks import kv_main, kv_replay


def main(ctx):
    return kv_main(ctx, "c20")


def replay(ctx, path):
    return kv_replay(ctx, path)
