"""C05 / C09 / C10: concurrent histories of the real DB (client call/return lines + write-path and lock
hook lines) validated by TLC against ConcTrace.tla; design specs WriteProto.tla, ReadPath.tla, Locks.tla."""
import json
import os

from kvfam import neutralise_line, validate_traces
from vlib import (build, finish, log, mc_coverage, parallel, read_line, report_violation, run_driver,
                  save_replay, tlc_mc, tlc_trace, trace_lines)

ASSUME = ["every trace line went through one mutex with a global sequence number: file order is a real-time order",
          "hook lines are emitted while the lock protecting the described state is held (write lock token, commit lock); "
          "publication instants are bracketed by a begin and an end line around the atomic update of the sequence number",
          "write contents are unique, so the hook's content hash identifies the client operation",
          "a blocked call is judged after a bounded wait (20 s without any progress, faults healed first)",
          "TLC, the Json module and the harness are trusted"]


def owner(ev, trace_path, lineno):
    """Which property does a rejected line belong to?"""
    k = ev.get("ev")
    if k == "hk":
        h = ev.get("h", "")
        if h.startswith("cl:") or h.startswith("tx:"):
            return {"C09", "C11"}
        return {"C10"}
    if k == "quiesce":
        return {"C09"}
    if k == "ret" and ev.get("err") == "batch-modified":
        return {"C20", "C10"}
    if k == "ret":
        # find the call
        kind = None
        for x in reversed(trace_lines(trace_path, max(1, lineno - 4000), lineno)):
            if x.get("ev") == "call" and x.get("op") == ev.get("op"):
                kind = x.get("kind")
                break
        if kind in ("get", "snapall", "iterall"):
            return {"C05"}
        if kind in ("put", "write"):
            return {"C10", "C05", "C09"}
        return {"C09"}
    return {"C10", "C05", "C09"}


def conc_runs(ctx, jobs):
    """jobs: list of dicts with concdb flags."""
    exe = build("concdb")

    def drive(j):
        name = "conc-%d-%s" % (j["seed"], j.get("tag", "x"))
        out = ctx.path(name + ".ndjson")
        args = [exe, "-seed", str(j["seed"]), "-out", out, "-n", str(j.get("n", 120)),
                "-writers", str(j.get("writers", 3)), "-readers", str(j.get("readers", 2))]
        if j.get("close"):
            args.append("-close")
        if j.get("fault"):
            args += ["-fault", j["fault"]]
        if j.get("fat"):
            args += ["-fat", str(j["fat"])]
        if j.get("setro"):
            args.append("-setro")
        if j.get("huge"):
            args += ["-huge", str(j["huge"])]
        if j.get("nkeys"):
            args += ["-nkeys", str(j["nkeys"])]
        s = run_driver(args, timeout=600)
        s["path"] = out
        s["cmd"] = " ".join(args)
        s["name"] = name
        return s

    return parallel(drive, jobs, workers=12)


def judge(ctx, sums, label, cfg="ConcTrace.cfg"):
    other = 0
    pending = sums
    for _round in range(12):
        fails = validate_traces(ctx, "ConcTrace.tla", cfg, pending, chunk=3, timeout=1200)
        pending = []
        for t, r in fails:
            line = read_line(t["path"], r["hwm"]) or "{}"
            ev = json.loads(line)
            own = owner(ev, t["path"], r["hwm"])
            if ctx.pid in own:
                sig = "%s:%s:%s" % (ctx.pid.lower(), ev.get("ev"), ev.get("h", ev.get("kinds", "")))
                what = "line %d of %s rejected by ConcTrace.tla: %s (row: %s)" % (r["hwm"], t["name"], line[:500], t["row"])
                rp = save_replay(ctx, t["name"], [t["path"]],
                                 {"property": ctx.pid, "cmd": t["cmd"], "stuck_line": r["hwm"], "event": ev, "row": t["row"],
                                  "context": [json.dumps(x)[:300] for x in trace_lines(t["path"], max(1, r["hwm"] - 14), r["hwm"])]})
                report_violation(ctx, sig, what, rp)
                if ev.get("ev") == "quiesce":
                    continue
            else:
                other += 1
                log("note: line %d of %s (%s) rejected; it belongs to %s" % (r["hwm"], t["name"], ev.get("ev"), sorted(own)))
                if ctx.pid == "C09":
                    # the rest of the history cannot be replayed, but its end can still be judged:
                    # ConcTrace's Quiesce action on the recorded quiesce line (nothing may be pending)
                    last = trace_lines(t["path"], t["events"], t["events"])
                    if last and last[0].get("ev") == "quiesce":
                        mini = ctx.path("mini-" + t["name"] + ".ndjson")
                        with open(mini, "w") as f:
                            f.write(json.dumps({"ev": "reset"}) + "\n" + json.dumps(last[0]) + "\n")
                        rr = tlc_trace(ctx, "ConcTrace.tla", cfg, mini)
                        if not rr["accepted"]:
                            sig = "c09:quiesce:%s" % ",".join(sorted(set(last[0].get("kinds", []))))
                            rp = save_replay(ctx, t["name"] + "-quiesce", [t["path"], mini],
                                             {"property": ctx.pid, "cmd": t["cmd"], "event": last[0], "row": t["row"]})
                            report_violation(ctx, sig, "calls never returned: %s" % json.dumps(last[0])[:600], rp)
            # a rejected hook line leaves the monitor state undefined for the rest of this history: stop this trace here
    ctx.extra["lines_rejected_for_other_properties"] = other
    ctx.extra.setdefault("histories", 0)
    ctx.extra["histories"] += len(sums)
    ctx.extra["client_calls"] = ctx.extra.get("client_calls", 0) + sum(s.get("ops", 0) for s in sums)


def replay(ctx, path):
    import glob
    bad = 0
    for f in sorted(glob.glob(os.path.join(path, "*.ndjson"))):
        r = tlc_trace(ctx, "ConcTrace.tla", "ConcTrace.cfg", f)
        if not r["accepted"]:
            bad += 1
            print("VIOLATION property=%s replay=%s" % (ctx.pid, path))
            log("  line %d: %s" % (r["hwm"], r["stuck"]))
    ctx.cleanup()
    return 1 if bad else 0
