"""Fault enumeration shared by C08 (answers under storage faults) and C09 (no call blocks forever):
a fault-free reference run of the seeded sequential workload yields the per-(kind, file type)
operation counts; every chosen position (kind x file type x index x repetition mode) is then injected
into a re-run of the same workload, which continues with further calls, heals, closes and reopens."""
import random

from vlib import build, parallel, run_driver

KINDS = ["create", "write", "sync", "close", "open", "read", "remove", "setmeta"]
FTS = ["journal", "manifest", "table"]


def positions(opcount, rng, per_pair, exhaustive_cap=0):
    pos = []
    for k in KINDS:
        for ft in FTS:
            c = opcount.get("%s:%s" % (k, ft), 0)
            if c == 0:
                continue
            if exhaustive_cap and c <= exhaustive_cap:
                idxs = list(range(1, c + 1))
            else:
                cand = {1, 2, 3, c, max(1, c // 2)}
                while len(cand) < min(per_pair, c):
                    cand.add(rng.randint(1, c))
                idxs = sorted(cand)[:max(per_pair, 5)]
            for i in idxs:
                mode = rng.choice([1, 1, 1, 3, 0])
                f = "%s:%s:%d:%d" % (k, ft, i, mode)
                if k == "write" and rng.random() < 0.4:
                    f += ":torn"
                pos.append(f)
    return pos


def hot_positions(hot, rng, per_call):
    """Positions that fall inside the rare paths (oversize-batch Write, OpenTransaction, transaction write/commit):
    one fault at the first create/sync of each table or manifest touched there, plus a sample of the rest."""
    pos = []
    for call, lst in sorted((hot or {}).items()):
        firsts, seen = [], set()
        for p in lst:
            kind, ft, _ = p.split(":")
            if kind in ("create", "sync", "setmeta", "open", "close") and (kind, ft) not in seen:
                seen.add((kind, ft))
                firsts.append(p)
        rest = [p for p in lst if p not in firsts]
        rng.shuffle(rest)
        for p in firsts + rest[:max(0, per_call - len(firsts))]:
            pos.append("%s:%d" % (p, rng.choice([1, 1, 0])))
        if call.endswith("compaction"):
            # the end of every output table of a compaction (F25, F26: a failed Close of a compaction output)
            for p in [q for q in lst if q.startswith("close:")][:4]:
                for mode in (1, 3):
                    f = "%s:%d" % (p, mode)
                    if f not in pos:
                        pos.append(f)
    return pos


def fault_runs(ctx, nseeds, nsteps, per_pair, hang_s, exhaustive_cap=0, nkeys=16):
    exe = build("seqdb")
    rng = random.Random(ctx.seed)
    jobs = []
    refs = []
    for i in range(nseeds):
        seed = ctx.seed * 1000 + i
        ref = run_driver([exe, "-mode", "c08", "-seed", str(seed), "-n", str(nsteps), "-nkeys", str(nkeys),
                          "-out", ctx.path("ref-%d.ndjson" % seed)])
        refs.append(ref)
        for f in positions(ref.get("opcount") or {}, rng, per_pair, exhaustive_cap):
            jobs.append((seed, f))
        for f in hot_positions(ref.get("hot"), rng, 6 if not exhaustive_cap else 30):
            if (seed, f) not in jobs:
                jobs.append((seed, f))

    # faults inside table compactions below level 0 (retry from a saved compaction state): these need more data than
    # the short workloads hold, so a few long workloads are run with positions taken only from inside such compactions
    deep = []
    want, found = (2 if not exhaustive_cap else 8), 0
    for i in range(40):
        if found >= want:
            break
        seed = ctx.seed * 1000 + 500 + i
        ref = run_driver([exe, "-mode", "c08", "-seed", str(seed), "-n", "1500", "-nkeys", str(nkeys),
                          "-out", ctx.path("deepref-%d.ndjson" % seed)])
        lst = (ref.get("hot") or {}).get("deepcompaction", [])
        if len(lst) < 10:
            continue          # this option row never compacted below level 0
        found += 1
        rng.shuffle(lst)
        for p in lst[:20 if not exhaustive_cap else 80]:
            deep.append((seed, "%s:%d" % (p, rng.choice([1, 1, 3]))))
    ctx.extra["fault_positions_inside_deep_compactions"] = len(deep)

    def drive(job):
        seed, f = job
        out = ctx.path("fault-%d-%s.ndjson" % (seed, f.replace(":", "_")))
        args = [exe, "-mode", "c08", "-seed", str(seed), "-n", str(1500 if job in deepset else nsteps), "-nkeys", str(nkeys), "-out", out,
                "-fault", f, "-hang", str(hang_s)]
        s = run_driver(args, timeout=900)
        s["fault"] = f
        s["seed"] = seed
        s["path"] = out
        s["cmd"] = " ".join(args)
        return s

    deepset = set(deep)
    sums = parallel(drive, jobs + deep, workers=16)
    return refs, sums
