"""The file storage's CURRENT protocol (part of C04 below the Storage interface): spec/FileStore.tla.

1. TLC checks FileStore.tla exhaustively (crash anywhere, also inside the restoring GetMeta of a previous recovery) and dumps
   its state graph; the variants without the pointer-file fsync / without the manifest sync must be refuted (thorough tier).
2. spec -> code: every distinct post-crash directory of the dump is materialised and the REAL GetMeta (read-only and writable
   open) is asked.  Verdict: its answer must lie in the acceptable set of every history that reaches that directory
   (acknowledged manifest, or the complete one in flight); after a writable GetMeta CURRENT must name the answer and no
   pending-rename file may remain.  A different-but-acceptable answer is recorded as drift of the transcription, not as a violation.
3. code -> spec: the system calls of the real SetMeta / restoring GetMeta (strace of an unmodified build running
   `fstorchk -mode drive`) are validated by FileStoreTrace.tla: after every call, every crash image must be safe."""
import json
import os
import random
import re
import shutil

from vlib import GOENV, HarnessError, build, log, report_violation, run, save_replay, tlc_mc, tlc_trace

_node = re.compile(r'^(-?\d+) \[label="(.*?)"(,style = filled)?\]', re.M)


def _fields(label):
    d = {}
    cur = None
    for part in label.split("\\n"):
        m = re.match(r"/\\\\ (\w+) = (.*)$", part)
        if m:
            cur = m.group(1)
            d[cur] = m.group(2).replace('\\"', '"')
        elif cur:
            d[cur] += " " + part.replace('\\"', '"')
    return d


def _img(v):
    return tuple(sorted((k, int(n), int(c)) for k, n, c in re.findall(r'<<"(\w+)", (\d+)>> :> (-?\d+)', v) if int(c) != -2))


def images(dot):
    text = open(dot).read()
    res = {}
    for m in _node.finditer(text):
        f = _fields(m.group(2))
        if f.get("pc") != '"recover"':
            continue
        im = _img(f["img"])
        acc = frozenset(int(x) for x in re.findall(r"-?\d+", f["acc"]))
        e = res.setdefault(im, {"got": set(), "accs": set(), "committed": set()})
        e["got"].add(int(f["got"]))
        e["accs"].add(acc)
        e["committed"].add(int(f["committed"]))
    if not res:
        raise HarnessError("FileStore dump holds no post-crash state")
    return res


# ------------------------------------------------------------------ strace -> events

_line = re.compile(r"^(\d+)\s+(.*)$")


def _join(lines):
    """Join '<unfinished ...>' / '<... resumed>' pairs; order by completion."""
    pend = {}
    for ln in lines:
        m = _line.match(ln.rstrip("\n"))
        if not m:
            continue
        pid, rest = m.group(1), m.group(2)
        if rest.endswith("<unfinished ...>"):
            pend[pid] = rest[:-len("<unfinished ...>")]
            continue
        r = re.match(r"<\.\.\. (\w+) resumed>(.*)$", rest)
        if r:
            rest = pend.pop(pid, r.group(1) + "(") + r.group(2)
        yield rest


def _name(path, d):
    if os.path.dirname(path) != d:
        return None
    b = os.path.basename(path)
    if b == "CURRENT":
        return ("cur", 0)
    if b == "CURRENT.bak":
        return ("bak", 0)
    m = re.fullmatch(r"CURRENT\.(\d+)", b)
    if m:
        return ("p", int(m.group(1)))
    m = re.fullmatch(r"MANIFEST-(\d+)", b)
    if m:
        return ("m", int(m.group(1)))
    return None


def parse_strace(path, d):
    ev = []
    for s in _join(open(path, errors="replace")):
        m = re.match(r"(\w+)\((.*)\)\s+= (-?\d+)", s)
        if not m:
            continue
        call, args, ret = m.group(1), m.group(2), int(m.group(3))
        if call in ("newfstatat", "stat", "statx", "lstat"):
            mm = re.search(r'"/VERIF-MARK/([\w-]+)/(\d+)"', args)
            if mm:
                if mm.group(1) == "start":
                    ev = []          # everything before is the driver preparing the directory
                else:
                    ev.append({"op": "mark", "what": mm.group(1), "n": int(mm.group(2))})
            continue
        if ret < 0:
            continue
        if call in ("openat", "open", "creat"):
            mm = re.search(r'"([^"]+)", ([A-Z_|0-9]+)', args)
            if mm and ("O_TRUNC" in mm.group(2) or call == "creat"):
                nm = _name(mm.group(1), d)
                if nm:
                    ev.append({"op": "open", "k": nm[0], "n": nm[1], "c": 0, "k2": "-", "n2": 0})
        elif call in ("write", "pwrite64", "writev"):
            mm = re.match(r'\d+<([^>]+)>, "((?:[^"\\]|\\.)*)"', args)
            if mm:
                nm = _name(mm.group(1), d)
                if nm:
                    data = mm.group(2)
                    c = -1
                    if nm[0] == "m":
                        c = 1
                    else:
                        pm = re.fullmatch(r"MANIFEST-(\d+)\\n", data)
                        if pm:
                            c = int(pm.group(1))
                    ev.append({"op": "write", "k": nm[0], "n": nm[1], "c": c, "k2": "-", "n2": 0})
        elif call in ("fsync", "fdatasync"):
            mm = re.match(r"\d+<([^>]+)>", args)
            if mm:
                if mm.group(1) == d:
                    ev.append({"op": "fsync", "k": "dir", "n": 0, "c": 0, "k2": "-", "n2": 0})
                else:
                    nm = _name(mm.group(1), d)
                    if nm:
                        ev.append({"op": "fsync", "k": nm[0], "n": nm[1], "c": 0, "k2": "-", "n2": 0})
        elif call in ("rename", "renameat", "renameat2"):
            ps = re.findall(r'"([^"]+)"', args)
            if len(ps) >= 2:
                a, b = _name(ps[0], d), _name(ps[1], d)
                if a or b:
                    if not (a and b):
                        raise HarnessError("rename between a tracked and an untracked name: %s" % s)
                    ev.append({"op": "rename", "k": a[0], "n": a[1], "c": 0, "k2": b[0], "n2": b[1]})
        elif call in ("unlink", "unlinkat"):
            ps = re.findall(r'"([^"]+)"', args)
            if ps:
                nm = _name(ps[0], d)
                if nm:
                    ev.append({"op": "unlink", "k": nm[0], "n": nm[1], "c": 0, "k2": "-", "n2": 0})
    return ev


def to_trace(ev, image=None, committed=0):
    """Markers -> begin/end lines.  A restoring GetMeta is bracketed by getmeta-begin / getmeta-end g: its system calls are a
    setMeta(g), so 'begin g' is placed where it started and 'end g' where it returned."""
    out = []
    if image is not None:
        out.append({"op": "image", "files": [[k, n, c] for k, n, c in image] or [["m", 1, 1]][:0], "committed": committed,
                    "k": "-", "n": 0, "c": 0, "k2": "-", "n2": 0})
    gm_at = None
    for e in ev:
        if e["op"] != "mark":
            out.append(e)
            continue
        if e["what"] == "begin":
            out.append({"op": "begin", "k": "-", "n": e["n"], "c": 0, "k2": "-", "n2": 0})
        elif e["what"] == "end":
            out.append({"op": "end", "k": "-", "n": e["n"], "c": 0, "k2": "-", "n2": 0})
        elif e["what"] == "getmeta-begin":
            gm_at = len(out)
        elif e["what"] == "getmeta-end":
            g = e["n"]
            if gm_at is not None and g > 0 and len(out) > gm_at:     # it did something: a restore
                out.insert(gm_at, {"op": "begin", "k": "-", "n": g, "c": 0, "k2": "-", "n2": 0})
                out.append({"op": "end", "k": "-", "n": g, "c": 0, "k2": "-", "n2": 0})
            gm_at = None
    return out


def strace_run(ctx, exe, tag, image=None, committed=0, n=3):
    d = ctx.path("fs-" + tag)
    shutil.rmtree(d, ignore_errors=True)
    os.makedirs(d)
    st = ctx.path("strace-%s.txt" % tag)
    args = ["strace", "-f", "-y", "-s", "96", "-o", st, "-e",
            "trace=openat,open,creat,write,pwrite64,writev,fsync,fdatasync,rename,renameat,renameat2,unlink,unlinkat,newfstatat,stat,statx,lstat",
            exe, "-mode", "drive", "-dir", d, "-n", str(n)]
    if image is not None:
        args += ["-image", json.dumps({"files": [[k, nn, c] for k, nn, c in image]})]
    rc, out, err = run(args, timeout=300, env=GOENV)
    if rc != 0:
        raise HarnessError("strace/fstorchk drive failed (%s): %s" % (rc, (err or "")[-1500:]))
    ev = parse_strace(st, d)
    tr = to_trace(ev, image, committed)
    if sum(1 for e in tr if e["op"] == "rename") == 0:
        raise HarnessError("no rename seen in the system-call trace of %s (strace output unusable?)" % tag)
    tp = ctx.path("fstrace-%s.ndjson" % tag)
    with open(tp, "w") as f:
        for e in tr:
            f.write(json.dumps(e) + "\n")
    shutil.rmtree(d, ignore_errors=True)
    return tp, st, len(tr)


def fstor_part(ctx):
    exe = build("fstorchk")
    cfg = "FileStore_quick.cfg" if ctx.quick else "FileStore_thorough.cfg"
    dot = ctx.path("filestore.dot")
    tlc_mc(ctx, "FileStore.tla", cfg, timeout=2400, workers=1, extra=["-dump", "dot", dot],
           label="FileStore.tla: CURRENT switching and GetMeta under crashes (any subset of pending directory operations, torn unsynced data)")
    if not ctx.quick:
        st, tr, nr = ctx.mc["states"], ctx.mc["transitions"], len(ctx.mc["runs"])
        for v in ("nosyncptr", "nosyncman"):
            r = tlc_mc(ctx, "FileStore.tla", "FileStore_%s.cfg" % v, timeout=600, expect_violation=True, label="FileStore variant %s (must fail)" % v)
            if not r["violated"]:
                raise HarnessError("FileStore variant %s is not refuted: the model is vacuous" % v)
        ctx.mc["states"], ctx.mc["transitions"] = st, tr
        del ctx.mc["runs"][nr:]
    imgs = images(dot)
    keys = sorted(imgs)
    inp = ctx.path("fs-images.ndjson")
    with open(inp, "w") as f:
        for im in keys:
            f.write(json.dumps({"files": [[k, n, c] for k, n, c in im]}) + "\n")
    rc, out, err = run([exe, "-mode", "getmeta", "-in", inp], timeout=1200, env=GOENV)
    if rc != 0:
        raise HarnessError("fstorchk getmeta failed (%s): %s" % (rc, (err or "")[-1500:]))
    lines = [json.loads(x) for x in out.strip().splitlines()]
    if len(lines) != len(keys):
        raise HarnessError("fstorchk answered %d of %d images" % (len(lines), len(keys)))
    drift = 0
    bad = []
    for im, r in zip(keys, lines):
        e = imgs[im]
        for mode in ("ro", "rw"):
            g = r[mode]
            for acc in e["accs"]:
                if g not in acc:
                    bad.append((im, mode, g, sorted(acc), r[mode + "err"]))
                    break
            if g not in e["got"]:
                drift += 1
        if r["rw"] > 0:
            after = {(k, n): c for k, n, c in r["after"]}
            if after.get(("cur", 0)) != r["rw"] or any(k == "p" for k, _ in after):
                bad.append((im, "restore", r["rw"], [], "after a writable GetMeta: %s" % r["after"]))
    for im, mode, g, acc, errs in bad[:3]:
        rp = ctx.path("fs-image-bad.ndjson")
        with open(rp, "w") as f:
            f.write(json.dumps({"files": [[k, n, c] for k, n, c in im]}) + "\n")
        dst = save_replay(ctx, "filestore-getmeta", [rp], {"image": im, "mode": mode, "real_answer": g, "acceptable": acc, "error": errs})
        report_violation(ctx, "c04:filestore:getmeta:%s" % mode,
                         "real GetMeta (%s) on the post-crash directory %s answers %s (%s); acceptable: %s" % (mode, list(im), g, errs, acc), dst)
    # code -> spec: system calls of the real SetMeta / restore
    rng = random.Random(ctx.seed)
    cands = [im for im in keys if any(k == "p" for k, _, _ in im) and imgs[im]["got"] != {0}]
    rng.shuffle(cands)
    jobs = [("fresh", None, 0)] + [("img%d" % i, im, min(imgs[im]["committed"])) for i, im in enumerate(cands[:(5 if ctx.quick else 40)])]
    ntr = 0
    for tag, im, com in jobs:
        tp, st, n = strace_run(ctx, exe, tag, im, com)
        r = tlc_trace(ctx, "FileStoreTrace.tla", "FileStoreTrace.cfg", tp, timeout=600)
        ntr += 1
        if r["accepted"]:
            ctx.traces_ok += 1
            ctx.trace_events += n
        else:
            dst = save_replay(ctx, "filestore-syscalls-%s" % tag, [tp, st], {"stuck_line": r["hwm"], "event": r["stuck"], "image": im})
            report_violation(ctx, "c04:filestore:syscalls",
                             "system call %d of the real file storage (%s) leads to a state in which some crash image makes GetMeta "
                             "answer an unacceptable or incomplete manifest: %s" % (r["hwm"], tag, str(r["stuck"])[:300]), dst)
    res = {"post_crash_directories_replayed_on_real_GetMeta": len(keys), "histories_reaching_them": sum(len(e["accs"]) for e in imgs.values()),
           "answers_differing_from_transcription_but_acceptable": drift, "unacceptable_answers": len(bad),
           "syscall_traces_validated": ntr}
    ctx.extra["file_storage_current_protocol"] = res
    log("  FileStore: %d post-crash directories on the real GetMeta (drift %d, bad %d), %d system-call traces" % (len(keys), drift, len(bad), ntr))
    return res


def replay_image(ctx, f, meta):
    """Re-ask the real GetMeta about a saved post-crash directory; True if its answer is still unacceptable."""
    exe = build("fstorchk")
    rc, out, err = run([exe, "-mode", "getmeta", "-in", f], timeout=300, env=GOENV)
    if rc != 0:
        raise HarnessError("fstorchk getmeta failed (%s): %s" % (rc, (err or "")[-1500:]))
    r = json.loads(out.strip().splitlines()[-1])
    mode = meta.get("mode", "ro")
    if mode == "ro-unchanged":
        return bool(r.get("ro_changed"))
    if mode == "restore":
        after = {(k, n): c for k, n, c in r["after"]}
        return r["rw"] > 0 and (after.get(("cur", 0)) != r["rw"] or any(k == "p" for k, _ in after))
    return r[mode] not in meta.get("acceptable", [])


def fstor_ro_part(ctx):
    """C18: a read-only open of the real file storage on any post-crash directory FileStore.tla reaches (pending-rename
    files, damaged or dangling pointers) answers GetMeta without creating, modifying, renaming or deleting a stored file."""
    exe = build("fstorchk")
    dot = ctx.path("filestore.dot")
    tlc_mc(ctx, "FileStore.tla", "FileStore_quick.cfg" if ctx.quick else "FileStore_thorough.cfg", timeout=2400, workers=1,
           extra=["-dump", "dot", dot], label="FileStore.tla: the post-crash directories a read-only open may meet")
    imgs = images(dot)
    keys = sorted(imgs)
    inp = ctx.path("fs-images.ndjson")
    with open(inp, "w") as f:
        for im in keys:
            f.write(json.dumps({"files": [[k, n, c] for k, n, c in im]}) + "\n")
    rc, out, err = run([exe, "-mode", "getmeta", "-in", inp], timeout=1200, env=GOENV)
    if rc != 0:
        raise HarnessError("fstorchk getmeta failed (%s): %s" % (rc, (err or "")[-1500:]))
    lines = [json.loads(x) for x in out.strip().splitlines()]
    if len(lines) != len(keys):
        raise HarnessError("fstorchk answered %d of %d images" % (len(lines), len(keys)))
    bad = [(im, r) for im, r in zip(keys, lines) if r.get("ro_changed")]
    for im, r in bad[:3]:
        rp = ctx.path("fs-image-ro.ndjson")
        with open(rp, "w") as f:
            f.write(json.dumps({"files": [[k, n, c] for k, n, c in im]}) + "\n")
        dst = save_replay(ctx, "filestore-readonly", [rp], {"image": im, "mode": "ro-unchanged", "changed": r["ro_changed"]})
        report_violation(ctx, "c18:filestore:ro-open-modifies",
                         "a read-only open of the file storage on the directory %s changed stored files: %s" % (list(im), r["ro_changed"]), dst)
    ctx.extra["file_storage_read_only_opens"] = {"post_crash_directories": len(keys), "with_pending_rename_files": sum(1 for im in keys if any(k == "p" for k, _, _ in im)),
                                                 "opens_that_changed_a_stored_file": len(bad)}
    log("  FileStore (read-only): %d directories opened read-only, %d changed" % (len(keys), len(bad)))
