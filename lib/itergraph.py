"""Spec -> code for the component iterators (C02): TLC dumps the complete state graph of
spec/Merged.tla and spec/Indexed.tla (every layout is an initial state); every edge of the graph
becomes one program (shortest path from the initial state + that edge) replayed on the real
iterator.NewMergedIterator / NewIndexedIterator by harness/cmd/iterchk, which compares the
return value, Valid, Key, Value and Error with the state the specification reaches."""
import json
import os
import re

from vlib import HarnessError, build, log, report_violation, run, save_replay, tlc_mc, GOENV

_node = re.compile(r'^(-?\d+) \[label="(.*?)"(,style = filled)?\]', re.M)
_edge = re.compile(r'^(-?\d+) -> (-?\d+) \[label="([^"]+)"', re.M)


def _fields(label):
    d = {}
    for part in label.split("\\n"):
        m = re.match(r"/\\\\ (\w+) = (.*)$", part)
        if m:
            d[m.group(1)] = m.group(2).replace('\\"', '"')
    return d


def _seq(v):
    return [int(x) for x in re.findall(r"-?\d+", v)]


def _set(v):
    return [int(x) for x in re.findall(r"-?\d+", v)]


def _last(v):
    m = re.match(r'<<"(\w+)", (-?\d+)>>', v)
    return m.group(1), int(m.group(2))


def _merged(f):
    valid = f["dir"] in ('"fwd"', '"bwd"')
    key = _seq(f["keys"])[int(f["index"]) - 1] if valid else 0
    name, arg = _last(f["last"])
    return [name, arg, 1 if f["ok"] == "TRUE" else 0, 1 if valid else 0, key]


def _indexed(f):
    valid = f["has"] == "TRUE" and int(f["dp"]) not in (0, _indexed.eoi)
    name, arg = _last(f["last"])
    return [name, arg, 1 if f["ok"] == "TRUE" else 0, 1 if valid else 0, int(f["dp"]) if valid else 0, 1 if f["err"] == "TRUE" else 0]


def programs(dot, kind, consts):
    text = open(dot).read()
    nodes = {m.group(1): _fields(m.group(2)) for m in _node.finditer(text)}
    succ = {}
    nedges = 0
    for m in _edge.finditer(text):
        succ.setdefault(m.group(1), []).append(m.group(2))
        nedges += 1
    inits = [n for n, f in nodes.items() if f["last"].startswith('<<"new"')]
    if not inits or not nedges:
        raise HarnessError("state graph dump of %s has no initial states or no edges" % kind)
    if kind == "indexed":
        _indexed.eoi = 2 * consts["NKeys"] + 2
    step = _merged if kind == "merged" else _indexed
    # shortest-path tree from the initial states
    parent = {n: None for n in inits}
    queue = list(inits)
    while queue:
        nxt = []
        for u in queue:
            for v in succ.get(u, []):
                if v not in parent:
                    parent[v] = u
                    nxt.append(v)
        queue = nxt
    if len(parent) != len(nodes):
        raise HarnessError("%s: %d of %d dumped states unreachable in the dump" % (kind, len(nodes) - len(parent), len(nodes)))

    def path(n):
        p = []
        while parent[n] is not None:
            p.append(n)
            n = parent[n]
        return n, p[::-1]

    out = []
    for u, vs in succ.items():
        root, p = path(u)
        base = [step(nodes[x]) for x in p]
        f = nodes[root]
        if kind == "merged":
            head = {"k": "merged", "own": _seq(f["own"]), "n": consts["NIters"]}
        else:
            head = {"k": "indexed", "blk": _blk(f["blk"], consts["NKeys"]), "sep": _seq(f["sep"]), "bad": _set(f["bad"]),
                    "strict": 1 if f["strict"] == "TRUE" else 0}
        for v in vs:
            out.append(dict(head, ops=base + [step(nodes[v])]))
    return out, len(nodes), nedges


def _blk(v, nkeys):
    # blk is a function with domain {2,4,..}: printed as (2 :> 1 @@ 4 :> 1 @@ ...)
    pairs = dict((int(a), int(b)) for a, b in re.findall(r"(\d+) :> (\d+)", v))
    if len(pairs) != nkeys:
        raise HarnessError("cannot parse blk = %s" % v)
    return [pairs[2 * i] for i in range(1, nkeys + 1)]


SPECS = {
    "quick": [("merged", "Merged.tla", "Merged_quick.cfg", {"NKeys": 4, "NIters": 3}),
              ("indexed", "Indexed.tla", "Indexed_quick.cfg", {"NKeys": 3, "NB": 3})],
    "thorough": [("merged", "Merged.tla", "Merged_thorough.cfg", {"NKeys": 5, "NIters": 3}),
                 ("indexed", "Indexed.tla", "Indexed_thorough.cfg", {"NKeys": 4, "NB": 4})],
}


def iter_graph_replay(ctx):
    exe = build("iterchk")
    res = {}
    for kind, spec, cfg, consts in SPECS[ctx.tier]:
        dot = ctx.path("%s.dot" % kind)
        r = tlc_mc(ctx, spec, cfg, timeout=1800, workers=1, extra=["-dump", "dot,actionlabels", dot],
                   label="%s (transcription of iterator/%s_iter.go) refines the cursor over the union, every layout" % (spec, kind))
        progs, nn, ne = programs(dot, kind, consts)
        pf = ctx.path("%s.programs.ndjson" % kind)
        with open(pf, "w") as f:
            for p in progs:
                f.write(json.dumps(p, separators=(",", ":")) + "\n")
        rc, out, err = run([exe, "-in", pf], timeout=1800, env=GOENV)
        if rc != 0:
            raise HarnessError("iterchk failed (%s): %s" % (rc, (err or "")[-2000:]))
        s = json.loads(out.strip().splitlines()[-1])
        if s["programs"].get(kind, 0) != len(progs) or len(progs) < ne * 0.5:
            raise HarnessError("iterchk replayed %s of %d programs" % (s["programs"], len(progs)))
        res[kind] = {"states": nn, "edges_in_dump": ne, "programs_replayed_on_real_iterator": len(progs), "calls": s["calls"],
                     "mismatches": s["mismatches"], "layouts": len(set(json.dumps({k: v for k, v in p.items() if k != "ops"}) for p in progs))}
        ctx.traces_ok += len(progs) - s["mismatches"]
        ctx.trace_events += s["calls"]
        if s["mismatches"]:
            m = s["first"][0]
            rp = ctx.path("%s.mismatch.ndjson" % kind)
            with open(rp, "w") as f:
                for x in s["first"]:
                    f.write(x["prog"] + "\n")
            dst = save_replay(ctx, "iter-%s" % kind, [rp], {"kind": kind, "first": s["first"][:5], "mismatches": s["mismatches"]})
            last = json.loads(m["prog"])["ops"][m["step"]][0]
            report_violation(ctx, "c02:%s-iterator:%s" % (kind, last),
                             "real %s iterator leaves the specification at call %d of program %s: %s"
                             % (kind, m["step"] + 1, m["prog"], m["what"]), dst)
        log("  %s: %d states, %d edges, %d programs replayed on the real iterator, %d mismatches"
            % (kind, nn, ne, len(progs), s["mismatches"]))
    ctx.extra["component_iterators_spec_to_code"] = res
    return res


def replay_programs(ctx, path):
    """Replay saved mismatching programs; returns number of mismatches."""
    exe = build("iterchk")
    rc, out, err = run([exe, "-in", path], timeout=600, env=GOENV)
    if rc != 0:
        raise HarnessError("iterchk failed (%s): %s" % (rc, (err or "")[-2000:]))
    return json.loads(out.strip().splitlines()[-1])
