"""Check bodies of the KV family."""
import glob
import os

from kvfam import run_kv
from vlib import finish, log, mc_coverage, tlc_trace

ASSUME = ["TLC and the CommunityModules Json reader are trusted",
          "the harness's reference comparers, key ranks and value interning are trusted (harness/internal/vt)",
          "single client: the linearization point of a call is its return",
          "storage is the checker's in-memory storage (harness/internal/vt/recstor.go)"]

TIERS = {  # mode: (programs, steps) per tier
    "c01": {"quick": (96, 900), "thorough": (400, 2500)},
    "c02": {"quick": (64, 700), "thorough": (400, 2000)},
    "c03": {"quick": (96, 800), "thorough": (400, 2200)},
    "c11": {"quick": (96, 700), "thorough": (400, 2000)},
    "c16": {"quick": (96, 900), "thorough": (300, 2500)},
    "c20": {"quick": (64, 700), "thorough": (300, 2000)},
    "c18": {"quick": (32, 500), "thorough": (180, 1200)},
}


def kv_main(ctx, mode, sig_fn=None, extra=None, need_comp=("mem", "l0", "nl0"), pre=None):
    nprog, nsteps = TIERS[mode][ctx.tier]
    if pre:
        pre(ctx)
    if mode == "c02":
        from vlib import tlc_mc
        tlc_mc(ctx, "DbIter.tla", "DbIter_quick.cfg" if ctx.quick else "DbIter_thorough.cfg", timeout=1800,
               label="DbIter.tla (dbIter direction machine transcribed) refines the cursor over the live pairs, all entry streams")
        from itergraph import iter_graph_replay
        iter_graph_replay(ctx)
    run_kv(ctx, mode, nprog, nsteps, sig_fn=sig_fn, need_comp=need_comp)
    cov = mc_coverage(ctx, extra)
    return finish(ctx, "model_checking", cov, ASSUME)


def kv_replay(ctx, path):
    files = sorted(glob.glob(os.path.join(path, "*.ndjson"))) if os.path.isdir(path) else [path]
    bad = 0
    progs = [f for f in files if f.endswith(".mismatch.ndjson")]
    files = [f for f in files if f not in progs]
    for f in progs:
        from itergraph import replay_programs
        s = replay_programs(ctx, f)
        if s["mismatches"]:
            bad += 1
            print("VIOLATION property=%s replay=%s" % (ctx.pid, path))
            log("  %s" % s["first"][0]["what"])
    for f in files:
        r = tlc_trace(ctx, "KVTrace.tla", "KVTrace.cfg", f)
        if not r["accepted"]:
            bad += 1
            print("VIOLATION property=%s replay=%s" % (ctx.pid, path))
            log("  line %d: %s" % (r["hwm"], r["stuck"]))
    ctx.cleanup()
    return 1 if bad else 0
