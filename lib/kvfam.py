"""KV family: properties decided by validating single-client traces of the real DB
against spec/KV.tla through spec/KVTrace.tla (C01 C02 C03 C11 C16 C20)."""
import json
import os

from vlib import (HarnessError, build, concat_traces, log, mc_coverage, ncpu, parallel, read_line,
                  report_violation, run_driver, save_replay, tlc_mc, tlc_trace, trace_lines)


def neutralise_line(path, lineno):
    lines = open(path).read().splitlines()
    ev = json.loads(lines[lineno - 1])
    lines[lineno - 1] = json.dumps({"ev": "note", "what": "known-finding", "was": ev})
    open(path, "w").write("\n".join(lines) + "\n")


def kv_design_mc(ctx):
    cfg = "KVMC_quick.cfg" if ctx.quick else "KVMC_thorough.cfg"
    return tlc_mc(ctx, "KVMC.tla", cfg, timeout=1500, label="KV contract (%s)" % cfg)


def validate_traces(ctx, spec, cfg, traces, chunk=8, describe=None, timeout=900):
    """traces: list of dicts with 'path' and 'events'. Returns list of failures
    (trace dict, tlc result). Chunks are validated in parallel; a failing chunk is
    re-validated trace by trace so that every failing trace is found."""
    chunks = [traces[i:i + chunk] for i in range(0, len(traces), chunk)]

    def do_chunk(ix_ch):
        ix, ch = ix_ch
        if len(ch) == 1:
            return [(ch[0], tlc_trace(ctx, spec, cfg, ch[0]["path"], timeout))]
        cat = ctx.path("chunk-%s-%d.ndjson" % (os.path.basename(spec), ix))
        concat_traces([t["path"] for t in ch], cat)
        r = tlc_trace(ctx, spec, cfg, cat, timeout)
        os.unlink(cat)
        if r["accepted"]:
            return [(t, {"accepted": True, "states": r["states"] // len(ch)}) for t in ch]
        return [(t, tlc_trace(ctx, spec, cfg, t["path"], timeout)) for t in ch]

    results = []
    for rs in parallel(do_chunk, list(enumerate(chunks)), workers=min(ncpu(), 12)):
        results.extend(rs)
    fails = []
    for t, r in results:
        if r["accepted"]:
            ctx.traces_ok += 1
            ctx.trace_events += t["events"]
        else:
            fails.append((t, r))
    return fails


def run_kv(ctx, mode, nprog, nsteps, nkeys=24, extra_args=None, sig_fn=None, need_comp=("mem", "l0", "nl0")):
    kv_design_mc(ctx)
    exe = build("seqdb")
    seeds = [ctx.seed * 1000 + i for i in range(nprog)]

    def drive(seed):
        out = ctx.path("%s-%d.ndjson" % (mode, seed))
        args = [exe, "-mode", mode, "-seed", str(seed), "-n", str(nsteps), "-nkeys", str(nkeys), "-out", out]
        s = run_driver(args + (extra_args or []), timeout=1200)
        s["path"] = out
        s["cmd"] = " ".join(args + (extra_args or []))
        return s

    sums = parallel(drive, seeds)
    comp = {}
    calls = {}
    for s in sums:
        for k, v in s.get("comp", {}).items():
            comp[k] = comp.get(k, 0) + v
        for k, v in s.get("stats", {}).items():
            calls[k] = calls.get(k, 0) + v
    ctx.extra["compactions_reached"] = comp
    ctx.extra["calls_by_kind"] = calls
    ctx.extra["option_rows"] = sorted(set(s["row"] for s in sums))[:40]
    ctx.extra["programs"] = len(sums)
    incomplete = [s for s in sums if s.get("hung") or s.get("panicked") or s.get("stopped")]
    if not incomplete and any(comp.get(k, 0) == 0 for k in need_comp):
        raise HarnessError("drivers did not reach every compaction kind: %s" % comp)
    pending = sums
    for _round in range(6):
        fails = validate_traces(ctx, "KVTrace.tla", "KVTrace.cfg", pending)
        pending = []
        for t, r in fails:
            line = read_line(t["path"], r["hwm"]) or "{}"
            ev = json.loads(line)
            sig = sig_fn(t, ev) if sig_fn else "%s:%s" % (mode, ev.get("ev"))
            what = "line %d of %s not explained by KV.tla: %s (row: %s)" % (r["hwm"], os.path.basename(t["path"]), line[:300], t["row"])
            rp = save_replay(ctx, "%s-seed%d" % (mode, t["seed"]), [t["path"]],
                             {"property": ctx.pid, "cmd": t["cmd"], "stuck_line": r["hwm"], "event": ev, "row": t["row"],
                              "context": trace_lines(t["path"], max(1, r["hwm"] - 8), r["hwm"]),
                              "replay": "TRACE=<trace> tlc -workers 1 -config KVTrace.cfg KVTrace.tla (in /verif/spec)"})
            if not report_violation(ctx, sig, what, rp):
                # a listed known finding: neutralise that line and check the rest of the trace
                neutralise_line(t["path"], r["hwm"])
                pending.append(t)
        if not pending:
            break
    if sums:
        ctx.samples.append({"program": sums[0]["cmd"], "first_events": trace_lines(sums[0]["path"], 1, 6)})
    return sums
