"""C06 / C07: engine-level traces (version installations, references, removals, settle points)
of the real DB validated against LSMTrace.tla (laws shared with the design spec LSM.tla)."""
import json
import os

from kvfam import neutralise_line, validate_traces
from vlib import (HarnessError, build, finish, log, mc_coverage, parallel, read_line, report_violation,
                  run_driver, save_replay, tlc_mc, tlc_trace, trace_lines)

C06_KINDS = {"install", "compaction"}
C07_KINDS = {"stremove", "settled", "reclaimed", "iter", "snapget", "snaphas", "get", "has", "hang"}

ASSUME = ["table entries are read back from the files by the harness with the table reader (checksums on) inside the setVersion hook",
          "hook events are emitted under the lock that protects the state they describe (vmu, the reference loop goroutine, the storage mutex)",
          "TLC, the Json module, the harness's storage and reference comparers are trusted"]


def run(ctx, kinds):
    tlc_mc(ctx, "LSM.tla", "LSM_quick.cfg" if ctx.quick else "LSM_thorough.cfg", timeout=2400,
           label="LSM.tla: ReadOK + C06 laws on every reachable version")
    if ctx.pid == "C07":
        tlc_mc(ctx, "RefLoop.tla", "RefLoop_quick.cfg" if ctx.quick else "RefLoop_thorough.cfg", timeout=1800,
               label="RefLoop.tla (session.refLoop transcribed): NoPrematureRemove, NoGarbageWhenSettled")
        if not ctx.quick:
            r = tlc_mc(ctx, "RefLoop.tla", "RefLoop_ascoded_F11.cfg", timeout=600, expect_violation=True,
                       label="RefLoop.tla with the first-commit double count as it was coded (must be violated)")
            if not r["violated"]:
                raise HarnessError("RefLoop.tla no longer exposes F11")
    exe = build("seqdb")
    nprog, nsteps = (32, 700) if ctx.quick else (240, 2500)
    seeds = [ctx.seed * 1000 + i for i in range(nprog)]

    jobs = [(sd, None) for sd in seeds]
    if ctx.pid == "C07":
        # the same programs with one storage fault inside a table build (flush or compaction output): the retry must not leave
        # the failed attempt's file behind (checked at the settle point that follows the fault)
        import random
        rng = random.Random(ctx.seed)
        for i in range(12 if ctx.quick else 72):
            kind = ["sync", "close", "write", "create", "open", "open"][i % 6]
            if kind == "open":
                # opening tables fails until the failures are stopped: whatever is called meanwhile (SizeOf, reads) fails
                jobs.append((ctx.seed * 1000 + 500 + i, "open:table:%d:0" % rng.randint(2, 30)))
                continue
            jobs.append((ctx.seed * 1000 + 500 + i, "%s:table:%d:1" % (kind, rng.randint(3, 40) * (5 if kind == "write" else 1))))

    def drive(job):
        seed, fault = job
        out = ctx.path("lsm-%d%s.ndjson" % (seed, "-" + fault.replace(":", "_") if fault else ""))
        args = [exe, "-mode", "c06", "-seed", str(seed), "-n", str(nsteps), "-nkeys", "20", "-out", out]
        if fault:
            args += ["-fault", fault, "-hang", "60"]
        s = run_driver(args, timeout=1800)
        s["path"] = out
        s["cmd"] = " ".join(args)
        return s

    sums = parallel(drive, jobs)
    ctx.extra["programs_with_a_fault_inside_a_table_build"] = sum(1 for s in sums if s.get("injected", 0) > 0)
    comp = {}
    for s in sums:
        for k, v in s.get("comp", {}).items():
            comp[k] = comp.get(k, 0) + v
    if not any(s.get("hung") or s.get("panicked") for s in sums) and any(comp.get(k, 0) == 0 for k in ("mem", "l0", "nl0")):
        raise HarnessError("drivers did not reach every compaction kind: %s" % comp)
    other = 0
    pending = sums
    for _round in range(5):
        fails = validate_traces(ctx, "LSMTrace.tla", "LSMTrace.cfg", pending, chunk=4)
        pending = []
        for t, r in fails:
            line = read_line(t["path"], r["hwm"]) or "{}"
            ev = json.loads(line)
            kind = ev.get("ev")
            if kind in kinds:
                sig = "%s:%s" % (ctx.pid.lower(), kind)
                what = "line %d of %s rejected by LSMTrace.tla: %s (row: %s)" % (r["hwm"], os.path.basename(t["path"]), line[:400], t["row"])
                rp = save_replay(ctx, "seed%d-line%d" % (t["seed"], r["hwm"]), [t["path"]],
                                 {"property": ctx.pid, "cmd": t["cmd"], "stuck_line": r["hwm"], "event": ev, "row": t["row"],
                                  "context": [json.dumps(x)[:300] for x in trace_lines(t["path"], max(1, r["hwm"] - 10), r["hwm"])]})
                report_violation(ctx, sig, what, rp)
            else:
                other += 1
                log("note: line %d of %s (%s) rejected; it belongs to another property's check" % (r["hwm"], t["path"], kind))
            neutralise_line(t["path"], r["hwm"])
            pending.append(t)
        if not pending:
            break
    stats = {}
    for s in sums:
        for k, v in s.get("stats", {}).items():
            stats[k] = stats.get(k, 0) + v
    ctx.samples.append({"run": sums[0]["cmd"], "install_line": [json.dumps(x)[:600] for x in trace_lines(sums[0]["path"], 1, 200)
                                                                 if x.get("ev") == "install"][:2]})
    cov = mc_coverage(ctx, {"programs": len(sums), "version_installations_checked": sum(s.get("installs", 0) for s in sums),
                            "settle_points": stats.get("settled", 0), "reclaim_points": stats.get("reclaimed", 0),
                            "compactions_reached": comp, "calls_by_kind": stats,
                            "lines_rejected_for_other_properties": other,
                            "option_rows": sorted(set(s["row"] for s in sums))[:40]})
    return finish(ctx, "model_checking", cov, ASSUME)


def replay(ctx, path):
    import glob
    bad = 0
    for f in sorted(glob.glob(os.path.join(path, "*.ndjson"))):
        r = tlc_trace(ctx, "LSMTrace.tla", "LSMTrace.cfg", f)
        if not r["accepted"]:
            bad += 1
            print("VIOLATION property=%s replay=%s" % (ctx.pid, path))
            log("  line %d: %s" % (r["hwm"], r["stuck"]))
    ctx.cleanup()
    return 1 if bad else 0
