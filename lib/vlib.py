"""Shared orchestration for the /verif checks: build, TLC runs, trace validation,
evidence, known findings, verdict policy (DESIGN.md 2.4, 8)."""
import concurrent.futures as cf
import json
import os
import re
import shutil
import subprocess
import sys
import time

VERIF = os.path.dirname(os.path.dirname(os.path.abspath(__file__)))
SPEC = os.path.join(VERIF, "spec")
HARNESS = os.path.join(VERIF, "harness")
BUILD = os.path.join(VERIF, ".build")
REPO = "/repo"

GOENV = dict(os.environ, GOFLAGS="-mod=mod", GOPROXY="off", GOSUMDB="off", GOTOOLCHAIN="local",
             CGO_ENABLED="0")


class HarnessError(Exception):
    """Trouble in the machinery itself (never a verdict): exit 2."""


class Ctx:
    def __init__(self, pid, tier, seed):
        self.pid, self.tier, self.seed = pid, tier, seed
        self.t0 = time.time()
        self.work = os.path.join(VERIF, ".work", "%s-%d" % (pid, os.getpid()))
        shutil.rmtree(self.work, ignore_errors=True)
        os.makedirs(self.work)
        self.violations = []      # (signature, description, replay path)
        self.known_hits = []
        self.quick = tier == "quick"
        self.mc = {"states": 0, "transitions": 0, "runs": []}
        self.traces_ok = 0
        self.trace_events = 0
        self.samples = []
        self.extra = {}

    def path(self, *a):
        return os.path.join(self.work, *a)

    def cleanup(self):
        if os.environ.get("VERIF_KEEP"):
            return
        shutil.rmtree(self.work, ignore_errors=True)
        try:
            os.rmdir(os.path.join(VERIF, ".work"))
        except OSError:
            pass


def log(*a):
    print(*a, file=sys.stderr, flush=True)


def ncpu():
    return os.cpu_count() or 4


# ----------------------------------------------------------------------------- build

_built = set()


def build(cmd, race=False):
    """Build harness/cmd/<cmd> against /repo's working tree with the verif tag."""
    key = (cmd, race)
    out = os.path.join(BUILD, cmd + ("-race" if race else ""))
    if key in _built:
        return out
    os.makedirs(BUILD, exist_ok=True)
    repo = os.environ.get("VERIF_REPO", REPO)   # trial runs against a snapshot of the repository (vp run --with-repo)
    gosum = os.path.join(HARNESS, "go.sum")
    shutil.copyfile(os.path.join(repo, "go.sum"), gosum)
    args = ["go", "build", "-tags", "verif", "-o", out]
    if repo != REPO:
        alt = os.path.join(HARNESS, "go.alt.mod")
        with open(alt, "w") as f:
            f.write(open(os.path.join(HARNESS, "go.mod")).read().replace("=> /repo", "=> " + repo))
        shutil.copyfile(gosum, os.path.join(HARNESS, "go.alt.sum"))
        args += ["-modfile", alt]
    env = dict(GOENV)
    if race:
        args.insert(2, "-race")
        env["CGO_ENABLED"] = "1"
    args.append("./cmd/" + cmd)
    p = subprocess.run(args, cwd=HARNESS, env=env, capture_output=True, text=True)
    if p.returncode != 0:
        raise HarnessError("go build %s failed:\n%s" % (cmd, p.stderr[-4000:]))
    _built.add(key)
    return out


def run(args, timeout=None, env=None, cwd=None, stdin=None):
    try:
        p = subprocess.run(args, capture_output=True, text=True, timeout=timeout, env=env, cwd=cwd, input=stdin)
    except subprocess.TimeoutExpired as e:
        return None, (e.stdout or ""), "TIMEOUT"
    return p.returncode, p.stdout, p.stderr


def run_driver(args, timeout=600):
    """Run a driver; its last stdout line is a JSON summary. Exit 2 => harness trouble."""
    rc, out, err = run(args, timeout=timeout, env=GOENV)
    if rc is None:
        raise HarnessError("driver timed out: %s" % " ".join(args))
    if rc != 0:
        lib = library_panic(err or "")
        if lib and "-out" in args:
            # the real code crashed on the driver's input: that is behaviour of the real code, not harness trouble.
            # Record it as a trace line that no specification action explains.
            path = args[args.index("-out") + 1]
            first = {}
            n = 0
            try:
                with open(path) as f:
                    for n, line in enumerate(f, 1):
                        if n == 1:
                            first = json.loads(line)
            except Exception:
                pass
            # a driver killed by the crash may leave a half-written last line: drop it
            try:
                with open(path, "rb+") as f:
                    data = f.read()
                    if data and not data.endswith(b"\n"):
                        f.seek(0)
                        f.truncate()
                        f.write(data[:data.rfind(b"\n") + 1])
            except OSError:
                pass
            with open(path, "a") as f:
                # (an empty trace gets the panic line alone: every trace specification is stuck on it at line 1)
                f.write(json.dumps({"ev": "panic", "where": lib, "stderr": (err or "")[:1500]}) + "\n")
            return {"seed": first.get("seed", 0), "row": first.get("row", "?"), "mode": first.get("mode", "?"), "events": n + 1,
                    "comp": {}, "stats": {}, "panicked": True, "ops": 0, "installs": 0, "injected": 0, "fault": first.get("fault", ""),
                    "batches": 0, "storage_ops": 0, "crash_points": 0, "reopens": 0, "nested_reopens": 0, "distinct_outcomes": 0,
                    "outcomes_differing_from_clean": 0, "followups": 0, "recovers": 0, "with_table_damage": 0, "settled": True,
                    "runs": 0, "answered_from_buffers": 0, "pending": 0, "procs": 0}
        raise HarnessError("driver failed (%s): %s\n%s" % (rc, " ".join(args), (err or "")[-3000:]))
    lines = [x for x in out.strip().splitlines() if x.strip()]
    try:
        return json.loads(lines[-1])
    except Exception:
        raise HarnessError("driver printed no summary: %s\n%s" % (" ".join(args), out[-2000:]))


def library_panic(stderr):
    """If the process died of a Go panic / fatal error raised inside goleveldb (not inside the harness), return the frame."""
    i = max(stderr.find("panic:"), stderr.find("fatal error:"))
    if i < 0:
        return None
    for line in stderr[i:].splitlines()[1:]:
        line = line.strip()
        if not line or line.startswith("goroutine ") or line.startswith("[signal") or line.startswith("/") or line.startswith("panic(") \
                or line.startswith("runtime.") or line.startswith("created by") or line.startswith("sync.") or line.startswith("sync/") \
                or line.startswith("panic:"):
            continue
        if "github.com/syndtr/goleveldb" in line:
            return line.rsplit("(", 1)[0][-120:]
        return None          # first real frame is harness code (or something else): harness trouble
    return None


def parallel(fn, items, workers=None):
    workers = workers or ncpu()
    with cf.ThreadPoolExecutor(max_workers=workers) as ex:
        return list(ex.map(fn, items))


# ----------------------------------------------------------------------------- TLC

_tlc_seq = [0]


def _tlc(ctx, spec, cfg, extra, env_extra, timeout, workers):
    _tlc_seq[0] += 1
    md = ctx.path("tlc-md-%d-%d" % (os.getpid(), _tlc_seq[0]))
    args = ["timeout", str(int(timeout)), "tlc", "-workers", str(workers), "-metadir", md,
            "-noGenerateSpecTE", "-config", cfg] + extra + [spec]
    env = dict(os.environ)
    env["JAVA_TOOL_OPTIONS"] = (env.get("JAVA_TOOL_OPTIONS", "") + " -Xss512m").strip()  # deep folds over long traces
    env.update(env_extra or {})
    rc, out, err = run(args, cwd=SPEC, env=env)
    shutil.rmtree(md, ignore_errors=True)
    return rc, out + "\n" + (err or "")


_re_states = re.compile(r"(\d+) states generated, (\d+) distinct states found, (\d+) states left")
_re_depth = re.compile(r"depth of the complete state graph search is (\d+)")


def tlc_mc(ctx, spec, cfg, timeout=600, workers=None, extra=None, expect_violation=None, label=None):
    """Exhaustive (or simulation) run of a design spec. A failure here is a fault of
    the specification, never a verdict about the code (exit 2)."""
    workers = workers or ncpu()
    t = time.time()
    rc, out = _tlc(ctx, spec, cfg, extra or [], None, timeout, workers)
    m = None
    for m in _re_states.finditer(out):
        pass
    if m is None:
        raise HarnessError("TLC produced no state count for %s/%s (rc=%s):\n%s" % (spec, cfg, rc, out[-3000:]))
    gen, dist, left = int(m.group(1)), int(m.group(2)), int(m.group(3))
    d = _re_depth.search(out)
    res = {"spec": spec, "cfg": cfg, "generated": gen, "distinct": dist, "left": left,
           "depth": int(d.group(1)) if d else None, "wall_s": round(time.time() - t, 1),
           "complete": "Model checking completed. No error has been found." in out, "label": label or cfg}
    violated = re.findall(r"Invariant (\S+) is violated|Temporal properties were violated|Action property (\S+) is violated", out)
    res["violated"] = bool(violated) or "Error:" in out
    if expect_violation is None:
        if res["violated"] or (rc != 0 and not res["complete"]):
            raise HarnessError("design spec %s/%s does not hold or did not finish (rc=%s); this is a "
                               "specification problem, not a verdict:\n%s" % (spec, cfg, rc, out[-3000:]))
    ctx.mc["states"] += dist
    ctx.mc["transitions"] += gen
    ctx.mc["runs"].append({k: res[k] for k in ("label", "generated", "distinct", "depth", "wall_s", "complete")})
    res["out"] = out
    return res


_re_hwm = re.compile(r'<<"VERIF-HWM", (\d+), (\d+)>>')


def tlc_trace(ctx, spec, cfg, trace, timeout=900):
    """Validate one recorded trace (possibly many concatenated with reset lines)."""
    rc, out = _tlc(ctx, spec, cfg, [], {"TRACE": trace}, timeout, 1)
    m = _re_hwm.search(out)
    if m is None:
        raise HarnessError("trace validation of %s produced no report (rc=%s):\n%s" % (trace, rc, out[-3000:]))
    hwm, n = int(m.group(1)), int(m.group(2))
    stuck = None
    if hwm <= n:
        i = out.find('"VERIF-STUCK"')
        stuck = out[i:i + 1500].split("\nModel checking")[0] if i >= 0 else "?"
    mons = re.findall(r'<<"VERIF-MON", (.*?)>>\n', out)
    g = _re_states.search(out)
    return {"accepted": hwm == n + 1 and not mons, "hwm": hwm, "len": n, "stuck": stuck, "monitors": mons,
            "states": int(g.group(2)) if g else 0, "out": out}


def read_line(path, lineno):
    with open(path) as f:
        for i, line in enumerate(f, 1):
            if i == lineno:
                return line.strip()
    return None


def trace_lines(path, lo, hi):
    out = []
    with open(path) as f:
        for i, line in enumerate(f, 1):
            if i > hi:
                break
            if i >= lo:
                out.append(json.loads(line))
    return out


# ----------------------------------------------------------------------------- findings / verdicts

def known_findings():
    p = os.path.join(VERIF, "KNOWN_FINDINGS.json")
    if not os.path.exists(p):
        return []
    return json.load(open(p)).get("findings", [])


def save_replay(ctx, name, files, meta):
    d = os.path.join(VERIF, "replays", ctx.pid)
    os.makedirs(d, exist_ok=True)
    dst = os.path.join(d, name)
    shutil.rmtree(dst, ignore_errors=True)
    os.makedirs(dst)
    for f in files:
        if f and os.path.exists(f):
            shutil.copy(f, dst)
    json.dump(meta, open(os.path.join(dst, "meta.json"), "w"), indent=1, default=str)
    return dst


def report_violation(ctx, sig, what, replay):
    """sig identifies the failing scenario; listed known findings are reported once as KNOWN-FINDING."""
    for kf in known_findings():
        if kf.get("property") == ctx.pid and kf.get("status", "known") == "known" and re.fullmatch(kf["sig"], sig):
            if kf["sig"] not in [k[0] for k in ctx.known_hits]:
                ctx.known_hits.append((kf["sig"], kf["what"]))
            return False
    ctx.violations.append((sig, what, replay))
    return True


def finish(ctx, level, coverage, assumptions):
    wall = round(time.time() - ctx.t0, 2)
    ev = {"property_id": ctx.pid, "tier": ctx.tier, "seed": ctx.seed, "level": level,
          "coverage": coverage, "assumptions": assumptions, "wall_s": wall,
          "violations": len(ctx.violations)}
    os.makedirs(os.path.join(VERIF, "evidence"), exist_ok=True)
    with open(os.path.join(VERIF, "evidence", ctx.pid + ".json"), "w") as f:
        json.dump(ev, f, indent=1, default=str)
    for sig, what in ctx.known_hits:
        print("KNOWN-FINDING: property=%s %s" % (ctx.pid, what))
    for sig, what, replay in ctx.violations:
        print("VIOLATION property=%s replay=%s" % (ctx.pid, replay))
        log("  %s: %s" % (sig, what))
    ctx.cleanup()
    return 1 if ctx.violations else 0


def mc_coverage(ctx, extra=None):
    cov = {"states": max(ctx.mc["states"], 0), "transitions": max(ctx.mc["transitions"], 0),
           "traces_validated_against_impl": ctx.traces_ok, "trace_events_validated": ctx.trace_events,
           "samples": ctx.samples[:6] or ["(none)"], "tlc_runs": ctx.mc["runs"]}
    cov.update(ctx.extra)
    if extra:
        cov.update(extra)
    return cov


def concat_traces(paths, out):
    with open(out, "w") as o:
        for p in paths:
            with open(p) as f:
                shutil.copyfileobj(f, o)
