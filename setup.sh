#!/bin/sh
# Build the harness offline and parse every specification.
set -e
cd "$(dirname "$0")"
export GOFLAGS=-mod=mod GOPROXY=off GOSUMDB=off GOTOOLCHAIN=local CGO_ENABLED=0
mkdir -p .build evidence
cp /repo/go.sum harness/go.sum
(cd harness && for d in cmd/*/; do go build -tags verif -o ../.build/$(basename $d) ./$d; done)
(cd spec && for f in *.tla; do tla-sany "$f" > /dev/null 2>&1 || { echo "SANY failed: $f"; tla-sany "$f" | tail -20; exit 1; }; done)
echo setup ok
