------------------------------- MODULE Cache -------------------------------
(***************************************************************************)
(* C17.  leveldb/cache/cache.go + lru.go at the granularity of their       *)
(* critical sections:                                                      *)
(*   bucket lock : mBucket.get (find-or-create + ref++), mBucket.delete    *)
(*                 (re-check ref == 0, finaliser, unlink)                  *)
(*   node lock   : construct the value (Cache.Get), append a delFunc       *)
(*   LRU lock    : Promote / Ban / Evict / SetCapacity; the handles of the *)
(*                 nodes pushed out are released AFTER the lock is dropped *)
(*   lock-free   : ref-- (unRefInternal / unRefExternal); reaching 0 leads *)
(*                 to the bucket-delete step, a separate step              *)
(*   Cache.mu    : read-held by every call except Handle.Release, write-   *)
(*                 held by Close while it sets `closed`                    *)
(* The hash table (buckets, resize) is abstracted to "one node per key":   *)
(* the conformance driver exercises growth and shrinkage on the real code. *)
(* All charges are 1.                                                      *)
(*                                                                         *)
(* The module has two layers.  The OBSERVABLE layer (cur, vals, hnd, dels, *)
(* mode) is what a client can see: constructor / finaliser / callback      *)
(* invocations and handles obtained and given back.  The five clauses of   *)
(* C17 are stated on it (Ok* predicates).  The INTERNAL layer (node, th,   *)
(* lruq, cap) is the algorithm; each of its steps that is visible calls    *)
(* the matching Do* update and records a failed Ok* in `bad`.              *)
(* CacheTrace.tla drives the same Ok* / Do* operators from the events      *)
(* recorded on the real code.                                              *)
(***************************************************************************)
EXTENDS Naturals, Integers, FiniteSets, Sequences, TLC

CONSTANTS Keys,        \* keys of the shared namespace
          Threads,
          NoKey,       \* a value outside Keys
          Caps,        \* capacities SetCapacity may choose; the initial one is Cap0
          Cap0,
          MaxVals,     \* bound: value ids 1..MaxVals (then the constructor returns nil)
          MaxDels,     \* bound: Delete calls with a callback
          GetModes,    \* subset of {"set", "only", "nil"}: setFunc given / nil setFunc / setFunc returning nil
          Ops,         \* subset of {"delete", "evict", "evictall", "setcap", "close", "closeforce"}
          RecheckRef,  \* TRUE as coded: mBucket.delete re-checks ref == 0 under the bucket lock
          AtomicFin,   \* TRUE as coded (since fix e7aceb0): Node.callFinalizer takes-and-clears n.value / n.delFuncs
                       \* under the node lock; FALSE: reads n.value, calls Release, then clears it, with no lock
          RecheckClosed, \* TRUE as coded (since fix 9182bd2): on a closed cache unRefExternal calls the finaliser
                       \* only if ref is still 0; FALSE: without re-checking
          ClearDelf,   \* TRUE as coded (since fix 319ed8d): mBucket.delete takes the delete funcs away from the node it removes;
                       \* FALSE: it runs them and leaves them on the node object, where a Release that is still between
                       \* its decrement and its lock (and refers to that object, not to the key) finds them again
          CloseExcl    \* FALSE: Close may overlap anything but the read-locked calls (the property's quantifier).
                       \* TRUE: environment assumption under which even the code before the two fixes satisfies
                       \* C17: Close is not called while a Handle.Release is between its decrement and its delete
                       \* step, and no Handle.Release / SetCapacity runs while a force Close enumerates the nodes

VARIABLES
  \* ---- observable layer
  cur,     \* key -> value id currently live for that key, 0 if none
  vals,    \* value id -> [k, c (charge), h (client handles not yet given back), fin]; dropped once fin /\ h = 0
  hnd,     \* outstanding client handle id -> value id
  dels,    \* Delete call id -> [k, hs (handles on k outstanding when Delete began and still so), ran, ended, post]
  mode,    \* "open" | "closed" | "forced"
  bad,     \* violated clauses (design spec only)
  \* ---- internal layer
  node,    \* key -> [ex, ref, val, ban, delf]
  lruq,    \* keys retained by the LRU, most recent first
  cap,
  th,      \* thread -> program counter and locals
  nvid, nd

obsvars == <<cur, vals, hnd, dels, mode>>
intvars == <<node, lruq, cap, th, nvid, nd>>
vars == <<cur, vals, hnd, dels, mode, bad, node, lruq, cap, th, nvid, nd>>

Drop(f, S) == [x \in DOMAIN f \ S |-> f[x]]
Range(s) == {s[i] : i \in DOMAIN s}

(***************************************************************************)
(* Observable layer: the five clauses as step predicates.                  *)
(***************************************************************************)
Live(v) == v \in DOMAIN vals /\ ~vals[v].fin
LiveVals == {v \in DOMAIN vals : ~vals[v].fin}
Forced == mode = "forced"

\* clause 2: the constructor runs once per residency
OkConstruct(k, v) == cur[k] = 0 /\ v \notin DOMAIN vals
DoConstruct(k, v, c) ==
  /\ cur' = [cur EXCEPT ![k] = v]
  /\ vals' = (v :> [k |-> k, c |-> c, h |-> 0, fin |-> FALSE]) @@ vals

\* clause 1: a lookup obtains the one live value of its key (never a dead one)
OkGetEnd(h, k, v) == h \notin DOMAIN hnd /\ cur[k] = v /\ Live(v)
DoGetEnd(h, k, v) ==
  /\ hnd' = (h :> v) @@ hnd
  /\ vals' = IF v \in DOMAIN vals THEN [vals EXCEPT ![v].h = @ + 1] ELSE vals

OkRelBegin(h) == h \in DOMAIN hnd
DoRelBegin(h) ==
  LET v == hnd[h] IN
  /\ hnd' = Drop(hnd, {h})
  /\ vals' = IF v \notin DOMAIN vals THEN vals
             ELSE IF vals[v].fin /\ vals[v].h = 1 THEN Drop(vals, {v})
             ELSE [vals EXCEPT ![v].h = @ - 1]
  /\ dels' = [d \in DOMAIN dels |-> [dels[d] EXCEPT !.hs = @ \ {h}]]

\* clause 3: finalised once, and (unless force-closed) only after every handle was given back
OkFinalize(v) == Live(v) /\ (vals[v].h = 0 \/ Forced)
DoFinalize(v) ==
  IF v \notin DOMAIN vals THEN UNCHANGED <<cur, vals>>
  ELSE /\ cur' = [cur EXCEPT ![vals[v].k] = IF @ = v THEN 0 ELSE @]
       /\ vals' = IF vals[v].h = 0 THEN Drop(vals, {v}) ELSE [vals EXCEPT ![v].fin = TRUE]

\* clause 4: a deletion callback runs once, and not while a handle that was outstanding
\* when its Delete began is still outstanding (unless force-closed)
OkDelBegin(d, k) == d \notin DOMAIN dels
DoDelBegin(d, k, ended) ==
  dels' = (d :> [k |-> k, hs |-> {h \in DOMAIN hnd : hnd[h] \in DOMAIN vals /\ vals[hnd[h]].k = k},
                 ran |-> FALSE, ended |-> ended, post |-> mode # "open"]) @@ dels
OkDelfunc(d) == /\ d \in DOMAIN dels /\ ~dels[d].ran /\ ~dels[d].post
                /\ (dels[d].hs = {} \/ Forced)
DelAfterRun(f, d) == IF d \notin DOMAIN f THEN f
                     ELSE IF f[d].ended THEN Drop(f, {d}) ELSE [f EXCEPT ![d].ran = TRUE]
RECURSIVE DelAfterRunAll(_, _)
DelAfterRunAll(f, S) == IF S = {} THEN f
                        ELSE LET d == CHOOSE x \in S : TRUE IN DelAfterRunAll(DelAfterRun(f, d), S \ {d})
DoDelfuncs(S) == dels' = DelAfterRunAll(dels, S)
\* Delete returned r (1: a node existed and took the callback; 0: no node, callback already ran;
\* after Close: 0 and the callback is dropped)
OkDelEnd(d, r) == /\ d \in DOMAIN dels /\ ~dels[d].ended
                  /\ (dels[d].post => r = 0 /\ ~dels[d].ran)
                  /\ (~dels[d].post /\ r = 0 => dels[d].ran)
                  /\ (~dels[d].post /\ dels[d].hs # {} => r = 1)
DoDelEnd(d) == dels' = IF dels[d].ran \/ dels[d].post THEN Drop(dels, {d}) ELSE [dels EXCEPT ![d].ended = TRUE]

OkClose == mode = "open"
DoClose(force) == mode' = IF force THEN "forced" ELSE "closed"

RECURSIVE ChargeOf(_)
ChargeOf(S) == IF S = {} THEN 0 ELSE LET v == CHOOSE x \in S : TRUE IN vals[v].c + ChargeOf(S \ {v})
\* clause 5 (+ completeness of 3 and 4) at a point where no call is in flight and no handle is held:
\* what is still alive is what the replacement policy retains
OkQuiesce(capacity) ==
  /\ DOMAIN hnd = {}
  /\ ChargeOf(LiveVals) <= capacity
  /\ \A d \in DOMAIN dels : dels[d].post      \* every accepted callback has run
  /\ mode # "open" => LiveVals = {}           \* after Close nothing is retained

(***************************************************************************)
(* Internal layer.                                                         *)
(***************************************************************************)
NoNode == [ex |-> FALSE, ref |-> 0, val |-> 0, ban |-> FALSE, delf |-> {}]
Idle == [pc |-> "idle", k |-> NoKey, dk |-> NoKey, h |-> FALSE, hk |-> NoKey, pend |-> <<>>, ret |-> "idle",
         m |-> "set", cb |-> {}, ks |-> {}, f |-> FALSE, fv |-> 0, st |-> FALSE]

Empty == [x \in {} |-> 0]
Init == /\ cur = [k \in Keys |-> 0] /\ vals = Empty /\ hnd = Empty /\ dels = Empty /\ mode = "open" /\ bad = {}
        /\ node = [k \in Keys |-> NoNode] /\ lruq = <<>> /\ cap = Cap0
        /\ th = [t \in Threads |-> Idle] /\ nvid = 0 /\ nd = 0

InLRU(k) == k \in Range(lruq)
Without(s, k) == SelectSeq(s, LAMBDA x : x # k)
Kept(s, c) == SubSeq(s, 1, IF Len(s) < c THEN Len(s) ELSE c)
Spilled(s, c) == IF Len(s) <= c THEN <<>> ELSE SubSeq(s, c + 1, Len(s))

SetTh(t, r) == th' = [th EXCEPT ![t] = r]
Back(t) == [th[t] EXCEPT !.pc = "idle", !.k = NoKey, !.dk = NoKey, !.pend = <<>>, !.ret = "idle", !.m = "set",
                         !.cb = {}, !.ks = {}, !.f = FALSE, !.fv = 0, !.st = FALSE]
Goto(t, pc) == IF pc = "idle" THEN Back(t) ELSE [th[t] EXCEPT !.pc = pc]
Note(ok, tag) == bad' = IF ok THEN bad ELSE bad \cup {tag}
\* Cache.mu is read-held in these states (Close cannot start); "idle", and a client Release between
\* its decrement and unRefExternal's RLock ("xdel": RLock + delete is one step, nothing but Close could
\* tell the difference), are outside
ForceClosing == \E u \in Threads : th[u].f
RLocked(t) == th[t].pc \notin {"idle", "xdel"}

\* ---- ref-- ; reaching zero leads to the delete step `del`, then to `next`
Unref(t, k, del, next) ==
  /\ node' = [node EXCEPT ![k].ref = @ - 1]
  /\ SetTh(t, IF node[k].ref = 1 THEN [th[t] EXCEPT !.pc = del, !.dk = k, !.ret = next] ELSE Goto(t, next))

\* ---- Node.callFinalizer (cache already closed): finaliser, then callbacks, no lock
Finalizer(t, k, v, next) ==
  /\ node' = [node EXCEPT ![k].val = 0, ![k].delf = {}]
  /\ IF v # 0 THEN DoFinalize(v) ELSE UNCHANGED <<cur, vals>>
  /\ DoDelfuncs(node[k].delf)
  /\ Note((v # 0 => OkFinalize(v)) /\ \A d \in node[k].delf : OkDelfunc(d), "finalize-closed")
  /\ SetTh(t, Goto(t, next))
  /\ UNCHANGED <<hnd, mode, lruq, cap, nvid, nd>>

\* ---- `del` / `xdel`: r.delete(n) = mBucket.delete, or callFinalizer when the cache is closed
BucketDelete(t) ==
  /\ th[t].pc \in {"del", "xdel"}
  /\ LET k == th[t].dk  n == node[k] IN
     IF mode = "open"
       THEN IF n.ex /\ (n.ref = 0 \/ ~RecheckRef)
              THEN /\ node' = [node EXCEPT ![k] = NoNode]
                   /\ IF n.val # 0 THEN DoFinalize(n.val) ELSE UNCHANGED <<cur, vals>>
                   /\ Note(n.val # 0 => OkFinalize(n.val), "finalize")
                   \* the callbacks run after the bucket lock is dropped; a client Release that decremented this very node
                   \* object to zero earlier and still waits for the cache lock now refers to a removed object
                   /\ th' = [u \in Threads |->
                               IF u = t THEN [th[t] EXCEPT !.pc = IF th[t].pc = "del" THEN "cb" ELSE "xcb", !.cb = n.delf]
                               ELSE IF th[u].pc = "xdel" /\ th[u].dk = k
                                      THEN [th[u] EXCEPT !.st = TRUE, !.cb = IF ClearDelf THEN {} ELSE n.delf]
                               ELSE th[u]]
                   /\ UNCHANGED <<hnd, dels, mode, lruq, cap, nvid, nd>>
              ELSE /\ SetTh(t, Goto(t, th[t].ret))
                   /\ UNCHANGED <<cur, vals, hnd, dels, mode, bad, node, lruq, cap, nvid, nd>>
       ELSE IF th[t].st
              THEN \* closed cache, removed node object: its counter is zero, its value is gone; callFinalizer runs what is left on it
                   /\ DoDelfuncs(th[t].cb)
                   /\ Note(\A d \in th[t].cb : OkDelfunc(d), "delfunc")
                   /\ SetTh(t, Goto(t, th[t].ret))
                   /\ UNCHANGED <<cur, vals, hnd, mode, node, lruq, cap, nvid, nd>>
       ELSE IF RecheckClosed /\ n.ref # 0
              THEN /\ SetTh(t, Goto(t, th[t].ret))
                   /\ UNCHANGED <<cur, vals, hnd, dels, mode, bad, node, lruq, cap, nvid, nd>>
            ELSE IF AtomicFin
              THEN Finalizer(t, k, n.val, th[t].ret)
              ELSE /\ SetTh(t, [th[t] EXCEPT !.pc = "xfin", !.fv = n.val])     \* read n.value ...
                   /\ UNCHANGED <<cur, vals, hnd, dels, mode, bad, node, lruq, cap, nvid, nd>>
FinalizerLate(t) ==      \* ... and act on what was read
  /\ th[t].pc = "xfin"
  /\ Finalizer(t, th[t].dk, th[t].fv, th[t].ret)
RunCallbacks(t) ==
  /\ th[t].pc \in {"cb", "xcb"}
  /\ DoDelfuncs(th[t].cb)
  /\ Note(\A d \in th[t].cb : OkDelfunc(d), "delfunc")
  /\ SetTh(t, [Goto(t, th[t].ret) EXCEPT !.cb = {}])
  /\ UNCHANGED <<cur, vals, hnd, mode, node, lruq, cap, nvid, nd>>

\* ---- handles the LRU gave up, released one by one after its lock was dropped (Handle.Release)
ReleasePend(t) ==
  /\ th[t].pc = "pend"
  /\ IF th[t].pend = <<>>
       THEN SetTh(t, Goto(t, th[t].ret)) /\ UNCHANGED node
       ELSE LET k == Head(th[t].pend) IN
            /\ node' = [node EXCEPT ![k].ref = @ - 1]
            /\ SetTh(t, [th[t] EXCEPT !.pend = Tail(@), !.dk = k,
                                     !.pc = IF node[k].ref = 1 THEN "pdel" ELSE "pend"])
  /\ UNCHANGED <<cur, vals, hnd, dels, mode, bad, lruq, cap, nvid, nd>>
\* same as BucketDelete but returning into the pend loop (keeps `ret`)
PendDelete(t) ==
  /\ th[t].pc = "pdel"
  /\ LET k == th[t].dk  n == node[k] IN
     IF mode = "open"
       THEN IF n.ex /\ (n.ref = 0 \/ ~RecheckRef)
              THEN /\ node' = [node EXCEPT ![k] = NoNode]
                   /\ IF n.val # 0 THEN DoFinalize(n.val) ELSE UNCHANGED <<cur, vals>>
                   /\ Note(n.val # 0 => OkFinalize(n.val), "finalize")
                   /\ SetTh(t, [th[t] EXCEPT !.pc = "pcb", !.cb = n.delf])
                   /\ UNCHANGED <<hnd, dels, mode, lruq, cap, nvid, nd>>
              ELSE /\ SetTh(t, [th[t] EXCEPT !.pc = "pend"])
                   /\ UNCHANGED <<cur, vals, hnd, dels, mode, bad, node, lruq, cap, nvid, nd>>
       ELSE \* only Close's own evictions get here (cache closed): callFinalizer
            /\ node' = [node EXCEPT ![k].val = 0, ![k].delf = {}]
            /\ IF n.val # 0 THEN DoFinalize(n.val) ELSE UNCHANGED <<cur, vals>>
            /\ DoDelfuncs(n.delf)
            /\ Note((n.val # 0 => OkFinalize(n.val)) /\ \A d \in n.delf : OkDelfunc(d), "finalize-closed")
            /\ SetTh(t, [th[t] EXCEPT !.pc = "pend"])
            /\ UNCHANGED <<hnd, mode, lruq, cap, nvid, nd>>
PendCallbacks(t) ==
  /\ th[t].pc = "pcb"
  /\ DoDelfuncs(th[t].cb)
  /\ Note(\A d \in th[t].cb : OkDelfunc(d), "delfunc")
  /\ SetTh(t, [th[t] EXCEPT !.pc = "pend", !.cb = {}])
  /\ UNCHANGED <<cur, vals, hnd, mode, node, lruq, cap, nvid, nd>>

\* ---------------------------------------------------------------- Get
GetStart(t, k, m) ==          \* mBucket.get under the bucket lock
  /\ th[t].pc = "idle" /\ ~th[t].h /\ mode = "open" /\ m \in GetModes
  /\ IF node[k].ex
       THEN node' = [node EXCEPT ![k].ref = @ + 1] /\ SetTh(t, [th[t] EXCEPT !.pc = "g2", !.k = k, !.m = m])
       ELSE IF m = "only" THEN UNCHANGED <<node, th>>                    \* Get returns nil
       ELSE node' = [node EXCEPT ![k] = [NoNode EXCEPT !.ex = TRUE, !.ref = 1]]
            /\ SetTh(t, [th[t] EXCEPT !.pc = "g2", !.k = k, !.m = m])
  /\ UNCHANGED <<cur, vals, hnd, dels, mode, bad, lruq, cap, nvid, nd>>
GetConstruct(t) ==            \* under the node lock
  /\ th[t].pc = "g2"
  /\ LET k == th[t].k IN
     IF node[k].val # 0
       THEN SetTh(t, [th[t] EXCEPT !.pc = "g3"]) /\ UNCHANGED <<cur, vals, bad, node, nvid>>
     ELSE IF th[t].m # "set" \/ nvid = MaxVals           \* no setFunc, or it returned nil: unref, return nil
       THEN SetTh(t, [th[t] EXCEPT !.pc = "gu"]) /\ UNCHANGED <<cur, vals, bad, node, nvid>>
     ELSE /\ nvid' = nvid + 1
          /\ node' = [node EXCEPT ![k].val = nvid + 1]
          /\ DoConstruct(k, nvid + 1, 1)
          /\ Note(OkConstruct(k, nvid + 1), "construct")
          /\ SetTh(t, [th[t] EXCEPT !.pc = "g3"])
  /\ UNCHANGED <<hnd, dels, mode, lruq, cap, nd>>
GetNil(t) ==
  /\ th[t].pc = "gu"
  /\ Unref(t, th[t].k, "del", "idle")
  /\ UNCHANGED <<cur, vals, hnd, dels, mode, bad, lruq, cap, nvid, nd>>
GetPromote(t) ==              \* lru.Promote under the LRU lock
  /\ th[t].pc = "g3"
  /\ LET k == th[t].k IN
     IF InLRU(k)
       THEN /\ lruq' = <<k>> \o Without(lruq, k)
            /\ SetTh(t, [th[t] EXCEPT !.pc = "g4"]) /\ UNCHANGED node
     ELSE IF ~node[k].ban /\ 1 <= cap
       THEN /\ lruq' = Kept(<<k>> \o lruq, cap)
            /\ node' = [node EXCEPT ![k].ref = @ + 1]                  \* n.GetHandle()
            /\ SetTh(t, [th[t] EXCEPT !.pc = "pend", !.ret = "g4", !.pend = Spilled(<<k>> \o lruq, cap)])
     ELSE SetTh(t, [th[t] EXCEPT !.pc = "g4"]) /\ UNCHANGED <<node, lruq>>
  /\ UNCHANGED <<cur, vals, hnd, dels, mode, bad, cap, nvid, nd>>
GetReturn(t) ==
  /\ th[t].pc = "g4"
  /\ LET k == th[t].k  v == node[k].val IN
     /\ DoGetEnd(t, k, v)
     /\ Note(OkGetEnd(t, k, v), "get")
     /\ SetTh(t, [Back(t) EXCEPT !.h = TRUE, !.hk = k])
  /\ UNCHANGED <<cur, dels, mode, node, lruq, cap, nvid, nd>>
\* ---------------------------------------------------------------- Handle.Release (client)
Release(t) ==
  /\ th[t].pc = "idle" /\ th[t].h /\ (CloseExcl => ~ForceClosing)
  /\ DoRelBegin(t) /\ Note(OkRelBegin(t), "release")
  /\ LET k == th[t].hk IN
     /\ node' = [node EXCEPT ![k].ref = @ - 1]
     /\ SetTh(t, IF node[k].ref = 1 THEN [th[t] EXCEPT !.h = FALSE, !.hk = NoKey, !.pc = "xdel", !.dk = k, !.ret = "idle"]
                 ELSE [th[t] EXCEPT !.h = FALSE, !.hk = NoKey])
  /\ UNCHANGED <<cur, mode, lruq, cap, nvid, nd>>
\* ---------------------------------------------------------------- Delete(k, delFunc)
DeleteStart(t, k) ==
  /\ "delete" \in Ops /\ th[t].pc = "idle" /\ mode = "open" /\ nd < MaxDels
  /\ nd' = nd + 1
  /\ DoDelBegin(nd + 1, k, TRUE) /\ Note(OkDelBegin(nd + 1, k), "delete")
  /\ IF node[k].ex
       THEN node' = [node EXCEPT ![k].ref = @ + 1] /\ SetTh(t, [th[t] EXCEPT !.pc = "d2", !.k = k, !.cb = {nd + 1}])
       ELSE UNCHANGED node /\ SetTh(t, [th[t] EXCEPT !.pc = "cb", !.ret = "idle", !.cb = {nd + 1}])
  /\ UNCHANGED <<cur, vals, hnd, mode, lruq, cap, nvid>>
DeleteAppend(t) ==            \* under the node lock
  /\ th[t].pc = "d2"
  /\ node' = [node EXCEPT ![th[t].k].delf = @ \cup th[t].cb]
  /\ SetTh(t, [th[t] EXCEPT !.pc = "d3", !.cb = {}])
  /\ UNCHANGED <<cur, vals, hnd, dels, mode, bad, lruq, cap, nvid, nd>>
DeleteBan(t) ==               \* lru.Ban under the LRU lock
  /\ th[t].pc = "d3"
  /\ LET k == th[t].k IN
     /\ node' = [node EXCEPT ![k].ban = TRUE]
     /\ IF InLRU(k) THEN lruq' = Without(lruq, k) /\ SetTh(t, [th[t] EXCEPT !.pc = "pend", !.pend = <<k>>, !.ret = "d4"])
                    ELSE UNCHANGED lruq /\ SetTh(t, [th[t] EXCEPT !.pc = "d4"])
  /\ UNCHANGED <<cur, vals, hnd, dels, mode, bad, cap, nvid, nd>>
DeleteUnref(t) ==
  /\ th[t].pc = "d4" /\ Unref(t, th[t].k, "del", "idle")
  /\ UNCHANGED <<cur, vals, hnd, dels, mode, bad, lruq, cap, nvid, nd>>
\* ---------------------------------------------------------------- Evict(k)
EvictStart(t, k) ==
  /\ "evict" \in Ops /\ th[t].pc = "idle" /\ mode = "open" /\ node[k].ex
  /\ node' = [node EXCEPT ![k].ref = @ + 1]
  /\ SetTh(t, [th[t] EXCEPT !.pc = "e2", !.k = k])
  /\ UNCHANGED <<cur, vals, hnd, dels, mode, bad, lruq, cap, nvid, nd>>
EvictLRU(t) ==                \* lru.Evict under the LRU lock
  /\ th[t].pc = "e2"
  /\ LET k == th[t].k IN
     IF InLRU(k) THEN lruq' = Without(lruq, k) /\ SetTh(t, [th[t] EXCEPT !.pc = "pend", !.pend = <<k>>, !.ret = "e3"])
                 ELSE UNCHANGED lruq /\ SetTh(t, [th[t] EXCEPT !.pc = "e3"])
  /\ UNCHANGED <<cur, vals, hnd, dels, mode, bad, node, cap, nvid, nd>>
EvictUnref(t) ==
  /\ th[t].pc = "e3" /\ Unref(t, th[t].k, "del", "idle")
  /\ UNCHANGED <<cur, vals, hnd, dels, mode, bad, lruq, cap, nvid, nd>>
\* ---------------------------------------------------------------- EvictNS / EvictAll: enumerate, then lru.Evict
\* each node WITHOUT taking a reference
EvictAllStart(t) ==
  /\ "evictall" \in Ops /\ th[t].pc = "idle" /\ mode = "open"
  /\ \E S \in SUBSET {k \in Keys : node[k].ex} : S # {} /\ SetTh(t, [th[t] EXCEPT !.pc = "ea", !.ks = S])
  /\ UNCHANGED <<cur, vals, hnd, dels, mode, bad, node, lruq, cap, nvid, nd>>
EvictAllStep(t) ==
  /\ th[t].pc = "ea"
  /\ IF th[t].ks = {} THEN SetTh(t, Back(t)) /\ UNCHANGED lruq
     ELSE \E k \in th[t].ks :
            IF InLRU(k) THEN lruq' = Without(lruq, k)
                             /\ SetTh(t, [th[t] EXCEPT !.pc = "pend", !.pend = <<k>>, !.ret = "ea", !.ks = @ \ {k}])
                        ELSE UNCHANGED lruq /\ SetTh(t, [th[t] EXCEPT !.ks = @ \ {k}])
  /\ UNCHANGED <<cur, vals, hnd, dels, mode, bad, node, cap, nvid, nd>>
\* ---------------------------------------------------------------- SetCapacity(c)
SetCapacity(t, c) ==
  /\ "setcap" \in Ops /\ th[t].pc = "idle" /\ c \in Caps /\ c # cap /\ (CloseExcl => ~ForceClosing)
  /\ cap' = c /\ lruq' = Kept(lruq, c)
  /\ SetTh(t, [th[t] EXCEPT !.pc = "pend", !.pend = Spilled(lruq, c), !.ret = "idle"])
  /\ UNCHANGED <<cur, vals, hnd, dels, mode, bad, node, nvid, nd>>
\* ---------------------------------------------------------------- Close(force)
CloseStart(t, force) ==       \* under the write lock: no call other than Handle.Release is in flight
  /\ (IF force THEN "closeforce" ELSE "close") \in Ops
  /\ th[t].pc = "idle" /\ mode = "open" /\ \A u \in Threads : ~RLocked(u)
  /\ CloseExcl => \A u \in Threads : th[u].pc = "idle"
  /\ DoClose(force) /\ Note(OkClose, "close")
  /\ SetTh(t, [th[t] EXCEPT !.pc = "c1", !.ks = {k \in Keys : node[k].ex}, !.f = force])
  /\ UNCHANGED <<cur, vals, hnd, dels, node, lruq, cap, nvid, nd>>
CloseNode(t) ==               \* "Zeroing ref"
  /\ th[t].pc = "c1"
  /\ IF th[t].ks = {} THEN SetTh(t, Back(t)) /\ UNCHANGED node
     ELSE \E k \in th[t].ks :
            /\ node' = IF th[t].f THEN [node EXCEPT ![k].ref = 0] ELSE node
            /\ SetTh(t, [th[t] EXCEPT !.pc = "c2", !.k = k, !.ks = @ \ {k}])
  /\ UNCHANGED <<cur, vals, hnd, dels, mode, bad, lruq, cap, nvid, nd>>
CloseEvict(t) ==
  /\ th[t].pc = "c2"
  /\ LET k == th[t].k IN
     IF InLRU(k) THEN lruq' = Without(lruq, k) /\ SetTh(t, [th[t] EXCEPT !.pc = "pend", !.pend = <<k>>, !.ret = "c3"])
                 ELSE UNCHANGED lruq /\ SetTh(t, [th[t] EXCEPT !.pc = "c3"])
  /\ UNCHANGED <<cur, vals, hnd, dels, mode, bad, node, cap, nvid, nd>>
CloseFinalize(t) ==
  /\ th[t].pc = "c3"
  /\ IF ~th[t].f
       THEN SetTh(t, [th[t] EXCEPT !.pc = "c1", !.k = NoKey]) /\ UNCHANGED <<cur, vals, hnd, dels, mode, bad, node, lruq, cap, nvid, nd>>
     ELSE IF AtomicFin
       THEN /\ Finalizer(t, th[t].k, node[th[t].k].val, "c1")
     ELSE /\ SetTh(t, [th[t] EXCEPT !.pc = "c4", !.fv = node[th[t].k].val])
          /\ UNCHANGED <<cur, vals, hnd, dels, mode, bad, node, lruq, cap, nvid, nd>>
CloseFinalizeLate(t) ==
  /\ th[t].pc = "c4"
  /\ Finalizer(t, th[t].k, th[t].fv, "c1")

Next == \E t \in Threads :
          \/ \E k \in Keys : (\E m \in GetModes : GetStart(t, k, m)) \/ DeleteStart(t, k) \/ EvictStart(t, k)
          \/ GetConstruct(t) \/ GetNil(t) \/ GetPromote(t) \/ GetReturn(t) \/ Release(t)
          \/ DeleteAppend(t) \/ DeleteBan(t) \/ DeleteUnref(t) \/ EvictLRU(t) \/ EvictUnref(t)
          \/ EvictAllStart(t) \/ EvictAllStep(t) \/ (\E c \in Caps : SetCapacity(t, c))
          \/ (\E f \in BOOLEAN : CloseStart(t, f)) \/ CloseNode(t) \/ CloseEvict(t) \/ CloseFinalize(t) \/ CloseFinalizeLate(t)
          \/ BucketDelete(t) \/ FinalizerLate(t) \/ RunCallbacks(t) \/ ReleasePend(t) \/ PendDelete(t) \/ PendCallbacks(t)
Spec == Init /\ [][Next]_vars

(***************************************************************************)
(* C17, clause by clause.                                                  *)
(***************************************************************************)
Quiescent == \A t \in Threads : th[t].pc = "idle" /\ ~th[t].h
\* 1. concurrent lookups of a key obtain the same live value
OneLiveValue == /\ "get" \notin bad
                /\ \A v, w \in LiveVals : vals[v].k = vals[w].k => v = w
                /\ \A k \in Keys : cur[k] # 0 => Live(cur[k]) /\ vals[cur[k]].k = k
\* 2. whose constructor runs once per residency
ConstructOnce == "construct" \notin bad
\* 3. a value is finalised exactly once and, unless force-closed, only after every handle was released
FinalizeOnce == /\ bad \cap {"finalize", "finalize-closed", "release"} = {}
                /\ Quiescent => \A v \in LiveVals : InLRU(vals[v].k) /\ node[vals[v].k].val = v   \* nothing leaks
\* 4. deletion callbacks run exactly once and never while a handle is outstanding
CallbackOnce == /\ bad \cap {"delfunc", "delete"} = {}
                /\ Quiescent => DOMAIN dels = {}
\* 5. the charge retained by the replacement policy never exceeds the capacity
CapacityOK == /\ Len(lruq) <= cap
              /\ Quiescent => OkQuiesce(cap)
\* supporting structure
RefSane == \A k \in Keys : node[k].ex /\ ~Forced => node[k].ref >= 0
LruHoldsRef == /\ \A k \in Keys : InLRU(k) => node[k].ex /\ ~node[k].ban /\ (Forced \/ node[k].ref >= 1)
               /\ \A i, j \in DOMAIN lruq : i # j => lruq[i] # lruq[j]
CloseOK == "close" \notin bad

View == <<cur, vals, hnd, dels, mode, bad, node, lruq, cap, th, nvid, nd>>
Symm == Permutations(Threads) \cup Permutations(Keys)
=============================================================================
