SPECIFICATION TraceSpec
CONSTANTS
  Keys <- TraceKeys
  Threads = {t1}
  NoKey = nokey
  Caps = {0}
  Cap0 = 0
  MaxVals = 0
  MaxDels = 0
  GetModes = {"set"}
  Ops = {}
  RecheckRef = TRUE
  AtomicFin = TRUE
  RecheckClosed = TRUE
  ClearDelf = TRUE
  CloseExcl = FALSE
VIEW TraceView
POSTCONDITION Report
CHECK_DEADLOCK FALSE
