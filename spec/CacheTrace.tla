----------------------------- MODULE CacheTrace -----------------------------
(***************************************************************************)
(* C17 trace specification: a MONITOR over what a client of the real       *)
(* leveldb/cache can observe (harness/cmd/cachechk).  It EXTENDS Cache and *)
(* drives the OBSERVABLE layer of that module - the same Ok* / Do*         *)
(* operators the design spec's algorithm steps use - from the recorded     *)
(* events; the internal layer (node, th, lruq, ...) is not reconstructed   *)
(* and stays at its initial value.  One NDJSON line per event, in the      *)
(* real-time order given by the tracer mutex.  A line whose Ok* predicate  *)
(* is false (a clause of C17 broken) has no successor: the trace stops     *)
(* there and the check reports that line.                                  *)
(*                                                                         *)
(*   construct      clause 2  no live value of that key exists             *)
(*   get-end        clause 1  the value is the key's one live value        *)
(*   finalize       clause 3  live (so: first time) and, unless force-     *)
(*                            closed, every handle's release has begun     *)
(*   delfunc        clause 4  first time, and no handle that was           *)
(*                            outstanding when its Delete began still is   *)
(*   delete-end     clause 4  r = 0 => the callback already ran            *)
(*   quiesce        clause 5  (all goroutines parked, no handle held)      *)
(*                            charge of live values <= capacity; every     *)
(*                            accepted callback ran                        *)
(*   end            3, 4      after Close and the last release everything  *)
(*                            was finalised and every callback ran         *)
(*   bulk           3, 4      counter summary of a batch of throw-away     *)
(*                            keys of the second namespace                 *)
(***************************************************************************)
EXTENDS Cache, Json, IOUtils

Trace == ndJsonDeserialize(IOEnv.TRACE)
TraceKeys == 0..15

VARIABLE l
tvars == <<vars, l>>

E == Trace[l]
Is(name) == E.ev = name
Has(f) == f \in DOMAIN E

Reset ==
  /\ Is("reset")
  /\ cur' = [k \in Keys |-> 0] /\ vals' = Empty /\ hnd' = Empty /\ dels' = Empty /\ mode' = "open"

TConstruct ==
  /\ Is("construct")
  /\ OkConstruct(E.k, E.v) /\ DoConstruct(E.k, E.v, E.c)
  /\ UNCHANGED <<hnd, dels, mode>>
TGetEnd ==
  /\ Is("get-end")
  /\ IF E.h = 0
       THEN (E.m # 0 \/ mode # "open") /\ UNCHANGED obsvars      \* nil: no setFunc / it returned nil / closed
     ELSE IF Has("known")                                         \* (see TFinalize) keep the handle id so that its release is accepted
       THEN hnd' = (E.h :> 0) @@ hnd /\ UNCHANGED <<cur, vals, dels, mode>>
       ELSE OkGetEnd(E.h, E.k, E.v) /\ DoGetEnd(E.h, E.k, E.v) /\ UNCHANGED <<cur, dels, mode>>
TRelBegin ==
  /\ Is("release-begin")
  /\ OkRelBegin(E.h) /\ DoRelBegin(E.h)
  /\ UNCHANGED <<cur, mode>>
\* A line carrying "known" was rewritten by the orchestrator after it matched a listed known finding
\* (KNOWN_FINDINGS.json): its effect is applied without its check so that the rest of the trace is
\* still validated.  The driver never writes that field.
TFinalize ==
  /\ Is("finalize")
  /\ IF Has("known") THEN IF Live(E.v) THEN DoFinalize(E.v) ELSE UNCHANGED <<cur, vals>>
     ELSE OkFinalize(E.v) /\ vals[E.v].k = E.k /\ DoFinalize(E.v)
  /\ UNCHANGED <<hnd, dels, mode>>
TDelBegin ==
  /\ Is("delete-begin")
  /\ OkDelBegin(E.d, E.k) /\ DoDelBegin(E.d, E.k, FALSE)
  /\ UNCHANGED <<cur, vals, hnd, mode>>
TDelfunc ==
  /\ Is("delfunc")
  /\ IF Has("known") THEN IF E.d \in DOMAIN dels /\ ~dels[E.d].ran THEN DoDelfuncs({E.d}) ELSE UNCHANGED dels
     ELSE OkDelfunc(E.d) /\ dels[E.d].k = E.k /\ DoDelfuncs({E.d})
  /\ UNCHANGED <<cur, vals, hnd, mode>>
TDelEnd ==
  /\ Is("delete-end")
  /\ OkDelEnd(E.d, E.r) /\ DoDelEnd(E.d)
  /\ UNCHANGED <<cur, vals, hnd, mode>>
TCloseBegin ==
  /\ Is("close-begin")
  /\ IF Has("again") THEN mode # "open" /\ UNCHANGED obsvars          \* second Close: no effect
     ELSE OkClose /\ DoClose(E.force = 1) /\ UNCHANGED <<cur, vals, hnd, dels>>
TQuiesce ==
  /\ Is("quiesce")
  /\ OkQuiesce(E.cap) /\ ChargeOf(LiveVals) = E.charge
  /\ UNCHANGED obsvars
TBulk ==
  /\ Is("bulk")
  /\ E.constructed = E.keys /\ E.finalized = E.keys /\ E.dup = 0 /\ E.early = 0 /\ E.cbs = E.dels
  /\ UNCHANGED obsvars
\* a forced Close right after the table grew (handles still held): every value constructed was finalised, once
TGrowClose ==
  /\ Is("growclose")
  /\ E.constructed = E.keys /\ E.finalized = E.keys /\ E.dup = 0
  /\ UNCHANGED obsvars
TEnd ==
  /\ Is("end")
  /\ mode # "open" /\ DOMAIN hnd = {} /\ DOMAIN vals = {} /\ DOMAIN dels = {}
  /\ UNCHANGED obsvars
\* calls without an observable obligation of their own
TOther ==
  /\ E.ev \in {"get-begin", "release-end", "evict", "evictns", "evictall", "setcap", "close-end", "note"}
  /\ UNCHANGED obsvars

TraceInit == Init /\ l = 1 /\ TLCSet(1, 1)

TraceNext ==
  /\ l <= Len(Trace)
  /\ l' = l + 1
  /\ \/ Reset \/ TConstruct \/ TGetEnd \/ TRelBegin \/ TFinalize \/ TDelBegin \/ TDelfunc \/ TDelEnd
     \/ TCloseBegin \/ TQuiesce \/ TBulk \/ TGrowClose \/ TEnd \/ TOther
  /\ UNCHANGED <<bad, node, lruq, cap, th, nvid, nd>>
  /\ TLCSet(1, IF TLCGet(1) < l' THEN l' ELSE TLCGet(1))

TraceSpec == TraceInit /\ [][TraceNext]_tvars

TraceView == <<cur, vals, hnd, dels, mode, l>>

Report ==
  /\ PrintT(<<"VERIF-HWM", TLCGet(1), Len(Trace)>>)
  /\ IF TLCGet(1) <= Len(Trace) THEN PrintT(<<"VERIF-STUCK", Trace[TLCGet(1)]>>) ELSE TRUE
=============================================================================
