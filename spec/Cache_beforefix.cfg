\* C17 design spec, the algorithm BEFORE fixes e7aceb0 / 9182bd2 (unsynchronised finaliser, no re-check of ref on a closed cache) under the full quantifier: EXPECTED to break FinalizeOnce (model-level picture of defects F20 / F21)
SPECIFICATION Spec
CONSTANTS
  Keys = {k1, k2}
  Threads = {t1, t2}
  NoKey = nokey
  Caps = {0, 1}
  Cap0 = 1
  MaxVals = 2
  MaxDels = 1
  GetModes = {"set", "only", "nil"}
  Ops = {"delete", "evict", "evictall", "setcap", "close", "closeforce"}
  RecheckRef = TRUE
  AtomicFin = FALSE
  RecheckClosed = FALSE
  ClearDelf = TRUE
  CloseExcl = FALSE
SYMMETRY Symm
VIEW View
INVARIANTS OneLiveValue ConstructOnce FinalizeOnce CallbackOnce CapacityOK RefSane LruHoldsRef CloseOK
CHECK_DEADLOCK FALSE
