\* C17 design spec, the algorithm BEFORE fixes e7aceb0 / 9182bd2 under the environment assumption CloseExcl: holds (what the old code could be relied on for)
SPECIFICATION Spec
CONSTANTS
  Keys = {k1, k2}
  Threads = {t1, t2}
  NoKey = nokey
  Caps = {0, 1}
  Cap0 = 1
  MaxVals = 2
  MaxDels = 1
  GetModes = {"set", "only", "nil"}
  Ops = {"delete", "evict", "evictall", "setcap", "close", "closeforce"}
  RecheckRef = TRUE
  AtomicFin = FALSE
  RecheckClosed = FALSE
  ClearDelf = TRUE
  CloseExcl = TRUE
SYMMETRY Symm
VIEW View
INVARIANTS OneLiveValue ConstructOnce FinalizeOnce CallbackOnce CapacityOK RefSane LruHoldsRef CloseOK
CHECK_DEADLOCK FALSE
