\* C17 design spec, quick tier: 2 keys x 2 threads, every operation, capacities {0,1}
SPECIFICATION Spec
CONSTANTS
  Keys = {k1, k2}
  Threads = {t1, t2}
  NoKey = nokey
  Caps = {0, 1}
  Cap0 = 1
  MaxVals = 2
  MaxDels = 1
  GetModes = {"set", "only", "nil"}
  Ops = {"delete", "evict", "evictall", "setcap", "close", "closeforce"}
  RecheckRef = TRUE
  AtomicFin = TRUE
  RecheckClosed = TRUE
  ClearDelf = TRUE
  CloseExcl = FALSE
SYMMETRY Symm
VIEW View
INVARIANTS OneLiveValue ConstructOnce FinalizeOnce CallbackOnce CapacityOK RefSane LruHoldsRef CloseOK
CHECK_DEADLOCK FALSE
