SPECIFICATION Spec
CONSTANT NK = 24
VIEW View
POSTCONDITION Report
CHECK_DEADLOCK FALSE
