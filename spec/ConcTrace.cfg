SPECIFICATION Spec
CONSTANTS NK = 24 CheckProto = TRUE
VIEW View
POSTCONDITION Report
CHECK_DEADLOCK FALSE
