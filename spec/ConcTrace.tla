----------------------------- MODULE ConcTrace -----------------------------
(***************************************************************************)
(* Concurrent use of ONE real DB by several client goroutines, as recorded *)
(* by harness/cmd/concdb: every client call is a `call` line (invocation)  *)
(* and a `ret` line (response); every write-path / lock hook the DB fired  *)
(* (build tag verif, emitted while the protecting lock is held) is an `hk` *)
(* line carrying the client it ran on.  All lines went through one mutex,  *)
(* so file order is a real-time order.                                     *)
(*                                                                         *)
(* C10  writer serialisation and merge protocol: one holder of the write   *)
(*      lock; a group = leader + explicitly merged writers (transcribing   *)
(*      writeLocked's batch list); one journal record and one publication  *)
(*      per group covering all members; acknowledgements = merged writers; *)
(*      every member's reply = the group's result; the lock is released or *)
(*      handed to exactly the one writer that overflowed.                  *)
(* C05  linearizability / consistent cuts: publications are the only       *)
(*      state changes (S_0, S_1, ...); a publication lies between the      *)
(*      call and the return of each of its writers; each read is explained *)
(*      by ONE state whose index lies between the publications completed   *)
(*      at its call and those begun at its return, and a client's reads    *)
(*      never go back.                                                     *)
(* C09  every call returns (quiesce: nothing pending), a finished call     *)
(*      holds neither the write lock nor the commit lock.                  *)
(***************************************************************************)
EXTENDS Integers, Sequences, FiniteSets, TLC, Json, IOUtils

CONSTANTS NK,
          CheckProto   \* TRUE: also check the C10-only bookkeeping (record counts, acknowledgement counts, sync); FALSE: C05 view
Keys == 0 .. (NK - 1)

Trace == ndJsonDeserialize(IOEnv.TRACE)

VARIABLES
  l,        \* line
  holder,   \* write lock: 0 free, c > 0 client, -1 promised to the overflowing writer, -2 Close, -3 error goroutine
  promised, \* op id the lock was handed to (overflow)
  grp,      \* current write group
  result,   \* op -> 0 ok | 1 error   (reply owed to each member of a finished group)
  ops,      \* op -> its call record (calls in flight)
  txown,    \* client that owns the open transaction (0: none)
  commitLk, \* 0 free | 1 held by a transaction commit | 2 held by a compaction commit
  clHolder, \* client holding commitLk through a transaction commit
  states,   \* S_0 .. S_n : Keys -> value id
  pubBegun, pubEnded,   \* publications begun / completed so far
  pending,  \* publication in progress: the ops to apply (or <<>>)
  floor,    \* client -> smallest state index its next read may use
  published \* ops whose publication completed

vars == <<l, holder, promised, grp, result, ops, txown, commitLk, clHolder, states, pubBegun, pubEnded, pending, floor, published>>

E == Trace[l]
NoGrp == [leader |-> 0, segs |-> <<>>, our |-> 0, ovf |-> 0, journaled |-> FALSE, jerr |-> 0, begun |-> FALSE, ended |-> FALSE]
Dom(f) == DOMAIN f
Ext(f, x, v) == [y \in Dom(f) \cup {x} |-> IF y = x THEN v ELSE f[y]]
Drop(f, S) == [y \in Dom(f) \ S |-> f[y]]
SeqSet(s) == {s[i] : i \in 1 .. Len(s)}

RECURSIVE Flatten(_)
Flatten(ss) == IF ss = <<>> THEN <<>> ELSE Head(ss) \o Flatten(Tail(ss))
Members(g) == SeqSet(Flatten(g.segs))

RECURSIVE ApplyOps(_, _)
ApplyOps(st, os) == IF os = <<>> THEN st ELSE ApplyOps([st EXCEPT ![Head(os)[1]] = Head(os)[2]], Tail(os))
RECURSIVE ApplyAll(_, _)
\* apply the batches of the ops in `order` (a sequence of op ids)
ApplyAll(st, order) == IF order = <<>> THEN st ELSE ApplyAll(ApplyOps(st, ops[Head(order)].ops), Tail(order))
RECURSIVE SumRec(_)
SumRec(order) == IF order = <<>> THEN 0 ELSE ops[Head(order)].nrec + SumRec(Tail(order))

PairsToStore(ps) == [k \in Keys |-> LET S == {i \in 1 .. Len(ps) : ps[i][1] = k} IN
                                    IF S = {} THEN 0 ELSE ps[CHOOSE i \in S : TRUE][2]]
Last(s) == s[Len(s)]
IsWrite(k) == k \in {"put", "write"}
Is(h) == E.ev = "hk" /\ E.h = h
Same(v) == UNCHANGED v
Proto(x) == CheckProto => x

Init ==
  /\ l = 1 /\ holder = 0 /\ promised = 0 /\ grp = NoGrp /\ result = <<>> /\ ops = <<>> /\ txown = 0
  /\ commitLk = 0 /\ clHolder = 0
  /\ states = <<[k \in Keys |-> 0]>> /\ pubBegun = 0 /\ pubEnded = 0 /\ pending = <<>>
  /\ floor = <<>> /\ published = {}
  /\ TLCSet(1, 1)

Reset ==
  /\ E.ev = "reset"
  /\ holder' = 0 /\ promised' = 0 /\ grp' = NoGrp /\ result' = <<>> /\ ops' = <<>> /\ txown' = 0
  /\ commitLk' = 0 /\ clHolder' = 0
  /\ states' = <<[k \in Keys |-> 0]>> /\ pubBegun' = 0 /\ pubEnded' = 0 /\ pending' = <<>>
  /\ floor' = <<>> /\ published' = {}

-----------------------------------------------------------------------------
(* client calls *)

Call ==
  /\ E.ev = "call"
  /\ E.op \notin Dom(ops)
  /\ ops' = Ext(ops, E.op, [c |-> E.c, kind |-> E.kind,
                            ops |-> IF "ops" \in DOMAIN E THEN E.ops ELSE <<>>,
                            nrec |-> IF "nrec" \in DOMAIN E THEN E.nrec ELSE 0,
                            sync |-> IF "sync" \in DOMAIN E THEN E.sync ELSE 0,
                            k |-> IF "k" \in DOMAIN E THEN E.k ELSE 0,
                            lo |-> pubEnded,           \* publications completed before the call must be visible
                            pb |-> pubBegun])          \* a write's own publication must begin after its call
  /\ Same(<<holder, promised, grp, result, txown, commitLk, clHolder, states, pubBegun, pubEnded, pending, floor, published>>)

Floor(c) == IF c \in Dom(floor) THEN floor[c] ELSE 0

\* C05: ONE state between the call and the return explains the whole read; reads of a client never go back
ReadExplained(o, pred(_)) ==
  LET lo == IF o.lo > Floor(o.c) THEN o.lo ELSE Floor(o.c)
      hi == pubBegun
      C  == {i \in lo .. hi : i + 1 <= Len(states) /\ pred(states[i + 1])}
      \* a publication begun but not completed is visible to some readers: its state is the pending one
      P  == IF pending # <<>> /\ hi = pubEnded + 1 /\ lo <= hi /\ pred(ApplyAll(Last(states), pending)) THEN {hi} ELSE {}
  IN C \cup P

RetRead ==
  /\ E.ev = "ret" /\ E.op \in Dom(ops) /\ ops[E.op].kind \in {"get", "snapall", "iterall"}
  /\ LET o == ops[E.op] IN
     IF E.err \in {"closed", "fail"}
     THEN Same(floor)
     ELSE LET X == IF o.kind = "get"
                   THEN ReadExplained(o, LAMBDA s : s[o.k] = E.v /\ (E.err = "notfound") = (E.v = 0))
                   ELSE ReadExplained(o, LAMBDA s : s = PairsToStore(E.store))
          IN /\ X # {}
             /\ floor' = Ext(floor, o.c, CHOOSE i \in X : \A j \in X : i <= j)
  /\ ops' = Drop(ops, {E.op})
  /\ Same(<<holder, promised, grp, result, txown, commitLk, clHolder, states, pubBegun, pubEnded, pending, published>>)

\* C10: a member of a group gets the group's result, exactly once; C05: an acknowledged write was published
\* between its call and its return; C09: whoever returns holds no lock
NoLeak(c) == holder # c /\ clHolder # c
RetWrite ==
  /\ E.ev = "ret" /\ E.op \in Dom(ops) /\ IsWrite(ops[E.op].kind)
  /\ NoLeak(E.c)
  /\ IF E.op \in Dom(result)
     THEN /\ (E.err = "none") = (result[E.op] = 0)
          /\ result' = Drop(result, {E.op})
     ELSE /\ Same(result)
          /\ E.err = "none" => E.op \in published        \* the oversize-batch path publishes through a transaction
  /\ E.err = "none" => E.op \in published
  /\ ops' = Drop(ops, {E.op})
  /\ published' = published \ {E.op}
  /\ Same(<<holder, promised, grp, txown, commitLk, clHolder, states, pubBegun, pubEnded, pending, floor>>)

\* SetReadOnly keeps the write lock on success: it now belongs to the compaction-error goroutine, which gives it back at Close.
\* A SetReadOnly that fails (closed, persistent error) holds nothing.
RetSetRO ==
  /\ E.ev = "ret" /\ E.op \in Dom(ops) /\ ops[E.op].kind = "setro"
  /\ clHolder # E.c
  /\ IF E.err = "none" THEN Proto(holder = E.c) /\ holder' = (IF holder = E.c THEN -3 ELSE holder)
     ELSE Proto(holder # E.c) /\ Same(holder)
  /\ ops' = Drop(ops, {E.op})
  /\ Same(<<promised, grp, result, txown, commitLk, clHolder, states, pubBegun, pubEnded, pending, floor, published>>)

RetOther ==
  /\ E.ev = "ret" /\ E.op \in Dom(ops) /\ ~IsWrite(ops[E.op].kind) /\ ops[E.op].kind \notin {"get", "snapall", "iterall", "setro"}
  /\ LET o == ops[E.op] IN
     /\ clHolder # E.c
     /\ CASE o.kind = "txopen"    -> /\ (E.err = "none") => (holder = E.c /\ txown = E.c)
                                     /\ (E.err # "none") => holder # E.c
          [] o.kind = "txcommit"  -> /\ (E.err = "none") => (E.op \in published /\ holder # E.c /\ txown # E.c)
          [] o.kind = "txdiscard" -> holder # E.c /\ txown # E.c
          [] o.kind = "close"     -> TRUE
          [] OTHER                -> holder # E.c
  /\ ops' = Drop(ops, {E.op})
  /\ published' = published \ {E.op}
  /\ Same(<<holder, promised, grp, result, txown, commitLk, clHolder, states, pubBegun, pubEnded, pending, floor>>)

\* C09: at the end nothing is pending
Quiesce ==
  /\ E.ev = "quiesce"
  /\ Len(E.pending) = 0
  /\ Dom(ops) = {}
  /\ Same(<<holder, promised, grp, result, ops, txown, commitLk, clHolder, states, pubBegun, pubEnded, pending, floor, published>>)

Note == E.ev = "note" /\ Same(<<holder, promised, grp, result, ops, txown, commitLk, clHolder, states, pubBegun, pubEnded, pending, floor, published>>)

-----------------------------------------------------------------------------
(* the write lock *)

OpenWriteOf(c) == {o \in Dom(ops) : ops[o].c = c /\ IsWrite(ops[o].kind)}

WLock ==       \* acquired through the select
  /\ Is("w:lock") /\ holder = 0
  /\ holder' = E.c
  /\ Same(<<promised, grp, result, ops, txown, commitLk, clHolder, states, pubBegun, pubEnded, pending, floor, published>>)

WHandoff ==    \* the previous leader passed the lock to the writer that overflowed, and to nobody else
  /\ Is("w:handoff") /\ holder = -1
  /\ promised \in Dom(ops) /\ ops[promised].c = E.c
  /\ holder' = E.c /\ promised' = 0
  /\ Same(<<grp, result, ops, txown, commitLk, clHolder, states, pubBegun, pubEnded, pending, floor, published>>)

XLock ==       \* OpenTransaction (1), CompactRange (2), SetReadOnly (3)
  /\ Is("x:lock") /\ holder = 0
  /\ holder' = E.c
  /\ Same(<<promised, grp, result, ops, txown, commitLk, clHolder, states, pubBegun, pubEnded, pending, floor, published>>)

XUnlock ==     \* may run on another goroutine (Close discarding the open transaction)
  /\ Is("x:unlock") /\ holder > 0 /\ grp = NoGrp
  /\ (E.who = 2 => holder = E.c)
  /\ holder' = 0
  /\ txown' = IF E.who = 1 THEN 0 ELSE txown
  /\ Same(<<promised, grp, result, ops, commitLk, clHolder, states, pubBegun, pubEnded, pending, floor, published>>)

CloseLock ==
  /\ Is("close:lock") /\ holder = 0
  /\ holder' = -2
  /\ Same(<<promised, grp, result, ops, txown, commitLk, clHolder, states, pubBegun, pubEnded, pending, floor, published>>)

CeLock ==
  /\ Is("ce:lock") /\ holder = 0 /\ holder' = -3
  /\ Same(<<promised, grp, result, ops, txown, commitLk, clHolder, states, pubBegun, pubEnded, pending, floor, published>>)
CeUnlock ==
  /\ Is("ce:unlock") /\ holder = -3 /\ holder' = 0
  /\ Same(<<promised, grp, result, ops, txown, commitLk, clHolder, states, pubBegun, pubEnded, pending, floor, published>>)

-----------------------------------------------------------------------------
(* one write group: transcription of writeLocked's batch list *)

WLeader ==
  /\ Is("w:leader") /\ holder = E.c /\ grp = NoGrp
  /\ E.wop \in Dom(ops) /\ ops[E.wop].c = E.c /\ IsWrite(ops[E.wop].kind)
  /\ grp' = [NoGrp EXCEPT !.leader = E.c, !.segs = <<<<E.wop>>>>,
                          !.our = IF ops[E.wop].kind = "put" THEN 1 ELSE 0]
  /\ Same(<<holder, promised, result, ops, txown, commitLk, clHolder, states, pubBegun, pubEnded, pending, floor, published>>)

WMerge ==
  /\ Is("w:merge") /\ holder = E.c /\ grp.leader = E.c /\ ~grp.journaled /\ grp.ovf = 0
  /\ E.wop \in Dom(ops) /\ IsWrite(ops[E.wop].kind) /\ E.wop \notin Members(grp)
  /\ ops[E.wop].c # E.c
  /\ Proto(E.merged = Cardinality(Members(grp)))         \* = writers merged so far, counting this one
  /\ grp' = IF ops[E.wop].kind = "put"
            THEN IF grp.our = 0
                 THEN [grp EXCEPT !.segs = Append(@, <<E.wop>>), !.our = Len(grp.segs) + 1]
                 ELSE [grp EXCEPT !.segs[grp.our] = Append(@, E.wop)]
            ELSE [grp EXCEPT !.segs = Append(@, <<E.wop>>)]
  /\ Same(<<holder, promised, result, ops, txown, commitLk, clHolder, states, pubBegun, pubEnded, pending, floor, published>>)

WMerged ==     \* the merged writer learnt it was merged: it must be a member of the current group, or already owed a result
  /\ Is("w:merged")
  /\ \E o \in OpenWriteOf(E.c) : o \in Members(grp) \/ o \in Dom(result)
  /\ Same(<<holder, promised, grp, result, ops, txown, commitLk, clHolder, states, pubBegun, pubEnded, pending, floor, published>>)

WOverflow ==
  /\ Is("w:overflow") /\ holder = E.c /\ grp.leader = E.c /\ grp.ovf = 0 /\ ~grp.journaled
  /\ E.wop \in Dom(ops) /\ E.wop \notin Members(grp)
  /\ grp' = [grp EXCEPT !.ovf = E.wop]
  /\ Same(<<holder, promised, result, ops, txown, commitLk, clHolder, states, pubBegun, pubEnded, pending, floor, published>>)

\* one journal record per group, covering every member; synced if any member asked for it
WJournal ==
  /\ Is("w:journal") /\ holder = E.c /\ grp.leader = E.c /\ ~grp.journaled
  /\ Proto(E.nrec = SumRec(Flatten(grp.segs)))
  /\ Proto((\E o \in Members(grp) : ops[o].sync = 1) => E.sync = 1)
  /\ grp' = [grp EXCEPT !.journaled = TRUE, !.jerr = E.err]
  /\ Same(<<holder, promised, result, ops, txown, commitLk, clHolder, states, pubBegun, pubEnded, pending, floor, published>>)

WPubBegin ==
  /\ Is("w:publish-begin") /\ holder = E.c /\ grp.leader = E.c /\ grp.journaled /\ grp.jerr = 0 /\ ~grp.begun
  /\ pending = <<>>
  /\ Proto(E.nrec = SumRec(Flatten(grp.segs)))
  /\ \A o \in Members(grp) : ops[o].pb <= pubBegun      \* trivially true; the point is o is still in flight
  /\ grp' = [grp EXCEPT !.begun = TRUE]
  /\ pending' = Flatten(grp.segs)
  /\ pubBegun' = pubBegun + 1
  /\ Same(<<holder, promised, result, ops, txown, commitLk, clHolder, states, pubEnded, floor, published>>)

WPubEnd ==
  /\ Is("w:publish-end") /\ holder = E.c /\ grp.begun /\ ~grp.ended
  /\ states' = Append(states, ApplyAll(Last(states), pending))
  /\ pending' = <<>>
  /\ pubEnded' = pubEnded + 1
  /\ published' = published \cup Members(grp)
  /\ grp' = [grp EXCEPT !.ended = TRUE]
  /\ Same(<<holder, promised, result, ops, txown, commitLk, clHolder, pubBegun, floor>>)

\* the leader finishes: as many acknowledgements as merged writers, the lock released or promised to the overflow
WUnlock ==
  /\ Is("w:unlock") /\ holder = E.c
  /\ IF grp = NoGrp
     THEN \* flush() failed before the group was formed
          /\ E.merged = 0 /\ E.overflow = 0 /\ E.err = 1
          /\ result' = [o \in Dom(result) \cup OpenWriteOf(E.c) |-> IF o \in OpenWriteOf(E.c) THEN 1 ELSE result[o]]
          /\ holder' = 0 /\ Same(<<promised, grp>>)
     ELSE /\ grp.leader = E.c
          /\ Proto(E.merged = Cardinality(Members(grp)) - 1)
          /\ Proto((E.overflow = 1) = (grp.ovf # 0))
          /\ (E.err = 0) => grp.ended                       \* success only after the one publication
          /\ (E.err = 1) => ~grp.begun \/ grp.ended         \* (rotation after publication may still fail)
          /\ result' = [o \in Dom(result) \cup Members(grp) |-> IF o \in Members(grp) THEN E.err ELSE result[o]]
          /\ holder' = IF grp.ovf # 0 THEN -1 ELSE 0
          /\ promised' = grp.ovf
          /\ grp' = NoGrp
  /\ Same(<<ops, txown, commitLk, clHolder, states, pubBegun, pubEnded, pending, floor, published>>)

-----------------------------------------------------------------------------
(* transactions and the commit lock *)

TxOpen ==
  /\ Is("tx:open") /\ holder = E.c /\ txown = 0
  /\ txown' = E.c
  /\ Same(<<holder, promised, grp, result, ops, commitLk, clHolder, states, pubBegun, pubEnded, pending, floor, published>>)

ClLock ==
  /\ Is("cl:lock") /\ commitLk = 0
  /\ commitLk' = IF E.who = 1 THEN 1 ELSE 2
  /\ clHolder' = IF E.who = 1 THEN E.c ELSE 0
  /\ Same(<<holder, promised, grp, result, ops, txown, states, pubBegun, pubEnded, pending, floor, published>>)

ClUnlock ==
  /\ Is("cl:unlock") /\ commitLk = (IF E.who = 1 THEN 1 ELSE 2)
  /\ commitLk' = 0 /\ clHolder' = 0
  /\ Same(<<holder, promised, grp, result, ops, txown, states, pubBegun, pubEnded, pending, floor, published>>)

TxCommitOp(c) == {o \in Dom(ops) : ops[o].c = c /\ (ops[o].kind = "txcommit" \/ IsWrite(ops[o].kind))}

TxPubBegin ==
  /\ Is("tx:publish-begin") /\ commitLk = 1 /\ pending = <<>>
  /\ \E o \in TxCommitOp(E.c) : pending' = <<o>>
  /\ Cardinality(TxCommitOp(E.c)) = 1
  /\ pubBegun' = pubBegun + 1
  /\ Same(<<holder, promised, grp, result, ops, txown, commitLk, clHolder, states, pubEnded, floor, published>>)

TxPublish ==
  /\ Is("tx:publish") /\ commitLk = 1 /\ Len(pending) = 1
  /\ states' = Append(states, ApplyAll(Last(states), pending))
  /\ published' = published \cup SeqSet(pending)
  /\ pending' = <<>>
  /\ pubEnded' = pubEnded + 1
  /\ Same(<<holder, promised, grp, result, ops, txown, commitLk, clHolder, pubBegun, floor>>)

OtherHook ==
  /\ E.ev = "hk" /\ E.h \in {"tx:try", "tx:done", "tx:discard", "close:signalled", "close:drained"}
  /\ Same(<<holder, promised, grp, result, ops, txown, commitLk, clHolder, states, pubBegun, pubEnded, pending, floor, published>>)

-----------------------------------------------------------------------------
Next ==
  /\ l <= Len(Trace)
  /\ l' = l + 1
  /\ \/ Reset \/ Call \/ RetRead \/ RetWrite \/ RetOther \/ RetSetRO \/ Quiesce \/ Note
     \/ WLock \/ WHandoff \/ XLock \/ XUnlock \/ CloseLock \/ CeLock \/ CeUnlock
     \/ WLeader \/ WMerge \/ WMerged \/ WOverflow \/ WJournal \/ WPubBegin \/ WPubEnd \/ WUnlock
     \/ TxOpen \/ ClLock \/ ClUnlock \/ TxPubBegin \/ TxPublish \/ OtherHook
  /\ TLCSet(1, IF TLCGet(1) < l' THEN l' ELSE TLCGet(1))

Spec == Init /\ [][Next]_vars
View == <<l, holder, grp, txown, commitLk, Len(states)>>

Report ==
  /\ PrintT(<<"VERIF-HWM", TLCGet(1), Len(Trace)>>)
  /\ IF TLCGet(1) <= Len(Trace) THEN PrintT(<<"VERIF-STUCK", Trace[TLCGet(1)]>>) ELSE TRUE
=============================================================================
