SPECIFICATION Spec
CONSTANTS NK = 24 CheckProto = FALSE
VIEW View
POSTCONDITION Report
CHECK_DEADLOCK FALSE
