SPECIFICATION CrashSpec
CONSTANT NK = 64
VIEW CrashView
POSTCONDITION Report
CHECK_DEADLOCK FALSE
