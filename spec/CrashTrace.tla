---------------------------- MODULE CrashTrace ----------------------------
(***************************************************************************)
(* C04 (and the reopen half of C08/C11): what the REAL DB contained after   *)
(* being reopened on a post-crash storage image.  The driver logs every     *)
(* issued batch with the storage-operation index at which its call began    *)
(* (b) and at which its acknowledgement was observed (a), and one           *)
(* `recovered` line per distinct outcome of reopening an image cut after    *)
(* `at` storage operations.  The monitor is the property statement:         *)
(*   - the DB opened (ok = 1);                                              *)
(*   - its contents are the batches of a witness set W applied in issue     *)
(*     order: every batch entirely present or entirely absent, nothing      *)
(*     that was never written;                                              *)
(*   - W contains every batch acknowledged with sync before the crash and   *)
(*     no batch whose call began after it.                                  *)
(* The witness is proposed by the harness and CHECKED here.  After an       *)
(* `adopt` line the recovered DB is used as an ordinary DB and must follow  *)
(* KV.tla (KVTrace's events).                                               *)
(***************************************************************************)
EXTENDS KVTrace

VARIABLE batches   \* Seq of [ops, sync, ok, b, a] in issue order (index = batch id)
cvars == <<tvars, batches>>

PairsToStore(ps) == [k \in Keys |-> LET S == {i \in 1 .. Len(ps) : ps[i][1] = k} IN
                                    IF S = {} THEN Absent ELSE ps[CHOOSE i \in S : TRUE][2]]

CReset == Reset /\ batches' = <<>>

TBatch ==
  /\ Is("batch")
  /\ E.id = Len(batches) + 1
  /\ batches' = Append(batches, [ops |-> E.ops, sync |-> E.sync = 1, ok |-> E.res = "ok", b |-> E.b, a |-> E.a])
  /\ UNCHANGED kvvars

\* batches that MUST have survived a crash after `at` operations / that CAN have
Must(at)  == {i \in 1 .. Len(batches) : batches[i].ok /\ batches[i].sync /\ batches[i].a <= at}
Begun(at) == {i \in 1 .. Len(batches) : batches[i].b < at}

FoldW(W) ==
  LET F[i \in 0 .. Len(batches)] ==
        IF i = 0 THEN [k \in Keys |-> Absent]
        ELSE IF i \in W THEN ApplyOps(F[i-1], batches[i].ops) ELSE F[i-1]
  IN F[Len(batches)]

CrashSafe(e) ==
  LET W == {e.witness[i] : i \in 1 .. Len(e.witness)} IN
  /\ e.ok = 1                                   \* the DB opens again without error
  /\ W \subseteq Begun(e.at)                    \* nothing from the future
  /\ Must(e.at) \subseteq W                     \* every sync-acknowledged write survives
  /\ FoldW(W) = PairsToStore(e.store)           \* whole batches, in order, nothing invented

TRecovered ==
  /\ Is("recovered")
  /\ CrashSafe(E)
  /\ UNCHANGED <<kvvars, batches>>

\* the harness continues on a recovered DB: its contents become the contract's store
TAdopt ==
  /\ Is("adopt")
  /\ store' = PairsToStore(E.store)
  /\ snaps' = <<>> /\ its' = <<>> /\ tx' = NoTx /\ mode' = "open" /\ ro' = FALSE /\ limbo' = NoLimbo
  /\ res' = <<"adopt">>
  /\ UNCHANGED batches

CrashInit == TraceInit /\ batches = <<>>

CrashNext ==
  /\ Advance
  /\ \/ CReset
     \/ TBatch \/ TRecovered \/ TAdopt
     \/ (~Is("reset") /\ KVStep /\ UNCHANGED batches)
  /\ Mark

CrashSpec == CrashInit /\ [][CrashNext]_cvars
CrashView == <<TraceView, Len(batches)>>
=============================================================================
