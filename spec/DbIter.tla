------------------------------- MODULE DbIter -------------------------------
(* db_iter.go dbIter (First/Last/Seek/Next/Prev, next(), prev()) over a stream of
   internal entries sorted by (user key asc, sequence desc), checked against a
   cursor over the live pairs of the view (testutil.IteratorTesting semantics). *)
EXTENDS Naturals, Integers, FiniteSets, Sequences, TLC, FiniteSetsExt, SequencesExt
CONSTANTS NKeys, NSeqs
Keys == 1..NKeys
Seqs == 1..NSeqs
VARIABLES E,      \* the entry stream: sequence of [k, s, d]
          vseq,   \* the iterator's sequence number
          p,      \* underlying (merged) iterator position: -1 = SOI, Len(E) = EOI, else index-1 (0-based)
          dir, key, val, ok,   \* dbIter state; ok = last return value
          cpos    \* oracle cursor position over Live: -1 .. Len(Live)
vars == <<E, vseq, p, dir, key, val, ok, cpos>>

Before(a, b) == a.k < b.k \/ (a.k = b.k /\ a.s > b.s)
Streams == { SetToSortSeq(S, Before) : S \in
               { {[k |-> ks[1], s |-> ks[2], d |-> f[ks]] : ks \in D} :
                     D \in SUBSET (Keys \X Seqs), f \in [Keys \X Seqs -> BOOLEAN] } }
N == Len(E)
At(i) == E[i + 1]
\* live pairs of the view
LiveKeys == {k \in Keys : \E i \in 1..N : E[i].k = k /\ E[i].s <= vseq /\ ~E[i].d /\
                               \A j \in 1..N : (E[j].k = k /\ E[j].s <= vseq) => E[j].s <= E[i].s}
Live == SetToSortSeq(LiveKeys, <)
LiveVal(k) == LET c == {i \in 1..N : E[i].k = k /\ E[i].s <= vseq} IN E[CHOOSE i \in c : \A j \in c : E[j].s <= E[i].s].s

Init == /\ E \in Streams /\ vseq \in 0..NSeqs /\ p = -1 /\ dir = "SOI" /\ key = 0 /\ val = 0 /\ ok = FALSE /\ cpos = -1

\* ---- underlying iterator (assumed to be a correct cursor over E) ----
UFirst == IF N = 0 THEN <<FALSE, N>> ELSE <<TRUE, 0>>
ULast  == IF N = 0 THEN <<FALSE, -1>> ELSE <<TRUE, N - 1>>
UNext(q) == IF q = N THEN <<FALSE, N>> ELSE IF q + 1 = N THEN <<FALSE, N>> ELSE <<TRUE, q + 1>>
UPrev(q) == IF q = -1 THEN <<FALSE, -1>> ELSE IF q = N THEN ULast ELSE IF q = 0 THEN <<FALSE, -1>> ELSE <<TRUE, q - 1>>
USeek(k, s) == LET c == {i \in 0..(N-1) : ~Before(At(i), [k |-> k, s |-> s])} IN
               IF c = {} THEN <<FALSE, N>> ELSE <<TRUE, Min(c)>>
UValid(q) == q >= 0 /\ q < N

\* ---- dbIter.next(): returns [ok, p, dir, key, val] ----
RECURSIVE NextLoop(_, _, _, _)
NextLoop(q, d, ky, vl) ==
  LET e == At(q)
      vis == e.s <= vseq
      take == vis /\ ~e.d /\ (d = "SOI" \/ e.k > ky)
      d2  == IF vis /\ e.d THEN "Fwd" ELSE d
      ky2 == IF vis /\ e.d THEN e.k ELSE ky
  IN IF take THEN [ok |-> TRUE, p |-> q, dir |-> "Fwd", key |-> e.k, val |-> e.s]
     ELSE LET n == UNext(q) IN
          IF ~n[1] THEN [ok |-> FALSE, p |-> n[2], dir |-> "EOI", key |-> ky2, val |-> vl]
          ELSE NextLoop(n[2], d2, ky2, vl)

\* ---- dbIter.prev() ----
RECURSIVE PrevLoop(_, _, _, _)
PrevLoop(q, del, ky, vl) ==
  LET e == At(q)
      vis == e.s <= vseq
  IN IF vis /\ ~del /\ e.k < ky THEN [ok |-> TRUE, p |-> q, dir |-> "Bwd", key |-> ky, val |-> vl]
     ELSE LET del2 == IF vis THEN e.d ELSE del
              ky2  == IF vis /\ ~e.d THEN e.k ELSE ky
              vl2  == IF vis /\ ~e.d THEN e.s ELSE vl
              n == UPrev(q)
          IN IF ~n[1] THEN (IF del2 THEN [ok |-> FALSE, p |-> n[2], dir |-> "SOI", key |-> ky2, val |-> vl2]
                                    ELSE [ok |-> TRUE, p |-> n[2], dir |-> "Bwd", key |-> ky2, val |-> vl2])
             ELSE PrevLoop(n[2], del2, ky2, vl2)
PrevFn(q, ky, vl) ==
  IF UValid(q) THEN PrevLoop(q, TRUE, ky, vl)
  ELSE [ok |-> FALSE, p |-> q, dir |-> "SOI", key |-> ky, val |-> vl]

Apply(r) == /\ ok' = r.ok /\ p' = r.p /\ dir' = r.dir /\ key' = r.key /\ val' = r.val

\* ---- public methods ----
DoFirst == LET u == UFirst IN
           IF u[1] THEN NextLoop(u[2], "SOI", key, val)
           ELSE [ok |-> FALSE, p |-> u[2], dir |-> "EOI", key |-> key, val |-> val]
DoLast  == LET u == ULast IN
           IF u[1] THEN PrevFn(u[2], key, val)
           ELSE [ok |-> FALSE, p |-> u[2], dir |-> "SOI", key |-> key, val |-> val]
DoSeek(k) == LET u == USeek(k, vseq) IN
             IF u[1] THEN NextLoop(u[2], "SOI", key, val)
             ELSE [ok |-> FALSE, p |-> u[2], dir |-> "EOI", key |-> key, val |-> val]
DoNext ==
  IF dir = "EOI" THEN [ok |-> FALSE, p |-> p, dir |-> dir, key |-> key, val |-> val]
  ELSE LET a == UNext(p)
           b == IF a[1] /\ dir = "Bwd" THEN UNext(a[2]) ELSE a
       IN IF ~a[1] \/ ~b[1] THEN [ok |-> FALSE, p |-> b[2], dir |-> "EOI", key |-> key, val |-> val]
          ELSE NextLoop(b[2], dir, key, val)
\* Prev from dirForward: step back until an entry with a smaller user key
RECURSIVE BackToSmaller(_)
BackToSmaller(q) == LET n == UPrev(q) IN
                    IF ~n[1] THEN <<FALSE, n[2]>>
                    ELSE IF At(n[2]).k < key THEN <<TRUE, n[2]>> ELSE BackToSmaller(n[2])
DoPrev ==
  IF dir = "SOI" THEN [ok |-> FALSE, p |-> p, dir |-> dir, key |-> key, val |-> val]
  ELSE IF dir = "EOI" THEN DoLast
  ELSE IF dir = "Fwd" THEN LET b == BackToSmaller(p) IN
                           IF ~b[1] THEN [ok |-> FALSE, p |-> b[2], dir |-> "SOI", key |-> key, val |-> val]
                           ELSE PrevFn(b[2], key, val)
  ELSE PrevFn(p, key, val)

\* ---- oracle cursor (testutil.IteratorTesting) ----
LN == Len(Live)
CFirst == IF LN > 0 THEN 0 ELSE -1
CLast  == IF LN > 0 THEN LN - 1 ELSE 0
CNext  == IF cpos < LN - 1 THEN cpos + 1 ELSE LN
CPrev  == IF cpos > 0 THEN cpos - 1 ELSE -1
CSeek(k) == LET c == {i \in 1..LN : Live[i] >= k} IN IF c = {} THEN LN ELSE Min(c) - 1

MFirst == Apply(DoFirst) /\ cpos' = CFirst /\ UNCHANGED <<E, vseq>>
MLast  == Apply(DoLast)  /\ cpos' = CLast  /\ UNCHANGED <<E, vseq>>
Next0 == Apply(DoNext)  /\ cpos' = CNext  /\ UNCHANGED <<E, vseq>>
Prev0 == Apply(DoPrev)  /\ cpos' = CPrev  /\ UNCHANGED <<E, vseq>>
Seek(k) == Apply(DoSeek(k)) /\ cpos' = CSeek(k) /\ UNCHANGED <<E, vseq>>
Nxt == MFirst \/ MLast \/ Next0 \/ Prev0 \/ \E k \in Keys \cup {NKeys + 1} : Seek(k)
Spec == Init /\ [][Nxt]_vars

CValid == cpos >= 0 /\ cpos < LN
Agree == /\ ok = CValid
         /\ (dir \in {"Fwd", "Bwd"}) = CValid
         /\ CValid => (key = Live[cpos + 1] /\ val = LiveVal(key))
=============================================================================
