CONSTANTS NKeys = 2 NSeqs = 3
SPECIFICATION Spec
INVARIANT Agree
CHECK_DEADLOCK FALSE
