CONSTANTS NKeys = 3 NSeqs = 2
SPECIFICATION Spec
INVARIANT Agree
CHECK_DEADLOCK FALSE
