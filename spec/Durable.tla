------------------------------- MODULE Durable ----------------------------
(***************************************************************************)
(* Durability skeleton of goleveldb at the granularity of RECORDS: a       *)
(* journal record = one write group (id g, first sequence number s), a     *)
(* manifest record = one version edit.  Transcribes db_write.go            *)
(* (journal append, optional Sync, apply, publish), db_state.go newMem     *)
(* (Rotate), db_compaction.go memCompaction (FlushBuild, FlushCommit,      *)
(* DropFrozen), session.go commit incl. the manifest-rotation path,        *)
(* db_transaction.go (TxOpen / TxPut / TxCommit) and db.go recoverJournal  *)
(* with its arithmetic (db.seq = batchSeq + batchLen; a record is skipped  *)
(* iff batchSeq < db.seq).  Keys are irrelevant to durability and dropped. *)
(*                                                                         *)
(* CrashSafe (C04): in EVERY reachable state, for EVERY admissible crash   *)
(* image (each file keeps any prefix of its records >= its synced prefix)  *)
(* recovery yields a set of groups that contains every sync-acknowledged   *)
(* group and nothing but acknowledged or failed-maybe groups.              *)
(*                                                                         *)
(* The Fix* constants select "as the code was" (FALSE) or "repaired"       *)
(* (TRUE) for three defects this model exposed (F2 manifest rotation, F3   *)
(* transaction pre-flush, F4 sequence reuse after a failed journal Sync):  *)
(* with FALSE TLC prints the counterexamples quoted in DESIGN.md section 6.*)
(***************************************************************************)
EXTENDS Naturals, FiniteSets, Sequences, TLC, FiniteSetsExt, SequencesExt
CONSTANTS MaxG, RotateAt, MaxFiles, FixRotate, FixTxPreflush, FixSeqReuse, WithTx, WithSyncFail
VARIABLES seq, ng, mem, imm, jcur, jimm, frozenSeq, journals, tables, manifests, current,
          stJ, stS, version, nextFile, acked, maybe, flushT, phase, tx
vars == <<seq, ng, mem, imm, jcur, jimm, frozenSeq, journals, tables, manifests, current,
          stJ, stS, version, nextFile, acked, maybe, flushT, phase, tx>>
None == 0
Edit(add, j, s) == [add |-> add, j |-> j, s |-> s]
NoTx == [open |-> FALSE, seq |-> 0, grps |-> {}]
G(g, s) == [g |-> g, s |-> s]

Init == /\ seq = 0 /\ ng = 0 /\ mem = {} /\ imm = {} /\ jcur = 2 /\ jimm = None /\ frozenSeq = 0
        /\ journals = (2 :> [recs |-> <<>>, synced |-> 0])
        /\ tables = <<>>
        /\ manifests = (1 :> [recs |-> <<Edit({}, 2, 0)>>, synced |-> 1])
        /\ current = 1 /\ stJ = 2 /\ stS = 0 /\ version = {} /\ nextFile = 3
        /\ acked = {} /\ maybe = {} /\ flushT = None /\ phase = "run" /\ tx = NoTx

Write(sync) ==
  /\ phase \in {"run", "dropfrozen"} /\ ~tx.open /\ ng < MaxG
  /\ LET g == G(ng + 1, seq + 1)
         j == journals[jcur]
         nr == Append(j.recs, g)
     IN /\ journals' = [journals EXCEPT ![jcur] = [recs |-> nr, synced |-> IF sync THEN Len(nr) ELSE j.synced]]
        /\ mem' = mem \cup {g} /\ seq' = seq + 1 /\ ng' = ng + 1
        /\ acked' = acked \cup {[g |-> g.g, sync |-> sync]}
  /\ UNCHANGED <<imm, jcur, jimm, frozenSeq, tables, manifests, current, stJ, stS, version, nextFile, maybe, flushT, phase, tx>>

\* journal record flushed to the file, Sync() fails: write returns an error, nothing applied, seq not advanced (as coded)
WriteSyncFail ==
  /\ WithSyncFail /\ phase \in {"run", "dropfrozen"} /\ ~tx.open /\ ng < MaxG
  /\ LET g == G(ng + 1, seq + 1)
         j == journals[jcur]
     IN /\ journals' = [journals EXCEPT ![jcur] = [recs |-> Append(j.recs, g), synced |-> j.synced]]
        /\ maybe' = maybe \cup {g.g} /\ ng' = ng + 1
        /\ seq' = IF FixSeqReuse THEN seq + 1 ELSE seq
  /\ UNCHANGED <<mem, imm, jcur, jimm, frozenSeq, tables, manifests, current, stJ, stS, version, nextFile, acked, flushT, phase, tx>>

Rotate ==
  /\ phase = "run" /\ ~tx.open /\ imm = {} /\ jimm = None /\ mem # {} /\ nextFile < MaxFiles
  /\ journals' = journals @@ (nextFile :> [recs |-> <<>>, synced |-> 0])
  /\ jimm' = jcur /\ jcur' = nextFile /\ nextFile' = nextFile + 1
  /\ imm' = mem /\ mem' = {} /\ frozenSeq' = seq
  /\ UNCHANGED <<seq, ng, tables, manifests, current, stJ, stS, version, acked, maybe, flushT, phase, tx>>

FlushBuild ==
  /\ phase = "run" /\ imm # {} /\ flushT = None /\ nextFile < MaxFiles
  /\ tables' = tables @@ (nextFile :> imm)
  /\ flushT' = nextFile /\ nextFile' = nextFile + 1
  /\ UNCHANGED <<seq, ng, mem, imm, jcur, jimm, frozenSeq, journals, manifests, current, stJ, stS, version, acked, maybe, phase, tx>>

Commit(add, j, s) ==
  LET m == manifests[current] IN
  IF Len(m.recs) >= RotateAt
  THEN LET jj == IF FixRotate /\ j # None THEN j ELSE stJ
           ss == IF FixRotate /\ s # None THEN s ELSE stS
           nv == version \cup add
       IN /\ nextFile < MaxFiles
          /\ manifests' = [n \in (DOMAIN manifests \ {current}) \cup {nextFile} |->
                              IF n = nextFile THEN [recs |-> <<Edit(nv, jj, ss)>>, synced |-> 1] ELSE manifests[n]]
          /\ current' = nextFile /\ nextFile' = nextFile + 1
          /\ stJ' = jj /\ stS' = ss /\ version' = nv
  ELSE /\ manifests' = [manifests EXCEPT ![current] = [recs |-> Append(m.recs, Edit(add, j, s)), synced |-> Len(m.recs) + 1]]
       /\ stJ' = IF j # None THEN j ELSE stJ
       /\ stS' = IF s # None THEN s ELSE stS
       /\ version' = version \cup add
       /\ UNCHANGED <<current, nextFile>>

FlushCommit ==
  /\ phase = "run" /\ flushT # None
  /\ Commit({flushT}, jcur, frozenSeq)
  /\ flushT' = None /\ phase' = "dropfrozen"
  /\ UNCHANGED <<seq, ng, mem, imm, jcur, jimm, frozenSeq, journals, tables, acked, maybe, tx>>

DropFrozen ==
  /\ phase = "dropfrozen"
  /\ journals' = [n \in DOMAIN journals \ {jimm} |-> journals[n]]
  /\ jimm' = None /\ imm' = {} /\ phase' = "run"
  /\ UNCHANGED <<seq, ng, mem, jcur, frozenSeq, tables, manifests, current, stJ, stS, version, nextFile, acked, maybe, flushT, tx>>

\* OpenTransaction as coded: pre-flush only if the mutable buffer is non-empty (guard mem = {} after it);
\* a frozen buffer may still be in flight unless FixTxPreflush
TxOpen ==
  /\ WithTx /\ ~tx.open /\ mem = {} /\ phase \in {"run", "dropfrozen"}
  /\ (FixTxPreflush => imm = {} /\ phase = "run")
  /\ tx' = [open |-> TRUE, seq |-> seq, grps |-> {}]
  /\ UNCHANGED <<seq, ng, mem, imm, jcur, jimm, frozenSeq, journals, tables, manifests, current, stJ, stS, version, nextFile, acked, maybe, flushT, phase>>
TxPut ==
  /\ tx.open /\ ng < MaxG
  /\ tx' = [tx EXCEPT !.seq = @ + 1, !.grps = @ \cup {G(ng + 1, tx.seq + 1)}] /\ ng' = ng + 1
  /\ UNCHANGED <<seq, mem, imm, jcur, jimm, frozenSeq, journals, tables, manifests, current, stJ, stS, version, nextFile, acked, maybe, flushT, phase>>
\* Commit: table(s) written+synced, one edit with seqNum = tr.seq (no journal number), then db.seq = tr.seq
TxCommit ==
  /\ tx.open /\ tx.grps # {} /\ phase \in {"run"} /\ nextFile + 1 < MaxFiles
  /\ tables' = tables @@ (nextFile :> tx.grps)
  /\ LET nf == nextFile IN
       LET m == manifests[current] IN
       IF Len(m.recs) >= RotateAt
       THEN LET ss == IF FixRotate THEN tx.seq ELSE stS
                nv == version \cup {nf}
            IN /\ manifests' = [n \in (DOMAIN manifests \ {current}) \cup {nf + 1} |->
                                  IF n = nf + 1 THEN [recs |-> <<Edit(nv, stJ, ss)>>, synced |-> 1] ELSE manifests[n]]
               /\ current' = nf + 1 /\ nextFile' = nf + 2 /\ stS' = ss /\ version' = nv /\ UNCHANGED stJ
       ELSE /\ manifests' = [manifests EXCEPT ![current] = [recs |-> Append(m.recs, Edit({nf}, None, tx.seq)), synced |-> Len(m.recs) + 1]]
            /\ stS' = tx.seq /\ version' = version \cup {nf} /\ nextFile' = nf + 1 /\ UNCHANGED <<current, stJ>>
  /\ seq' = tx.seq
  /\ acked' = acked \cup {[g |-> x.g, sync |-> TRUE] : x \in tx.grps}
  /\ tx' = NoTx
  /\ UNCHANGED <<ng, mem, imm, jcur, jimm, frozenSeq, journals, maybe, flushT, phase>>

\* ---------- crash + recovery ----------
RECURSIVE Replay(_, _, _)
Replay(js, J, d) ==
  IF js = <<>> THEN <<{}, d>>
  ELSE LET recs == J[Head(js)]
           F[i \in 0..Len(recs)] == IF i = 0 THEN <<{}, d>>
                                    ELSE LET p == F[i-1] IN
                                         IF recs[i].s < p[2] THEN p      \* decodeBatchToMem: seq < expectSeq => skipped
                                         ELSE <<p[1] \cup {recs[i]}, recs[i].s + 1>>   \* db.seq = batchSeq + batchLen
           r == F[Len(recs)]
           rest == Replay(Tail(js), J, r[2])
       IN <<r[1] \cup rest[1], rest[2]>>
\* NOTE expectSeq = db.seq (last used); first record of a fresh journal has s = db.seq+1 >= db.seq. A record whose
\* s equals db.seq is accepted by the real code too (seq < expectSeq is the only test); after it db.seq = s.

Recovered(Jimg, mrecs) ==
  LET F[i \in 0..Len(mrecs)] ==
        IF i = 0 THEN [v |-> {}, j |-> None, s |-> 0]
        ELSE LET p == F[i-1] e == mrecs[i] IN
             [v |-> p.v \cup e.add, j |-> IF e.j # None THEN e.j ELSE p.j, s |-> IF e.s # None THEN e.s ELSE p.s]
      st == F[Len(mrecs)]
      js == SetToSortSeq({n \in DOMAIN Jimg : n >= st.j}, <)
      rp == Replay(js, Jimg, st.s)
      inTables == UNION {tables[t] : t \in st.v}
      dbseq == rp[2]
  IN {x.g : x \in {y \in inTables \cup rp[1] : y.s <= dbseq}}

SyncedAcked == {a.g : a \in {x \in acked : x.sync}}
CrashSafe ==
  \A mk \in manifests[current].synced..Len(manifests[current].recs) :
    \A img \in {f \in [DOMAIN journals -> 0..MaxG] : \A n \in DOMAIN journals : f[n] >= journals[n].synced /\ f[n] <= Len(journals[n].recs)} :
      LET Jimg == [n \in DOMAIN journals |-> SubSeq(journals[n].recs, 1, img[n])]
          rec == Recovered(Jimg, SubSeq(manifests[current].recs, 1, mk))
      IN /\ SyncedAcked \subseteq rec
         /\ rec \subseteq {a.g : a \in acked} \cup maybe

Next == \E b \in BOOLEAN : Write(b)
        \/ WriteSyncFail \/ Rotate \/ FlushBuild \/ FlushCommit \/ DropFrozen
        \/ TxOpen \/ TxPut \/ TxCommit
Spec == Init /\ [][Next]_vars
=============================================================================
