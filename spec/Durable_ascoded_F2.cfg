CONSTANTS MaxG = 5 RotateAt = 3 MaxFiles = 12 FixRotate = FALSE FixTxPreflush = TRUE FixSeqReuse = TRUE WithTx = TRUE WithSyncFail = FALSE
SPECIFICATION Spec
INVARIANT CrashSafe
CHECK_DEADLOCK FALSE
