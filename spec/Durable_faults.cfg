CONSTANTS MaxG = 5 RotateAt = 3 MaxFiles = 12 FixRotate = TRUE FixTxPreflush = TRUE FixSeqReuse = TRUE WithTx = TRUE WithSyncFail = TRUE
SPECIFICATION Spec
INVARIANT CrashSafe
CHECK_DEADLOCK FALSE
