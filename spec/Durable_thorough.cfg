CONSTANTS MaxG = 8 RotateAt = 2 MaxFiles = 18 FixRotate = TRUE FixTxPreflush = TRUE FixSeqReuse = TRUE WithTx = TRUE WithSyncFail = FALSE
SPECIFICATION Spec
INVARIANT CrashSafe
CHECK_DEADLOCK FALSE
