----------------------------- MODULE FileStore -----------------------------
(***************************************************************************)
(* storage/file_storage.go: how the file storage switches CURRENT          *)
(* (setMeta), how it reads it back (GetMeta: pending-rename files          *)
(* CURRENT.<n>, CURRENT, CURRENT.bak, skipping damaged pointers and        *)
(* pointers to missing manifests, then restoring CURRENT), and the         *)
(* session's use of it (newManifest: create, write, sync the manifest,     *)
(* SetMeta, remove the previous manifest) - as a crash model of its own.   *)
(* This is the part of C04's third mechanism ("new manifest fully written  *)
(* and synced before CURRENT is switched") that lives below the Storage    *)
(* interface; RecStor (all other checks) treats SetMeta as one atomic      *)
(* durable step, this module does not.                                     *)
(*                                                                         *)
(* File system model (deliberately adversarial, POSIX-minimal):            *)
(*  - a directory operation (link of a new file, rename, unlink) is        *)
(*    volatile until the directory is fsynced; at a crash ANY subsequence  *)
(*    of the pending operations may have reached the disk;                 *)
(*  - file data written since the last fsync of the file may be missing,   *)
(*    cut to nothing, garbage, or complete; fsync makes it complete;       *)
(*  - rename is atomic.                                                    *)
(* Checked by TLC (FileStore*.cfg): after any crash (up to MaxCrash,       *)
(* also inside the restoring GetMeta of a previous recovery) GetMeta on    *)
(* the surviving directory returns the last acknowledged manifest or the   *)
(* one being installed if it was already complete on disk - never an       *)
(* older one, never an incomplete one, never "no CURRENT".                 *)
(* Bound to the code by harness/cmd/fstorchk: (spec->code) every distinct  *)
(* post-crash directory TLC reaches is materialised and the real GetMeta   *)
(* must answer as the specification does; (code->spec) the system calls    *)
(* the real SetMeta issues (strace) are validated as a behaviour of the    *)
(* setMeta steps below.                                                    *)
(***************************************************************************)
EXTENDS Integers, Sequences, FiniteSets, TLC

CONSTANTS MaxN,       \* manifest numbers 1..MaxN
          MaxCrash,
          MaxIno,
          Variant     \* "code" | "nosyncptr" (pending file renamed without fsync) | "nosyncman" (manifest not synced before SetMeta)

Nums == 1 .. MaxN
CUR == <<"cur", 0>>
BAK == <<"bak", 0>>
P(k) == <<"p", k>>
M(k) == <<"m", k>>
Names == {CUR, BAK} \cup {P(k) : k \in Nums} \cup {M(k) : k \in Nums}
Empty == 0
Garbage == -1
Absent == -2
Inos == 1 .. MaxIno

VARIABLES
  vdir,      \* Names -> 0 | inode : the directory as the running process sees it
  ddir,      \* the directory as of the last directory fsync
  pend,      \* directory operations since then
  iv,        \* inode -> content as written (pointer files: manifest number; manifests: 1 = complete)
  idur,      \* inode -> set of contents a crash may leave
  nino,      \* next free inode
  pc, n,     \* program counter and manifest number being installed (tgt = n)
  restoring, \* the setMeta in progress is GetMeta's restore of CURRENT
  committed, \* last manifest for which SetMeta returned (0: none yet)
  crashes,
  acc,       \* answers acceptable from GetMeta after the last crash
  got,       \* what GetMeta answered (0 = no usable pointer)
  img        \* the post-crash directory contents GetMeta saw (output only: replayed on the real GetMeta)

vars == <<vdir, ddir, pend, iv, idur, nino, pc, n, restoring, committed, crashes, acc, got, img>>

Init == /\ vdir = [x \in Names |-> 0] /\ ddir = [x \in Names |-> 0] /\ pend = <<>>
        /\ iv = [i \in Inos |-> Empty] /\ idur = [i \in Inos |-> {Empty}] /\ nino = 1
        /\ pc = "idle" /\ n = 1 /\ restoring = FALSE /\ committed = 0 /\ crashes = 0
        /\ acc = {0} /\ got = 0 /\ img = [x \in Names |-> Absent]

\* open(O_CREATE|O_TRUNC) + write of content c, not yet fsynced
OpenTruncWrite(name, c) ==
  IF vdir[name] = 0
  THEN /\ nino <= MaxIno
       /\ vdir' = [vdir EXCEPT ![name] = nino]
       /\ iv' = [iv EXCEPT ![nino] = c]
       /\ idur' = [idur EXCEPT ![nino] = {Empty, Garbage, c}]
       /\ pend' = Append(pend, <<"link", name, nino>>)
       /\ nino' = nino + 1
  ELSE /\ iv' = [iv EXCEPT ![vdir[name]] = c]
       /\ idur' = [idur EXCEPT ![vdir[name]] = @ \cup {Empty, Garbage, c}]
       /\ UNCHANGED <<vdir, pend, nino>>
Fsync(name) == idur' = [idur EXCEPT ![vdir[name]] = {iv[vdir[name]]}]
SyncDir == ddir' = vdir /\ pend' = <<>>

\* ---- session.newManifest: the manifest file
Start == /\ pc = "idle" /\ n <= MaxN /\ pc' = "mwrite"
         /\ OpenTruncWrite(M(n), 1)
         /\ UNCHANGED <<ddir, n, restoring, committed, crashes, acc, got, img>>
MSync == /\ pc = "mwrite" /\ pc' = "bak1"
         /\ IF Variant = "nosyncman" THEN UNCHANGED <<idur, ddir, pend>>
            ELSE Fsync(M(n)) /\ SyncDir          \* fileWrap.Sync fsyncs the directory too for manifests
         /\ UNCHANGED <<vdir, iv, nino, n, restoring, committed, crashes, acc, got, img>>

\* ---- fileStorage.setMeta(n)
Bak1 == /\ pc = "bak1"
        /\ IF vdir[CUR] # 0 /\ iv[vdir[CUR]] = n
           THEN \* content not changed: return nil
                /\ pc' = "done" /\ UNCHANGED <<vdir, ddir, pend, iv, idur, nino>>
           ELSE IF vdir[CUR] # 0
           THEN /\ pc' = "bak2" /\ OpenTruncWrite(BAK, iv[vdir[CUR]]) /\ UNCHANGED ddir
           ELSE /\ pc' = "p1" /\ UNCHANGED <<vdir, ddir, pend, iv, idur, nino>>
        /\ UNCHANGED <<n, restoring, committed, crashes, acc, got, img>>
Bak2 == /\ pc = "bak2" /\ pc' = "p1" /\ Fsync(BAK)
        /\ UNCHANGED <<vdir, ddir, pend, iv, nino, n, restoring, committed, crashes, acc, got, img>>
P1 == /\ pc = "p1" /\ pc' = "p2" /\ OpenTruncWrite(P(n), n)
      /\ UNCHANGED <<ddir, n, restoring, committed, crashes, acc, got, img>>
P2 == /\ pc = "p2" /\ pc' = "ren"
      /\ IF Variant = "nosyncptr" THEN UNCHANGED idur ELSE Fsync(P(n))
      /\ UNCHANGED <<vdir, ddir, pend, iv, nino, n, restoring, committed, crashes, acc, got, img>>
Ren == /\ pc = "ren" /\ pc' = "dsync"
       /\ vdir' = [vdir EXCEPT ![CUR] = vdir[P(n)], ![P(n)] = 0]
       /\ pend' = Append(pend, <<"ren", P(n), CUR, vdir[P(n)]>>)
       /\ UNCHANGED <<ddir, iv, idur, nino, n, restoring, committed, crashes, acc, got, img>>
DSync == /\ pc = "dsync" /\ pc' = "done" /\ SyncDir
         /\ UNCHANGED <<vdir, iv, idur, nino, n, restoring, committed, crashes, acc, got, img>>

\* ---- after setMeta returned: GetMeta's restore removes the pending-rename files; the session removes the other manifests
Unlinks(names) == LET RECURSIVE U(_, _, _)
                      U(S, d, q) == IF S = {} THEN <<d, q>>
                                    ELSE LET x == CHOOSE y \in S : TRUE IN
                                         U(S \ {x}, [d EXCEPT ![x] = 0], IF d[x] = 0 THEN q ELSE Append(q, <<"unlink", x, 0>>))
                  IN U(names, vdir, pend)
Done == /\ pc = "done" /\ pc' = "idle"
        /\ LET gone == {M(k) : k \in Nums \ {n}} \cup (IF restoring THEN {P(k) : k \in Nums} ELSE {})
               r == Unlinks(gone)
           IN vdir' = r[1] /\ pend' = r[2]
        /\ committed' = n /\ n' = n + 1 /\ restoring' = FALSE
        /\ UNCHANGED <<ddir, iv, idur, nino, crashes, acc, got, img>>

\* ---- crash: any subsequence of the pending directory operations, any admissible content of every file
RECURSIVE Apply(_, _, _)
Apply(d, ops, keep) ==
  IF ops = <<>> THEN d
  ELSE LET o == Head(ops)
           d1 == IF ~keep[Len(keep) - Len(ops) + 1] THEN d
                 ELSE IF o[1] = "link" THEN [d EXCEPT ![o[2]] = o[3]]
                 ELSE IF o[1] = "unlink" THEN [d EXCEPT ![o[2]] = 0]
                 ELSE [x \in Names |-> IF x = o[3] THEN o[4] ELSE IF x = o[2] /\ d[x] = o[4] THEN 0 ELSE d[x]]
       IN Apply(d1, Tail(ops), keep)

Contents(d, c) == [x \in Names |-> IF d[x] = 0 THEN Absent ELSE c[d[x]]]

\* GetMeta as coded, on directory contents c
ValidPtr(c, name) == c[name] > 0 /\ c[name] <= MaxN /\ c[M(c[name])] # Absent
PendNum(c) == LET S == {k \in Nums : ValidPtr(c, P(k))} IN IF S = {} THEN 0 ELSE CHOOSE k \in S : \A j \in S : j <= k
CurNum(c)  == IF ValidPtr(c, CUR) THEN c[CUR] ELSE IF ValidPtr(c, BAK) THEN c[BAK] ELSE 0
GetMeta(c) == LET p == IF PendNum(c) = 0 THEN 0 ELSE c[P(PendNum(c))]
                  q == CurNum(c)
              IN IF p # 0 /\ (q = 0 \/ p > q) THEN p ELSE q
NeedsRestore(c) == ~ValidPtr(c, CUR) \/ GetMeta(c) # c[CUR] \/ \E k \in Nums : c[P(k)] # Absent

Complete(k) == \* manifest k is complete on disk whatever happens
  vdir[M(k)] # 0 /\ ddir[M(k)] = vdir[M(k)] /\ idur[vdir[M(k)]] = {1}

Crash ==
  /\ crashes < MaxCrash /\ pc # "dead"
  /\ \E keep \in [1 .. Len(pend) -> BOOLEAN] :
       LET d == Apply(ddir, pend, keep)
           used == {d[x] : x \in Names} \ {0}
           multi == {i \in used : Cardinality(idur[i]) > 1}
       IN \E f \in [multi -> {Garbage, Empty} \cup (1 .. MaxN)] :
            LET c == [i \in Inos |-> IF i \in multi THEN f[i] ELSE IF i \in used THEN CHOOSE x \in idur[i] : TRUE ELSE Empty] IN
            /\ \A i \in multi : f[i] \in idur[i]
            /\ vdir' = d /\ ddir' = d /\ pend' = <<>>
            /\ iv' = c /\ idur' = [i \in Inos |-> {c[i]}]
            /\ img' = Contents(d, c)
            /\ got' = GetMeta(Contents(d, c))
  /\ acc' = IF pc = "recover" THEN acc ELSE {committed} \cup (IF pc \in {"bak1", "bak2", "p1", "p2", "ren", "dsync", "done"} /\ Complete(n) THEN {n} ELSE {})
  /\ crashes' = crashes + 1 /\ pc' = "recover"
  /\ UNCHANGED <<nino, n, restoring, committed>>

\* Open after the crash: GetMeta, then (writable open) restore CURRENT with the same setMeta steps
Recover ==
  /\ pc = "recover"
  /\ IF got = 0 THEN pc' = "dead" /\ UNCHANGED <<n, restoring, committed>>
     ELSE /\ n' = got /\ UNCHANGED committed     \* nothing is acknowledged under it before Open returns (Done)
          /\ IF NeedsRestore(img) THEN pc' = "bak1" /\ restoring' = TRUE
             ELSE pc' = "done" /\ restoring' = FALSE
  /\ UNCHANGED <<vdir, ddir, pend, iv, idur, nino, crashes, acc, got, img>>

Next == Start \/ MSync \/ Bak1 \/ Bak2 \/ P1 \/ P2 \/ Ren \/ DSync \/ Done \/ Crash \/ Recover
Spec == Init /\ [][Next]_vars


\* Every image a crash may leave of (durable directory dd, pending operations pp, possible file contents id)
\* makes GetMeta answer a member of A that points to a complete manifest.
SafeFor(dd, pp, id, A) ==
  \A keep \in [1 .. Len(pp) -> BOOLEAN] :
    LET d == Apply(dd, pp, keep)
        used == {d[x] : x \in Names} \ {0}
        multi == {i \in used : Cardinality(id[i]) > 1}
    IN \A f \in [multi -> {Garbage, Empty} \cup (1 .. MaxN)] :
         (\A i \in multi : f[i] \in id[i]) =>
           LET c == [i \in Inos |-> IF i \in multi THEN f[i] ELSE IF i \in used THEN CHOOSE x \in id[i] : TRUE ELSE Empty]
               cc == Contents(d, c)
               g == GetMeta(cc)
           IN g \in A /\ (g # 0 => cc[M(g)] = 1)

\* ---- properties
GotAcceptable == pc = "recover" => got \in acc
GotComplete   == pc = "recover" /\ got # 0 => img[M(got)] = 1
\* a pointer file is renamed into place only when its data is safely on disk
RenameSynced  == pc = "ren" /\ Variant = "code" => idur[vdir[P(n)]] = {n}
NeverDead     == pc = "dead" => committed = 0
Bounded == nino <= MaxIno + 1
=============================================================================
