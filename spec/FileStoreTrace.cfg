SPECIFICATION TraceSpec
CONSTANTS
  MaxN = 6
  MaxCrash = 0
  MaxIno = 24
  Variant = "code"
POSTCONDITION Report
CHECK_DEADLOCK FALSE
