SPECIFICATION TraceSpec
CONSTANTS
  MaxN = 12
  MaxCrash = 0
  MaxIno = 48
  Variant = "code"
POSTCONDITION Report
CHECK_DEADLOCK FALSE
