--------------------------- MODULE FileStoreTrace ---------------------------
(***************************************************************************)
(* Trace specification for the file storage's CURRENT protocol (C04, the   *)
(* part below the Storage interface).  The trace is the sequence of system *)
(* calls the REAL fileStorage issued on the files CURRENT, CURRENT.bak,    *)
(* CURRENT.<n>, MANIFEST-<n> and on the directory, recorded with strace    *)
(* from an unmodified build (harness/cmd/fstorchk -mode drive), plus       *)
(* marker lines of the driver: "begin n" before SetMeta(n) (or a restoring *)
(* GetMeta that answers n), "end n" after it returned nil.                 *)
(* The events drive FileStore.tla's file-system model (volatile directory, *)
(* directory operations pending until the directory fsync, file data       *)
(* unsafe until the file's fsync).  A system call is explained only if, in *)
(* the state it leads to, EVERY crash image (any subsequence of pending    *)
(* directory operations x any admissible content) makes GetMeta - as       *)
(* transcribed in FileStore.tla and compared with the real GetMeta by the  *)
(* image replay - answer the acknowledged manifest or the complete one     *)
(* being installed.  The first call after which that fails stops the trace.*)
(***************************************************************************)
EXTENDS FileStore, Json, IOUtils

Trace == ndJsonDeserialize(IOEnv.TRACE)

VARIABLE l
trvars == <<vars, l>>
E == Trace[l]
Is(op) == E.op = op
Nm(k, num) == IF k = "cur" THEN CUR ELSE IF k = "bak" THEN BAK ELSE IF k = "p" THEN P(num) ELSE M(num)
Known(k, num) == k \in {"cur", "bak"} \/ (k \in {"p", "m"} /\ num \in Nums)

Keep == UNCHANGED <<restoring, crashes, acc, got, img>>

TBegin == Is("begin") /\ n' = E.n /\ pc' = "in" /\ Keep /\ UNCHANGED <<vdir, ddir, pend, iv, idur, nino, committed>>
TEnd   == Is("end") /\ committed' = E.n /\ pc' = "out" /\ Keep /\ UNCHANGED <<vdir, ddir, pend, iv, idur, nino, n>>

\* the directory the run starts from (a post-crash image): entries <<kind, number, content>>, all durable
TImage ==
  /\ Is("image") /\ Len(E.files) <= MaxIno
  /\ LET F == E.files
         ino(x) == IF \E i \in 1 .. Len(F) : Nm(F[i][1], F[i][2]) = x THEN CHOOSE i \in 1 .. Len(F) : Nm(F[i][1], F[i][2]) = x ELSE 0
     IN /\ vdir' = [x \in Names |-> ino(x)] /\ ddir' = [x \in Names |-> ino(x)] /\ pend' = <<>>
        /\ iv' = [i \in Inos |-> IF i <= Len(F) THEN F[i][3] ELSE Empty]
        /\ idur' = [i \in Inos |-> IF i <= Len(F) THEN {F[i][3]} ELSE {Empty}]
        /\ nino' = Len(F) + 1
  /\ committed' = E.committed /\ n' = E.committed /\ pc' = "out" /\ Keep

\* open(O_CREAT|O_TRUNC)
TOpen ==
  /\ Is("open") /\ Known(E.k, E.n)
  /\ LET x == Nm(E.k, E.n) IN
     IF vdir[x] = 0
     THEN /\ nino <= MaxIno
          /\ vdir' = [vdir EXCEPT ![x] = nino] /\ iv' = [iv EXCEPT ![nino] = Empty]
          /\ idur' = [idur EXCEPT ![nino] = {Empty}] /\ pend' = Append(pend, <<"link", x, nino>>) /\ nino' = nino + 1
     ELSE /\ iv' = [iv EXCEPT ![vdir[x]] = Empty] /\ idur' = [idur EXCEPT ![vdir[x]] = @ \cup {Empty}]
          /\ UNCHANGED <<vdir, pend, nino>>
  /\ Keep /\ UNCHANGED <<ddir, pc, n, committed>>
\* write: E.c is the content the file has afterwards (pointer: manifest number; manifest: 1; anything else: Garbage)
TWrite ==
  /\ Is("write") /\ Known(E.k, E.n) /\ vdir[Nm(E.k, E.n)] # 0
  /\ LET i == vdir[Nm(E.k, E.n)] IN
       /\ iv' = [iv EXCEPT ![i] = E.c] /\ idur' = [idur EXCEPT ![i] = @ \cup {Garbage, E.c}]
  /\ Keep /\ UNCHANGED <<vdir, ddir, pend, nino, pc, n, committed>>
TFsync ==
  /\ Is("fsync")
  /\ IF E.k = "dir" THEN SyncDir /\ UNCHANGED idur
     ELSE /\ Known(E.k, E.n) /\ vdir[Nm(E.k, E.n)] # 0 /\ Fsync(Nm(E.k, E.n)) /\ UNCHANGED <<ddir, pend>>
  /\ Keep /\ UNCHANGED <<vdir, iv, nino, pc, n, committed>>
TRename ==
  /\ Is("rename") /\ Known(E.k, E.n) /\ Known(E.k2, E.n2)
  /\ LET a == Nm(E.k, E.n)  b == Nm(E.k2, E.n2) IN
       /\ vdir[a] # 0
       /\ vdir' = [vdir EXCEPT ![b] = vdir[a], ![a] = 0]
       /\ pend' = Append(pend, <<"ren", a, b, vdir[a]>>)
  /\ Keep /\ UNCHANGED <<ddir, iv, idur, nino, pc, n, committed>>
TUnlink ==
  /\ Is("unlink") /\ Known(E.k, E.n)
  /\ LET a == Nm(E.k, E.n) IN
       /\ vdir[a] # 0
       /\ vdir' = [vdir EXCEPT ![a] = 0] /\ pend' = Append(pend, <<"unlink", a, 0>>)
  /\ Keep /\ UNCHANGED <<ddir, iv, idur, nino, pc, n, committed>>

AccNext == {committed'} \cup (IF pc' = "in" /\ vdir'[M(n')] # 0 /\ ddir'[M(n')] = vdir'[M(n')] /\ idur'[vdir'[M(n')]] = {1} THEN {n'} ELSE {})

TraceInit == Init /\ l = 1 /\ TLCSet(1, 1)
TraceNext ==
  /\ l <= Len(Trace)
  /\ l' = l + 1
  /\ TImage \/ TBegin \/ TEnd \/ TOpen \/ TWrite \/ TFsync \/ TRename \/ TUnlink
  /\ Is("image") \/ SafeFor(ddir', pend', idur', AccNext)   \* the image itself is judged by the GetMeta replay
  /\ TLCSet(1, IF TLCGet(1) < l' THEN l' ELSE TLCGet(1))
TraceSpec == TraceInit /\ [][TraceNext]_trvars

Report ==
  /\ PrintT(<<"VERIF-HWM", TLCGet(1), Len(Trace)>>)
  /\ IF TLCGet(1) <= Len(Trace) THEN PrintT(<<"VERIF-STUCK", Trace[TLCGet(1)]>>) ELSE TRUE
=============================================================================
