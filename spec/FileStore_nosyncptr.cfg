SPECIFICATION Spec
CONSTANTS
  MaxN = 3
  MaxCrash = 2
  MaxIno = 8
  Variant = "nosyncptr"
INVARIANTS GotAcceptable GotComplete RenameSynced NeverDead
CHECK_DEADLOCK FALSE
