SPECIFICATION Spec
CONSTANTS
  MaxN = 4
  MaxCrash = 3
  MaxIno = 12
  Variant = "code"
INVARIANTS GotAcceptable GotComplete RenameSynced NeverDead
CHECK_DEADLOCK FALSE
