------------------------------ MODULE IKey ------------------------------
(***************************************************************************)
(* Internal keys, their order, the lookup probe and index-key shortening   *)
(* (property C15; leveldb/key.go, leveldb/comparer.go,                     *)
(* leveldb/comparer/bytes_comparer.go).                                    *)
(*                                                                         *)
(* Abstraction.  A user key is its POSITION under the user comparer on a   *)
(* doubled scale: the keys of the universe under examination sit on the    *)
(* even positions 2, 4, ...; a key that is not in the universe (a          *)
(* shortened key made up by a Separator) sits on the odd position between  *)
(* its neighbours.  An internal key is [u, s, t]: user position, sequence  *)
(* CLASS (a small integer; mx is the class of the largest sequence number  *)
(* 2^56-1) and kind t (0 delete, 1 value; the seek kind is 1).             *)
(*                                                                         *)
(* Order as coded in iComparer.Compare: user order ascending, then the     *)
(* packed number s*256+t DEscending (newest first).                        *)
(*                                                                         *)
(* Shortening as coded in iComparer.Separator/Successor: the user comparer *)
(* answers nil or a key x; x is accepted only if it is shorter than the    *)
(* user key and strictly greater, then the maximal number is appended;     *)
(* otherwise nil is returned and the table writer keeps the key.           *)
(*                                                                         *)
(* An API call is one action; its reply is left in `res` (output only).    *)
(* The laws are predicates over (arguments, reply), so the same predicate  *)
(* is an invariant of this module (reply computed by the spec) and the     *)
(* acceptance condition of IKeyTrace (reply recorded from the real code).  *)
(***************************************************************************)
EXTENDS Integers, Sequences, FiniteSets

CONSTANTS NU,      \* model checking: number of user keys of the universe
          NS,      \* model checking: sequence classes 0 .. NS-1 (NS-1 = 2^56-1)
          Guard    \* TRUE: acceptance rule as coded.  FALSE: rule without its guard
                   \* (only used to show that the laws are not vacuous)

VARIABLES univ,    \* the universe under examination: a sequence of internal keys
          mx,      \* class of the maximal sequence number in this universe
          call,    \* the last call (operation and arguments)
          res      \* its reply (output only)
ikvars == <<univ, mx, call, res>>

SeekKind == 1
Idx == 1 .. Len(univ)

(* TLC unrolls a quantifier that stands as a conjunct of an action onto its *)
(* (recursive) action stack, one frame per element; rows have hundreds of   *)
(* elements.  Holds(b) makes TLC evaluate b in one piece.                   *)
Holds(b) == b = TRUE

--------------------------------------------------------------------------
(* The order *)

Num(k) == k.s * 256 + k.t

Sign(a, b) ==
  IF a.u < b.u THEN -1 ELSE IF a.u > b.u THEN 1
  ELSE IF Num(a) > Num(b) THEN -1 ELSE IF Num(a) < Num(b) THEN 1 ELSE 0

Less(a, b) == Sign(a, b) = -1
Leq(a, b)  == Sign(a, b) <= 0

(* The probe for "user key k as of sequence s" (db.get, iterator seek). *)
Probe(k, s) == [u |-> k, s |-> s, t |-> SeekKind]

--------------------------------------------------------------------------
(* Shortening.  A user-level answer is [p, sh]: p = 0 is nil, otherwise p  *)
(* is the position of the returned key and sh tells whether it is shorter  *)
(* (in bytes) than the user key it replaces.  A reply of iComparer is an   *)
(* internal key, or Keep (nil: the caller keeps its key).                  *)

NilAns == [p |-> 0, sh |-> FALSE]
Keep   == [u |-> 0, s |-> 0, t |-> 0]

(* The user comparer's own law (comparer.Comparer contract): a <= x < b.   *)
(* With equal user keys (two versions of one key at a block boundary) no   *)
(* such x exists; the contract then asks for nil, and an unshortened copy  *)
(* of a is tolerated.                                                      *)
UserSepLaw(pa, pb, px)  == px = 0 \/ (pa <= px /\ (px < pb \/ px = pa))
UserSuccLaw(pb, px)     == px = 0 \/ px >= pb

Accept(uk, ans) == ans.p # 0 /\ (Guard => (ans.sh /\ ans.p > uk))
Shortened(ans)  == [u |-> ans.p, s |-> mx, t |-> SeekKind]
ISep(a, ans)    == IF Accept(a.u, ans) THEN Shortened(ans) ELSE Keep
ISucc(b, ans)   == IF Accept(b.u, ans) THEN Shortened(ans) ELSE Keep

Eff(k, r) == IF r.u = 0 THEN k ELSE r          \* what the index will hold

SepOK(a, b, r) == Leq(a, Eff(a, r)) /\ Less(Eff(a, r), b)
SuccOK(b, r)   == Leq(b, Eff(b, r))

--------------------------------------------------------------------------
(* Actions: one per call of the comparer.  Rows: one call per element.     *)

SetUniverse(keys, m) ==
  /\ univ' = keys /\ mx' = m
  /\ call' = [op |-> "universe"] /\ res' = <<>>

CompareRow(i) ==                          \* Compare(univ[i], univ[j]) for every j
  /\ i \in Idx
  /\ call' = [op |-> "cmp", a |-> i]
  /\ res' = [j \in Idx |-> Sign(univ[i], univ[j])]
  /\ UNCHANGED <<univ, mx>>

ProbeRow(k, s) ==                         \* Compare(probe(k, s), univ[j]) for every j
  /\ call' = [op |-> "probe", k |-> k, s |-> s]
  /\ res' = [j \in Idx |-> Sign(Probe(k, s), univ[j])]
  /\ UNCHANGED <<univ, mx>>

TripleRow(is, js, ks) ==                  \* three Compare calls per sampled triple
  /\ call' = [op |-> "tri"]
  /\ res' = [x \in 1 .. Len(is) |-> << Sign(univ[is[x]], univ[js[x]]),
                                       Sign(univ[js[x]], univ[ks[x]]),
                                       Sign(univ[is[x]], univ[ks[x]]) >>]
  /\ UNCHANGED <<univ, mx>>

SeparatorRow(i, js, answers) ==           \* Separator(univ[i], univ[js[x]]), user comparer answering answers[x]
  /\ i \in Idx
  /\ Holds(\A x \in 1 .. Len(js) :
             /\ js[x] \in Idx /\ Less(univ[i], univ[js[x]])
             /\ UserSepLaw(univ[i].u, univ[js[x]].u, answers[x].p))
  /\ call' = [op |-> "sep", a |-> i, b |-> js, ans |-> answers]
  /\ res' = [x \in 1 .. Len(js) |-> ISep(univ[i], answers[x])]
  /\ UNCHANGED <<univ, mx>>

SuccessorRow(js, answers) ==              \* Successor(univ[js[x]])
  /\ Holds(\A x \in 1 .. Len(js) : js[x] \in Idx /\ UserSuccLaw(univ[js[x]].u, answers[x].p))
  /\ call' = [op |-> "succ", b |-> js, ans |-> answers]
  /\ res' = [x \in 1 .. Len(js) |-> ISucc(univ[js[x]], answers[x])]
  /\ UNCHANGED <<univ, mx>>

--------------------------------------------------------------------------
(* Laws over (arguments, reply). *)

(* sg[j] = sign(Compare(univ[i], univ[j])): row i of a strict total order  *)
(* that is user order ascending and, within a user key, newest first.      *)
OrderRowOK(i, sg) ==
  /\ sg[i] = 0                                                      \* irreflexive
  /\ \A j \in Idx :
       /\ sg[j] \in {-1, 0, 1}
       /\ (sg[j] = 0) <=> (univ[j] = univ[i])                       \* total on distinct keys
       /\ univ[i].u < univ[j].u => sg[j] = -1                       \* user order first
       /\ univ[i].u > univ[j].u => sg[j] = 1
       /\ (univ[i].u = univ[j].u /\ Num(univ[i]) > Num(univ[j])) => sg[j] = -1   \* newest first

TripleOK(t) ==                            \* <<sign(a,b), sign(b,c), sign(a,c)>>
  /\ (t[1] <= 0 /\ t[2] <= 0) => t[3] <= 0
  /\ (t[1] <= 0 /\ t[2] <= 0 /\ (t[1] < 0 \/ t[2] < 0)) => t[3] < 0
  /\ (t[1] >= 0 /\ t[2] >= 0) => t[3] >= 0
  /\ (t[1] >= 0 /\ t[2] >= 0 /\ (t[1] > 0 \/ t[2] > 0)) => t[3] > 0

(* sg[j] = sign(Compare(probe(k, s), univ[j])).  Entries of k newer than s *)
(* sort before the probe, entries of k not newer than s at or after it,    *)
(* other user keys on their side; hence the first entry at or after the    *)
(* probe is the newest entry of k not newer than s (if any), and no entry  *)
(* lies strictly between the probe and it.                                 *)
Visible(k, s)   == {j \in Idx : univ[j].u = k /\ univ[j].s <= s}
ProbePlaced(k, s, sg) ==
  /\ \A j \in Idx :
       /\ univ[j].u < k => sg[j] = 1
       /\ univ[j].u > k => sg[j] = -1
       /\ (univ[j].u = k /\ univ[j].s > s) => sg[j] = 1
       /\ (univ[j].u = k /\ univ[j].s <= s) => sg[j] <= 0
       /\ (sg[j] = 0) <=> (univ[j] = Probe(k, s))
  /\ \A n \in Visible(k, s) :
       (\A j \in Visible(k, s) : Leq(univ[n], univ[j]))              \* n is the newest visible entry
         => ~ \E j \in Idx : sg[j] = -1 /\ Less(univ[j], univ[n])   \* nothing strictly between

--------------------------------------------------------------------------
(* Model checking: the enumerated universe NU user keys x NS classes x two *)
(* kinds, already in ascending internal order.  One state per call.        *)

MCUniverse ==
  [x \in 1 .. (NU * NS * 2) |->
     [u |-> 2 * (((x - 1) \div (2 * NS)) + 1),
      s |-> (NS - 1) - (((x - 1) % (2 * NS)) \div 2),
      t |-> 1 - ((x - 1) % 2)]]

MCInit == univ = MCUniverse /\ mx = NS - 1 /\ call = [op |-> "idle"] /\ res = <<>>

Answers == {NilAns} \cup {[p |-> p, sh |-> sh] : p \in 1 .. (2 * NU + 1), sh \in BOOLEAN}

MCNext ==
  \/ /\ call.op = "idle"
     /\ \E i \in Idx : call' = [op |-> "pick", a |-> i] /\ UNCHANGED <<univ, mx, res>>
  \/ /\ call.op = "pick"
     /\ LET i == call.a IN
        \/ CompareRow(i)
        \/ \E d \in {-1, 0, 1} : ProbeRow(univ[i].u + d, univ[i].s)      \* present and absent user keys
        \/ \E j \in Idx, ans \in Answers : SeparatorRow(i, <<j>>, <<ans>>)
        \/ \E ans \in Answers : SuccessorRow(<<i>>, <<ans>>)

MCSpec == MCInit /\ [][MCNext]_ikvars
MCView == <<univ, mx, call>>              \* `res` is output only

TypeOK ==
  /\ \A j \in Idx : univ[j].u \in 1 .. (2 * NU + 1) /\ univ[j].s \in 0 .. mx /\ univ[j].t \in {0, 1}
  /\ call.op \in {"idle", "pick", "cmp", "probe", "sep", "succ"}

(* Strict total order: irreflexive, total, antisymmetric, transitive.      *)
OrderLaws ==
  call.op = "cmp" =>
    LET i == call.a IN
    /\ OrderRowOK(i, res)
    /\ \A j \in Idx :
         /\ res[j] = - Sign(univ[j], univ[i])
         /\ \A k \in Idx : TripleOK(<<res[j], Sign(univ[j], univ[k]), res[k]>>)

ProbePlacement == call.op = "probe" => ProbePlaced(call.k, call.s, res)

SeparatorLaw == call.op = "sep" => \A x \in DOMAIN res : SepOK(univ[call.a], univ[call.b[x]], res[x])
SuccessorLaw == call.op = "succ" => \A x \in DOMAIN res : SuccOK(univ[call.b[x]], res[x])

(* What a <= sep < b buys: with a the last key of a block, b the first of  *)
(* the next and sep the index key of a's block, a lookup that seeks the    *)
(* index (first index key >= probe) and falls through to the next block    *)
(* when the chosen block has nothing at or after the probe never skips     *)
(* the sought entry.                                                       *)
IndexRouting ==
  call.op = "sep" =>
    \A x \in DOMAIN res :
      LET a == univ[call.a]  b == univ[call.b[x]]  e == Eff(a, res[x]) IN
      \A p \in Idx :
        /\ Less(e, univ[p]) => Less(a, univ[p])       \* routed past a's block: nothing in it is >= probe
        /\ Leq(univ[p], e) => Less(univ[p], b)        \* routed into a's block: b is still ahead
=============================================================================
