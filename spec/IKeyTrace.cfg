SPECIFICATION TraceSpec
CONSTANTS
  NU = 1
  NS = 1
  Guard = TRUE
VIEW TraceView
POSTCONDITION Report
CHECK_DEADLOCK FALSE
