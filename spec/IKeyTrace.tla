---------------------------- MODULE IKeyTrace ----------------------------
(***************************************************************************)
(* Trace specification for C15: every answer the REAL internal comparer    *)
(* (leveldb.VerifIComparer over a user comparer) gave on a whole universe  *)
(* of internal keys, recorded by harness/cmd/ikeychk, must be a step of    *)
(* IKey.tla whose reply obeys IKey's laws.                                 *)
(*                                                                         *)
(* A `univ` line re-initialises the state (many universes per file).       *)
(* Inequalities are judged by the spec's order on the abstract keys, whose *)
(* user positions come from the harness's REFERENCE user order, never from *)
(* the implementation's own Compare; the implementation's signs are        *)
(* recorded next to them and must agree.                                   *)
(*                                                                         *)
(* A line that contradicts a law stops the trace there.  A reply that is   *)
(* lawful but differs from the coded acceptance rule (ISep/ISucc) is only  *)
(* counted (register 2, "VERIF-DRIFT"): it is no alarm.                    *)
(***************************************************************************)
EXTENDS IKey, Json, IOUtils, TLC

Trace == ndJsonDeserialize(IOEnv.TRACE)

VARIABLE l
tvars == <<ikvars, l>>

E == Trace[l]
Is(name) == E.ev = name

MkKey(t) == [u |-> t[1], s |-> t[2], t |-> t[3]]
Sgn(x) == IF x < 0 THEN -1 ELSE IF x > 0 THEN 1 ELSE 0
Rng(v) == 1 .. Len(v)

AnsOf(up, ush) == [x \in Rng(up) |-> [p |-> up[x], sh |-> ush[x] = 1]]
Reply(x) == [u |-> E.rp[x], s |-> E.rs[x], t |-> E.rt[x]]
ValidReply(r) == r.u = 0 \/ (r.u > 0 /\ r.t \in {0, 1} /\ r.s \in 0 .. mx)

Drift(n) == TLCSet(2, TLCGet(2) + n)

TUniv ==
  /\ Is("univ")
  /\ SetUniverse([j \in Rng(E.keys) |-> MkKey(E.keys[j])], E.mx)
  /\ Holds(\A j \in Rng(E.rt) : E.rt[j] = 1)          \* make/parse round trip of the encoding

TCmp ==
  /\ Is("cmp")
  /\ CompareRow(E.a)
  /\ res' = E.sg                                       \* the real signs are the spec's order
  /\ Holds(OrderRowOK(E.a, E.sg))

TTri ==
  /\ Is("tri")
  /\ TripleRow(E.i, E.j, E.k)
  /\ Holds(\A x \in Rng(E.i) :
             /\ res'[x] = <<E.ab[x], E.bc[x], E.ac[x]>>
             /\ TripleOK(<<E.ab[x], E.bc[x], E.ac[x]>>))

TProbe ==
  /\ Is("probe")
  /\ ProbeRow(E.k, E.s)
  /\ res' = E.sg
  /\ Holds(ProbePlaced(E.k, E.s, E.sg))

(* The built-in comparer's own answers (user level): a <= x < b, x >= b,   *)
(* judged on reference positions; its Compare must agree with them.        *)
TUSep ==
  /\ Is("usep")
  /\ Holds(\A x \in Rng(E.b) :
             /\ E.a < E.b[x]
             /\ UserSepLaw(E.a, E.b[x], E.x[x])
             /\ E.x[x] # 0 => (E.ca[x] = Sgn(E.a - E.x[x]) /\ E.cb[x] = Sgn(E.x[x] - E.b[x])))
  /\ UNCHANGED ikvars

TUSucc ==
  /\ Is("usucc")
  /\ Holds(\A x \in Rng(E.b) :
             /\ UserSuccLaw(E.b[x], E.x[x])
             /\ E.x[x] # 0 => E.cb[x] = Sgn(E.x[x] - E.b[x]))
  /\ UNCHANGED ikvars

TSep ==
  /\ Is("sep")
  /\ SeparatorRow(E.a, E.b, AnsOf(E.up, E.ush))
  /\ E.im = 1                                          \* a and b were not modified
  /\ Holds(\A x \in Rng(E.b) :
             LET a == univ[E.a]  b == univ[E.b[x]]  r == Reply(x) IN
             /\ ValidReply(r)
             /\ SepOK(a, b, r)                         \* a <= separator < b
             /\ r.u # 0 => (E.ca[x] = Sign(a, r) /\ E.cb[x] = Sign(r, b)))
  /\ Drift(Cardinality({x \in Rng(E.b) : res'[x] # Reply(x)}))

TSucc ==
  /\ Is("succ")
  /\ SuccessorRow(E.b, AnsOf(E.up, E.ush))
  /\ E.im = 1
  /\ Holds(\A x \in Rng(E.b) :
             LET b == univ[E.b[x]]  r == Reply(x) IN
             /\ ValidReply(r)
             /\ SuccOK(b, r)                           \* successor >= b
             /\ r.u # 0 => E.cb[x] = Sign(r, b))
  /\ Drift(Cardinality({x \in Rng(E.b) : res'[x] # Reply(x)}))

TNote == Is("note") /\ UNCHANGED ikvars

TraceInit ==
  /\ univ = <<>> /\ mx = 0 /\ call = [op |-> "idle"] /\ res = <<>>
  /\ l = 1 /\ TLCSet(1, 1) /\ TLCSet(2, 0)

TraceNext ==
  /\ l <= Len(Trace)
  /\ l' = l + 1
  /\ \/ TUniv \/ TCmp \/ TTri \/ TProbe \/ TUSep \/ TUSucc \/ TSep \/ TSucc \/ TNote
  /\ TLCSet(1, IF TLCGet(1) < l' THEN l' ELSE TLCGet(1))

TraceSpec == TraceInit /\ [][TraceNext]_tvars

\* The trace is deterministic: the line number identifies the state.
TraceView == <<l>>

Report ==
  /\ PrintT(<<"VERIF-HWM", TLCGet(1), Len(Trace)>>)
  /\ PrintT(<<"VERIF-DRIFT", TLCGet(2)>>)
  /\ IF TLCGet(1) <= Len(Trace) THEN PrintT(<<"VERIF-STUCK", Trace[TLCGet(1)]>>) ELSE TRUE
=============================================================================
