SPECIFICATION MCSpec
CONSTANTS
  NU = 3
  NS = 3
  Guard = FALSE
VIEW MCView
INVARIANTS TypeOK OrderLaws ProbePlacement SeparatorLaw SuccessorLaw
CHECK_DEADLOCK FALSE
