SPECIFICATION MCSpec
CONSTANTS
  NU = 16
  NS = 3
  Guard = TRUE
VIEW MCView
INVARIANTS TypeOK OrderLaws ProbePlacement SeparatorLaw SuccessorLaw IndexRouting
CHECK_DEADLOCK FALSE
