------------------------------ MODULE Indexed ------------------------------
(***************************************************************************)
(* iterator/indexed_iter.go: the two-level iterator (an index iterator     *)
(* whose entries open data iterators: table index -> data blocks, and a    *)
(* level's file list -> tables), transcribed method by method, with the    *)
(* recursion of Next/Prev over empty or unreadable data iterators.         *)
(*                                                                         *)
(* Blocks 1..NB partition the (even) keys 2,4,..,2*NKeys monotonically; a  *)
(* block may be empty (a table sliced to nothing by a range) and may be    *)
(* "bad" (its data iterator fails with a corruption error).  sep[b] is the *)
(* index key of block b: at least every key in b, below every key after.   *)
(* Checked by TLC for every layout: without an error, what the iterator    *)
(* exposes is the cursor over the keys of the good blocks (non-strict mode *)
(* steps over bad blocks; strict mode stops with the error, and stays      *)
(* stopped).  Part of C02; Indexed*.cfg; replayed edge by edge on the      *)
(* real NewIndexedIterator by harness/cmd/iterchk.                         *)
(***************************************************************************)
EXTENDS Integers, FiniteSets, Sequences, TLC

CONSTANTS NKeys, NB, AllowBad
Keys   == {2 * i : i \in 1 .. NKeys}
Blocks == 1 .. NB
Top    == 2 * NKeys + 1            \* seek targets and separators range over 0..Top
SOI == 0                           \* data cursor: SOI | key | EOI ; index cursor: 0 | block | NB+1
EOI == Top + 1
ISOI == 0
IEOI == NB + 1

VARIABLES
  blk,     \* Keys -> Blocks, nondecreasing
  sep,     \* Blocks -> 0..Top, strictly increasing, consistent with blk
  bad,     \* set of unreadable blocks
  strict,
  ip,      \* index cursor
  has,     \* i.data # nil
  dp,      \* data cursor (in block ip)
  err,     \* i.err # nil
  ok,      \* last return value
  last,    \* <<method, argument>> of the last call (output only; used to replay the graph on the code)
  opos     \* oracle

vars == <<blk, sep, bad, strict, ip, has, dp, err, ok, last, opos>>

MinS(S) == CHOOSE a \in S : \A b \in S : a <= b
MaxS(S) == CHOOSE a \in S : \A b \in S : a >= b
KeysIn(b) == IF b \in bad THEN {} ELSE {k \in Keys : blk[k] = b}
Good == UNION {KeysIn(b) : b \in Blocks}
Valid(p) == p # SOI /\ p # EOI

\* data cursor over block b
DFirst(b)   == IF KeysIn(b) = {} THEN EOI ELSE MinS(KeysIn(b))
DLast(b)    == IF KeysIn(b) = {} THEN SOI ELSE MaxS(KeysIn(b))
DSeek(b, k) == LET S == {a \in KeysIn(b) : a >= k} IN IF S = {} THEN EOI ELSE MinS(S)
DNext(b, p) == IF p = EOI THEN EOI ELSE LET S == {a \in KeysIn(b) : a > p} IN IF S = {} THEN EOI ELSE MinS(S)
DPrev(b, p) == IF p = SOI THEN SOI ELSE LET S == {a \in KeysIn(b) : a < p} IN IF S = {} THEN SOI ELSE MaxS(S)
\* index cursor
ISeek(k) == LET S == {b \in Blocks : sep[b] >= k} IN IF S = {} THEN IEOI ELSE MinS(S)
INext(p) == IF p = IEOI THEN IEOI ELSE p + 1
IPrev(p) == IF p = ISOI THEN ISOI ELSE p - 1
IValid(p) == p \in Blocks
\* oracle
OFirst    == IF Good = {} THEN EOI ELSE MinS(Good)
OLast     == IF Good = {} THEN SOI ELSE MaxS(Good)
OSeek(k)  == LET S == {a \in Good : a >= k} IN IF S = {} THEN EOI ELSE MinS(S)
ONext(p)  == IF p = EOI THEN EOI ELSE LET S == {a \in Good : a > p} IN IF S = {} THEN EOI ELSE MinS(S)
OPrev(p)  == IF p = SOI THEN SOI ELSE LET S == {a \in Good : a < p} IN IF S = {} THEN SOI ELSE MaxS(S)

Layout(b, s) ==
  /\ \A k1, k2 \in Keys : k1 < k2 => b[k1] <= b[k2]
  /\ \A x, y \in Blocks : x < y => s[x] < s[y]
  /\ \A k \in Keys : s[b[k]] >= k /\ (b[k] > 1 => s[b[k] - 1] < k)

Init == /\ blk \in [Keys -> Blocks] /\ sep \in [Blocks -> 0 .. Top] /\ Layout(blk, sep)
        /\ bad \in (IF AllowBad THEN {B \in SUBSET Blocks : Cardinality(B) <= 1} ELSE {{}})
        /\ strict \in (IF AllowBad THEN BOOLEAN ELSE {FALSE})
        /\ ip = ISOI /\ has = FALSE /\ dp = SOI /\ err = FALSE /\ ok = FALSE
        /\ last = <<"new", 0>> /\ opos = SOI

R(i, h, d, e, o) == [ip |-> i, has |-> h, dp |-> d, err |-> e, ok |-> o]
\* dataErr(): a failed data call on a bad block is an error; it stops the iterator only in strict mode
Stops(b) == b \in bad /\ strict

\* Next(): the switch, with its fallthrough and its recursion
RECURSIVE NextLoop(_, _, _)
NextLoop(i, h, d) ==
  IF h /\ Valid(DNext(i, d)) THEN R(i, TRUE, DNext(i, d), FALSE, TRUE)
  ELSE IF h /\ Stops(i) THEN R(i, TRUE, DNext(i, d), TRUE, FALSE)
  ELSE \* data = nil (cleared, or was nil)
       IF ~IValid(INext(i)) THEN R(INext(i), FALSE, SOI, FALSE, FALSE)
       ELSE NextLoop(INext(i), TRUE, SOI)

RECURSIVE PrevLoop(_, _, _)
PrevLoop(i, h, d) ==
  IF h /\ Valid(DPrev(i, d)) THEN R(i, TRUE, DPrev(i, d), FALSE, TRUE)
  ELSE IF h /\ Stops(i) THEN R(i, TRUE, DPrev(i, d), TRUE, FALSE)
  ELSE IF ~IValid(IPrev(i)) THEN R(IPrev(i), FALSE, SOI, FALSE, FALSE)
       ELSE LET j == IPrev(i) IN
            IF Valid(DLast(j)) THEN R(j, TRUE, DLast(j), FALSE, TRUE)
            ELSE IF Stops(j) THEN R(j, TRUE, DLast(j), TRUE, FALSE)
            ELSE PrevLoop(j, FALSE, SOI)

Set(r) == /\ ip' = r.ip /\ has' = r.has /\ dp' = r.dp /\ err' = r.err /\ ok' = r.ok
Halted == ok' = FALSE /\ UNCHANGED <<ip, has, dp, err>>

First == /\ last' = <<"First", 0>> /\ opos' = OFirst
         /\ IF err THEN Halted
            ELSE IF NB = 0 THEN Set(R(ISOI, FALSE, SOI, FALSE, FALSE))
            ELSE Set(NextLoop(1, TRUE, SOI))

Last == /\ last' = <<"Last", 0>> /\ opos' = OLast
        /\ IF err THEN Halted
           ELSE IF NB = 0 THEN Set(R(ISOI, FALSE, SOI, FALSE, FALSE))
           ELSE IF Valid(DLast(NB)) THEN Set(R(NB, TRUE, DLast(NB), FALSE, TRUE))
           ELSE IF Stops(NB) THEN Set(R(NB, TRUE, DLast(NB), TRUE, FALSE))
           ELSE Set(PrevLoop(NB, FALSE, SOI))

Seek(k) == /\ last' = <<"Seek", k>> /\ opos' = OSeek(k)
           /\ IF err THEN Halted
              ELSE LET j == ISeek(k) IN
                   IF ~IValid(j) THEN Set(R(j, FALSE, SOI, FALSE, FALSE))
                   ELSE IF Valid(DSeek(j, k)) THEN Set(R(j, TRUE, DSeek(j, k), FALSE, TRUE))
                   ELSE IF Stops(j) THEN Set(R(j, TRUE, DSeek(j, k), TRUE, FALSE))
                   ELSE Set(NextLoop(j, FALSE, SOI))

Next == /\ last' = <<"Next", 0>> /\ opos' = (IF opos = SOI THEN OFirst ELSE ONext(opos))
        /\ IF err THEN Halted ELSE Set(NextLoop(ip, has, dp))

Prev == /\ last' = <<"Prev", 0>> /\ opos' = (IF opos = EOI THEN OLast ELSE OPrev(opos))
        /\ IF err THEN Halted ELSE Set(PrevLoop(ip, has, dp))

Step == /\ (First \/ Last \/ Next \/ Prev \/ \E k \in 0 .. Top : Seek(k))
        /\ UNCHANGED <<blk, sep, bad, strict>>
Spec == Init /\ [][Step]_vars

IsValid == has /\ Valid(dp)
Exposed == IF IsValid THEN dp ELSE IF ip = ISOI THEN SOI ELSE EOI
Agree == ~err => /\ Exposed = opos
                 /\ ok = Valid(opos)
                 /\ IsValid \/ ip \in {ISOI, IEOI}
\* only strict mode with an unreadable block ever stops the iterator
ErrOnlyStrict == err => strict /\ bad # {}
ErrSticky == [][err => err' /\ ~ok']_vars
=============================================================================
