SPECIFICATION Spec
CONSTANTS
  NKeys = 3
  NB = 3
  AllowBad = TRUE
INVARIANTS Agree ErrOnlyStrict
PROPERTIES ErrSticky
CHECK_DEADLOCK FALSE
