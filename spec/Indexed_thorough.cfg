SPECIFICATION Spec
CONSTANTS
  NKeys = 4
  NB = 4
  AllowBad = TRUE
INVARIANTS Agree ErrOnlyStrict
PROPERTIES ErrSticky
CHECK_DEADLOCK FALSE
