------------------------------ MODULE Journal ------------------------------
(***************************************************************************)
(* The framing of leveldb/journal/journal.go on LENGTHS only (no bytes).    *)
(*                                                                         *)
(* Writer: the fields of journal.Writer (i, j, written, blockNumber, first, *)
(* pending, err) and one action per API call: Next, Write(n), Flush, Close, *)
(* each transcribed from the code.  Ghost state: the list of finalised      *)
(* chunks [blk, off, len, typ, rec] and the number of bytes handed in for   *)
(* every record.                                                           *)
(*                                                                         *)
(* Reader: journal.Reader.Next / nextChunk / singleReader.Read transcribed  *)
(* as the operator Read(strict, bad, flen) over the chunk list, a set of    *)
(* unreadable chunks (bad header, bad checksum, cut off) and the length of  *)
(* the damaged file: a bad chunk drops the rest of its block, orphan        *)
(* middle/last chunks are skipped until a first/full chunk, strict mode     *)
(* stops with an error.  Damage(cut, tail, hit, dblk) chooses a damage      *)
(* (truncate at `cut`, append `tail` foreign bytes, make the chunks in      *)
(* `hit` unreadable) and records what both reader modes yield.              *)
(*                                                                         *)
(* Property C12 = the invariants at the end: layout laws of the writer,     *)
(* round trip, TolerantMon / StrictMon (the property statement over the     *)
(* yielded record list), Genuine (nothing invented).  JournalMC.tla checks  *)
(* them exhaustively for a small block size; JournalTrace.tla binds the     *)
(* real code to the same actions with the real block size.                  *)
(***************************************************************************)
EXTENDS Integers, Sequences, FiniteSets, TLC

CONSTANTS BlockSize, HeaderSize
ASSUME BlockSize > HeaderSize /\ HeaderSize > 0

\* chunk types (wire values)
Full == 1   First_ == 2   Middle == 3   Last_ == 4

VARIABLES
  i, j,        \* buf[i:j] = the chunk being built, header included
  written,     \* buf[:written] already handed to the underlying writer
  blk,         \* blockNumber
  first,       \* the chunk being built is the first of its record
  pending,     \* a chunk is being built (a record is open)
  closed,      \* w.err = "closed Writer"
  chunks,      \* ghost: finalised chunks in file order
  nrec,        \* ghost: records started
  recs,        \* ghost: recs[r] = bytes handed to Write for record r
  dmg,         \* damage chosen for the reader (NoDmg while writing)
  out          \* output only: what the reader yields under dmg

wvars == <<i, j, written, blk, first, pending, closed, chunks, nrec, recs>>
jvars == <<i, j, written, blk, first, pending, closed, chunks, nrec, recs, dmg, out>>

NoDmg == [cut |-> -1, flen |-> -1, hit |-> {}, dblk |-> {}]
NoOut == <<>>

JInit ==
  /\ i = 0 /\ j = 0 /\ written = 0 /\ blk = 0 /\ first = FALSE /\ pending = FALSE /\ closed = FALSE
  /\ chunks = <<>> /\ nrec = 0 /\ recs = <<>>
  /\ dmg = NoDmg /\ out = NoOut

\* journal.NewWriter over an empty file (starts the next sequence in a trace)
JFresh ==
  /\ i' = 0 /\ j' = 0 /\ written' = 0 /\ blk' = 0 /\ first' = FALSE /\ pending' = FALSE /\ closed' = FALSE
  /\ chunks' = <<>> /\ nrec' = 0 /\ recs' = <<>>
  /\ dmg' = NoDmg /\ out' = NoOut

-----------------------------------------------------------------------------
(* Writer *)

Size == blk * BlockSize + j             \* Writer.Size()
BufLen == blk * BlockSize + written     \* bytes the underlying io.Writer has received

\* fillHeader(last) for the chunk buf[i:j]
Chunk(ii, jj, bb, ff, last) ==
  [blk |-> bb, off |-> ii, len |-> jj - ii - HeaderSize,
   typ |-> IF last THEN (IF ff THEN Full ELSE Last_) ELSE (IF ff THEN First_ ELSE Middle),
   rec |-> nrec]

\* Writer.Next(): finish the pending chunk, reserve a header; when the header does not
\* fit, zero the rest of the block and write the block out.
WNext ==
  /\ ~closed
  /\ chunks' = IF pending THEN Append(chunks, Chunk(i, j, blk, first, TRUE)) ELSE chunks
  /\ IF j + HeaderSize > BlockSize
       THEN i' = 0 /\ j' = HeaderSize /\ written' = 0 /\ blk' = blk + 1
       ELSE i' = j /\ j' = j + HeaderSize /\ written' = written /\ blk' = blk
  /\ first' = TRUE /\ pending' = TRUE
  /\ nrec' = nrec + 1 /\ recs' = Append(recs, 0)
  /\ UNCHANGED <<closed, dmg, out>>

\* singleWriter.Write(p), len(p) = n: the copy loop over block boundaries.
RECURSIVE WriteLoop(_, _)
WriteLoop(n, s) ==
  IF n = 0 THEN s
  ELSE IF s.j = BlockSize
    THEN WriteLoop(n, [i |-> 0, j |-> HeaderSize, blk |-> s.blk + 1, first |-> FALSE, written |-> 0,
                       chunks |-> Append(s.chunks, Chunk(s.i, s.j, s.blk, s.first, FALSE))])
    ELSE LET c == IF n < BlockSize - s.j THEN n ELSE BlockSize - s.j
         IN WriteLoop(n - c, [s EXCEPT !.j = s.j + c])

WWrite(n) ==
  /\ ~closed /\ pending
  /\ LET r == WriteLoop(n, [i |-> i, j |-> j, blk |-> blk, first |-> first, written |-> written, chunks |-> chunks])
     IN i' = r.i /\ j' = r.j /\ blk' = r.blk /\ first' = r.first /\ written' = r.written /\ chunks' = r.chunks
  /\ recs' = [recs EXCEPT ![nrec] = @ + n]
  /\ UNCHANGED <<pending, closed, nrec, dmg, out>>

\* writePending(), shared by Flush and Close
Finish ==
  /\ chunks' = IF pending THEN Append(chunks, Chunk(i, j, blk, first, TRUE)) ELSE chunks
  /\ pending' = FALSE /\ written' = j
  /\ UNCHANGED <<i, j, blk, first, nrec, recs, dmg, out>>

WFlush == ~closed /\ Finish /\ UNCHANGED closed
WClose == ~closed /\ Finish /\ closed' = TRUE

\* Calls that fail and change nothing: anything on a closed Writer, and Write
\* through a writer made stale by Flush/Close.
WRefused(op) ==
  /\ \/ closed /\ op \in {"next", "write", "flush", "close"}
     \/ ~pending /\ op = "write"
  /\ UNCHANGED jvars

-----------------------------------------------------------------------------
(* File layout helpers (over the finalised chunks) *)

NC == Len(chunks)
CStart(c) == chunks[c].blk * BlockSize + chunks[c].off
CEnd(c)   == CStart(c) + HeaderSize + chunks[c].len
\* chunks completely inside the first n bytes (a prefix of the list)
Visible(n) == Cardinality({c \in 1 .. NC : CEnd(c) <= n})
CIdx(r) == {c \in 1 .. NC : chunks[c].rec = r}
Lab(r) == IF recs[r] = 0 THEN 0 ELSE r          \* empty records cannot be told apart by content
Touches(r, D) == \E c \in CIdx(r) : chunks[c].blk \in D
CutOff(r, cut) == \E c \in CIdx(r) : CEnd(c) > cut
ChunkAt(b, o) ==
  LET S == {c \in 1 .. NC : chunks[c].blk = b /\ chunks[c].off = o}
  IN IF S = {} THEN 0 ELSE CHOOSE c \in S : TRUE
\* the chunk containing byte p (0: padding or beyond the data)
ChunkOf(p) ==
  LET S == {c \in 1 .. NC : CStart(c) <= p /\ p < CEnd(c)}
  IN IF S = {} THEN 0 ELSE CHOOSE c \in S : TRUE

-----------------------------------------------------------------------------
(* Reader.  bad: chunks the reader cannot accept (any header field or payload
   byte changed, or not completely present); flen: length of the file read.
   Reader state st = [b, j, n]: block in the buffer, position, valid bytes. *)

ValidBytes(b, flen) ==
  LET r == flen - b * BlockSize IN IF r <= 0 THEN 0 ELSE IF r > BlockSize THEN BlockSize ELSE r

\* corrupt(n, reason, skip=false): error in strict mode, errSkip otherwise
Corrupt(strict) == IF strict THEN "err" ELSE "skip"

\* Reader.nextChunk(first)
RECURSIVE NextChunk(_, _, _, _, _)
NextChunk(st, wantFirst, strict, bad, flen) ==
  IF st.j + HeaderSize <= st.n
  THEN LET c == ChunkAt(st.b, st.j) IN
       IF c = 0 \/ c \in bad
       THEN \* zero header, invalid type, length overflows block, checksum mismatch: drop the block
            [st |-> [st EXCEPT !.j = st.n], r |-> Corrupt(strict), c |-> 0]
       ELSE LET st2 == [st EXCEPT !.j = st.j + HeaderSize + chunks[c].len] IN
            IF wantFirst /\ chunks[c].typ \notin {Full, First_}
            THEN [st |-> st2, r |-> "skip", c |-> 0]        \* orphan chunk: skipped in both modes
            ELSE [st |-> st2, r |-> "ok", c |-> c]
  ELSE LET n2 == ValidBytes(st.b + 1, flen)
           done == [st |-> st, r |-> IF wantFirst THEN "eof" ELSE Corrupt(strict), c |-> 0]  \* "missing chunk part"
       IN IF st.n < BlockSize /\ st.n > 0 THEN done        \* the last block
          ELSE IF n2 = 0 THEN done
          ELSE NextChunk([b |-> st.b + 1, j |-> 0, n |-> n2], wantFirst, strict, bad, flen)

\* singleReader.Read until io.EOF: collect chunks until a full/last one
RECURSIVE ReadBody(_, _, _, _, _)
ReadBody(st, cs, strict, bad, flen) ==
  IF chunks[cs[Len(cs)]].typ \in {Full, Last_} THEN [st |-> st, r |-> "ok", cs |-> cs]
  ELSE LET x == NextChunk(st, FALSE, strict, bad, flen) IN
       IF x.r = "ok" THEN ReadBody(x.st, Append(cs, x.c), strict, bad, flen)
       ELSE [st |-> x.st, r |-> x.r, cs |-> cs]

\* the client loop: Next(), read the record completely, again; a record whose read fails is not yielded
RECURSIVE ReadLoop(_, _, _, _, _)
ReadLoop(st, acc, strict, bad, flen) ==
  LET x == NextChunk(st, TRUE, strict, bad, flen) IN
  IF x.r = "eof" THEN [acc EXCEPT !.end = "eof"]
  ELSE IF x.r = "err" THEN [acc EXCEPT !.end = "err"]
  ELSE IF x.r = "skip" THEN ReadLoop(x.st, acc, strict, bad, flen)
  ELSE LET y == ReadBody(x.st, <<x.c>>, strict, bad, flen) IN
       IF y.r = "ok" THEN ReadLoop(y.st, [acc EXCEPT !.got = Append(@, y.cs)], strict, bad, flen)
       ELSE IF y.r = "skip" THEN ReadLoop(y.st, [acc EXCEPT !.part = @ + 1], strict, bad, flen)
       ELSE [acc EXCEPT !.part = @ + 1, !.end = "err"]

\* got: yielded records, each as the sequence of chunk indices it was assembled from;
\* part: records begun and abandoned on an error; end: how Next() finally answered
Read(strict, bad, flen) ==
  ReadLoop([b |-> -1, j |-> 0, n |-> 0], [got |-> <<>>, part |-> 0, end |-> "?"], strict, bad, flen)

\* A yielded record is genuine when it is exactly the chunks of one written record.
RecOf(cs) == chunks[cs[1]].rec
Genuine(cs) ==
  LET S == CIdx(RecOf(cs)) IN
  /\ Len(cs) = Cardinality(S)
  /\ \A k \in 1 .. Len(cs) : cs[k] = cs[1] + k - 1 /\ cs[k] \in S
Labels(o) == [k \in 1 .. Len(o.got) |-> IF Genuine(o.got[k]) THEN Lab(RecOf(o.got[k])) ELSE -1]

\* Damage: the first `cut` bytes survive, `tail` foreign bytes follow, chunks in `hit` have a changed byte.
FileLen == Size
BadOf(cut, hit) == hit \cup {c \in 1 .. NC : CEnd(c) > cut}
Outcome(cut, tail, hit) ==
  [tol |-> Read(FALSE, BadOf(cut, hit), cut + tail), str |-> Read(TRUE, BadOf(cut, hit), cut + tail)]
\* blocks that lost or changed at least one byte of the written file
TruncBlocks(cut) == IF cut < FileLen THEN {b \in 0 .. blk : (b + 1) * BlockSize > cut} ELSE {}
HitBlocks(hit) == {chunks[c].blk : c \in hit}

Damage(cut, tail, hit, dblk) ==
  /\ ~pending                         \* everything handed in has reached the file
  /\ cut \in 0 .. FileLen /\ tail >= 0 /\ hit \subseteq 1 .. NC
  /\ dmg' = [cut |-> cut, flen |-> cut + tail, hit |-> hit, dblk |-> dblk]
  /\ out' = Outcome(cut, tail, hit)
  /\ UNCHANGED wvars

-----------------------------------------------------------------------------
(* C12, writer half: layout laws *)

Quiescent == ~pending => written = j
ChunkFits == \A c \in 1 .. NC : chunks[c].off >= 0 /\ chunks[c].len >= 0 /\ chunks[c].off + HeaderSize + chunks[c].len <= BlockSize
\* consecutive chunks are adjacent, or the next one opens the next block because no header fits
Tight ==
  /\ NC > 0 => (chunks[1].blk = 0 /\ chunks[1].off = 0)
  /\ \A c \in 1 .. NC - 1 :
       \/ chunks[c + 1].blk = chunks[c].blk /\ CStart(c + 1) = CEnd(c)
       \/ /\ chunks[c + 1].blk = chunks[c].blk + 1 /\ chunks[c + 1].off = 0
          /\ CEnd(c) + HeaderSize > (chunks[c].blk + 1) * BlockSize
\* per record: full, or first middle* last; a chunk that is not the record's last ends its block
TypesOK ==
  \A r \in 1 .. nrec :
    LET S == CIdx(r)
        lo == CHOOSE c \in S : \A d \in S : c <= d
        hi == CHOOSE c \in S : \A d \in S : c >= d
        finished == r < nrec \/ ~pending
    IN /\ S # {} => S = lo .. hi
       /\ \A c \in S : chunks[c].typ \in {First_, Middle} => chunks[c].off + HeaderSize + chunks[c].len = BlockSize
       /\ \A c \in S : (chunks[c].typ \in {Full, First_}) = (c = lo)
       /\ finished => /\ S # {}
                      /\ \A c \in S : (chunks[c].typ \in {Full, Last_}) = (c = hi)
       /\ ~finished => \A c \in S : chunks[c].typ \in {First_, Middle}
RecsInOrder == \A c \in 1 .. NC - 1 : chunks[c].rec <= chunks[c + 1].rec
\* the payload of a finished record is exactly what was handed in
RECURSIVE SumLen(_)
SumLen(S) == IF S = {} THEN 0 ELSE LET c == CHOOSE x \in S : TRUE IN chunks[c].len + SumLen(S \ {c})
PayloadConserved == \A r \in 1 .. nrec : (r < nrec \/ ~pending) => SumLen(CIdx(r)) = recs[r]
\* what the file holds is whole chunks and block padding, nothing else
BufferWhole ==
  LET v == Visible(BufLen) IN
  IF v = 0 THEN BufLen = 0
  ELSE BufLen = CEnd(v) \/ (BufLen = (chunks[v].blk + 1) * BlockSize /\ CEnd(v) + HeaderSize > BufLen)
SizeLaw == Size >= BufLen /\ (~pending => Size = BufLen /\ Visible(BufLen) = NC)

-----------------------------------------------------------------------------
(* C12, reader half: the property statement over the list of yielded labels.
   got: labels in the order yielded; D: damaged blocks; cut: surviving prefix. *)

\* tolerant: `got` is the written sequence minus some records that touch a damaged block
RECURSIVE Align(_, _, _, _)
Align(r, k, got, D) ==
  IF r > nrec THEN k > Len(got)
  ELSE \/ k <= Len(got) /\ got[k] = Lab(r) /\ Align(r + 1, k + 1, got, D)
       \/ Touches(r, D) /\ Align(r + 1, k, got, D)
TolerantMon(got, end, D) == end = "eof" /\ Align(1, 1, got, D)

\* strict: a prefix of the written sequence reaching at least to the first record that touches a
\* damaged block; ends with an error, or silently only when everything missing was cut off
\* (a file cut between two chunks is indistinguishable from a shorter file)
StrictMon(got, end, D, cut, damaged) ==
  /\ Len(got) <= nrec
  /\ \A k \in 1 .. Len(got) : got[k] = Lab(k)
  /\ \A r \in 1 .. nrec : (\A q \in 1 .. r : ~Touches(q, D)) => r <= Len(got)
  /\ end \in {"eof", "err"}
  /\ end = "eof" => \A r \in (Len(got) + 1) .. nrec : CutOff(r, cut)
  /\ end = "err" => damaged

Damaged == dmg.cut < FileLen \/ dmg.flen > dmg.cut \/ dmg.hit # {}

NothingInvented ==
  dmg # NoDmg => \A m \in {"tol", "str"} :
    /\ \A k \in 1 .. Len(out[m].got) : Genuine(out[m].got[k])
    /\ \A k \in 1 .. Len(out[m].got) - 1 : RecOf(out[m].got[k]) < RecOf(out[m].got[k + 1])
RoundTrip ==
  (dmg # NoDmg /\ ~Damaged) => \A m \in {"tol", "str"} :
    /\ [k \in 1 .. Len(out[m].got) |-> RecOf(out[m].got[k])] = [k \in 1 .. nrec |-> k]
    /\ out[m].part = 0 /\ out[m].end = "eof"
TolerantContains == dmg # NoDmg => TolerantMon(Labels(out.tol), out.tol.end, dmg.dblk)
StrictStops      == dmg # NoDmg => StrictMon(Labels(out.str), out.str.end, dmg.dblk, dmg.cut, Damaged)

\* Lemma used by JournalTrace to validate a whole range of truncation offsets at its
\* break points only: between two break points the outcome does not depend on the offset.
Breaks == UNION {{CStart(c), CStart(c) + HeaderSize, CEnd(c)} : c \in 1 .. NC}
TruncPiecewiseConstant ==
  (dmg = NoDmg /\ ~pending) =>
     \A t \in 0 .. FileLen - 1 : (t + 1) \notin Breaks => Outcome(t, 0, {}) = Outcome(t + 1, 0, {})
=============================================================================
