SPECIFICATION GenSpec
CONSTANTS
  BlockSize = 32768
  HeaderSize = 7
  MaxRecs = 6
  MaxWrites = 3
  MaxOps = 22
  MaxErr = 2
INVARIANTS Quiescent ChunkFits Tight TypesOK RecsInOrder PayloadConserved BufferWhole SizeLaw
CHECK_DEADLOCK FALSE
