----------------------------- MODULE JournalGen -----------------------------
(* Generation configuration of Journal.tla (spec -> code): TLC in simulation
   mode walks the writer actions with the REAL block size and prints every
   finished behaviour as a list of op codes (-1 Next, -2 Flush, -3 Close,
   n >= 0 Write(n)); harness/cmd/jrn executes the lists on journal.Writer.
   Write sizes are chosen relative to the room left in the current block so
   that chunks end 0..9 bytes before a block end, spill into the next block by
   1..9 bytes, fill one or two further blocks up to the same residues, or are
   small / empty.                                                            *)
EXTENDS Journal

CONSTANTS MaxRecs, MaxWrites, MaxOps, MaxErr

VARIABLES hist,     \* op codes so far
          target,   \* records this behaviour will write
          quota,    \* Write calls the open record will get
          nw,       \* Write calls the open record has got
          nerr,     \* refused calls so far
          fin       \* 0 running, 1 finished, 2 printed
gvars == <<jvars, hist, target, quota, nw, nerr, fin>>

Room == BlockSize - j
Payload == BlockSize - HeaderSize
GenLens ==
  {n \in {0, 0, 1, 2, 3, 5, 6, 7, 8, 9, 10, 100, 1000, 3000, 10000}
       \cup {Room - k : k \in 0 .. 9}
       \cup {Room + k : k \in 1 .. 9}
       \cup {Room + Payload - k : k \in {0, 1, 5, 6, 7, 8}}
       \cup {Room + 2 * Payload - k : k \in {0, 7}} : n >= 0}

Code(op) == CASE op = "next" -> -1 [] op = "flush" -> -2 [] op = "close" -> -3

Step ==
  /\ fin = 0 /\ Len(hist) < MaxOps
  /\ \/ /\ ~closed /\ nrec < target /\ nw = quota
        /\ WNext /\ hist' = Append(hist, -1) /\ nw' = 0 /\ quota' \in 0 .. MaxWrites /\ UNCHANGED nerr
     \/ /\ ~closed /\ pending /\ nw < quota
        /\ \E n \in GenLens : WWrite(n) /\ hist' = Append(hist, n)
        /\ nw' = nw + 1 /\ UNCHANGED <<quota, nerr>>
     \/ /\ ~closed /\ nw = quota /\ nrec > 0
        /\ WFlush /\ hist' = Append(hist, -2) /\ UNCHANGED <<quota, nw, nerr>>
     \/ /\ ~closed /\ nw = quota /\ nrec = target
        /\ WClose /\ hist' = Append(hist, -3) /\ UNCHANGED <<quota, nw, nerr>>
     \/ /\ nerr < MaxErr /\ nrec > 0
        /\ \/ \E op \in {"next", "flush", "close"} : WRefused(op) /\ hist' = Append(hist, Code(op))
           \/ WRefused("write") /\ hist' = Append(hist, 3)
        /\ nerr' = nerr + 1 /\ UNCHANGED <<quota, nw>>
  /\ UNCHANGED <<target, fin>>

\* the file is complete: stop here
GenFinish ==
  /\ fin = 0 /\ ~pending /\ (nrec = target \/ Len(hist) >= MaxOps)
  /\ fin' = 1 /\ UNCHANGED <<jvars, hist, target, quota, nw, nerr>>
\* out of steps with a record open: flush it
Wrap ==
  /\ fin = 0 /\ pending /\ Len(hist) >= MaxOps
  /\ WFlush /\ hist' = Append(hist, -2) /\ fin' = 1 /\ UNCHANGED <<target, quota, nw, nerr>>
\* the only step of a finished behaviour: print it (evaluated once per behaviour)
Emit ==
  /\ fin = 1 /\ PrintT(<<"VERIF-SEQ", hist>>)
  /\ fin' = 2 /\ UNCHANGED <<jvars, hist, target, quota, nw, nerr>>

GenInit == JInit /\ hist = <<>> /\ target \in 1 .. MaxRecs /\ quota = 0 /\ nw = 0 /\ nerr = 0 /\ fin = 0
GenNext == Step \/ GenFinish \/ Wrap \/ Emit
GenSpec == GenInit /\ [][GenNext]_gvars
=============================================================================
