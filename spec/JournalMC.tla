----------------------------- MODULE JournalMC -----------------------------
(* Exhaustive check of Journal.tla with a small block: every sequence of
   Next / Write(n) / Flush / Close (and refused calls) within the bounds, and at
   every point where the file is complete every damage within the bounds:
   every truncation offset x every tail length in Tails, every set of at most
   MaxHit unreadable chunks, and one unreadable chunk x every truncation
   offset x every tail length in CTails.                                                       *)
EXTENDS Journal

CONSTANTS Lens,        \* Write sizes
          MaxRecs,     \* records per file
          MaxWrites,   \* Write calls per record
          Tails,       \* lengths of the foreign tail after a cut
          MaxHit,      \* unreadable chunks chosen together
          CTails       \* tails for: one unreadable chunk together with a cut (empty set: not explored)

VARIABLE nw            \* Write calls made on the open record
mcvars == <<jvars, nw>>

SubsetsUpTo(S, k) == {T \in SUBSET S : Cardinality(T) <= k}
MCDblk(cut, hit) == TruncBlocks(cut) \cup HitBlocks(hit)     \* the least set of damaged blocks

MCNext ==
  /\ dmg = NoDmg
  /\ \/ nrec < MaxRecs /\ WNext /\ nw' = 0
     \/ nw < MaxWrites /\ (\E n \in Lens : WWrite(n)) /\ nw' = nw + 1
     \/ WFlush /\ UNCHANGED nw
     \/ WClose /\ UNCHANGED nw
     \/ /\ ~pending /\ UNCHANGED nw
        /\ \/ \E cut \in 0 .. FileLen, tail \in Tails : Damage(cut, tail, {}, MCDblk(cut, {}))
           \/ \E hit \in SubsetsUpTo(1 .. NC, MaxHit) : Damage(FileLen, 0, hit, MCDblk(FileLen, hit))
           \/ /\ CTails # {}
              /\ \E cut \in 0 .. FileLen, tail \in CTails, c \in 1 .. NC :
                    Damage(cut, tail, {c}, MCDblk(cut, {c}))

MCInit == JInit /\ nw = 0
MCSpec == MCInit /\ [][MCNext]_mcvars

TypeOK ==
  /\ i \in 0 .. BlockSize /\ j \in 0 .. BlockSize /\ written \in 0 .. BlockSize /\ i <= j /\ written <= j
  /\ pending => i + HeaderSize <= j
  /\ Len(recs) = nrec

MCView == <<i, j, written, blk, first, pending, closed, chunks, nrec, recs, dmg, nw>>   \* `out` is output only
=============================================================================
