SPECIFICATION MCSpec
CONSTANTS
  BlockSize = 16
  HeaderSize = 7
  Lens = {0, 1, 2, 3, 9, 10, 19, 30}
  MaxRecs = 2
  MaxWrites = 2
  Tails = {0, 1, 7, 20}
  MaxHit = 2
  CTails = {}
VIEW MCView
INVARIANTS TypeOK Quiescent ChunkFits Tight TypesOK RecsInOrder PayloadConserved BufferWhole SizeLaw
           NothingInvented RoundTrip TolerantContains StrictStops TruncPiecewiseConstant
CHECK_DEADLOCK FALSE
