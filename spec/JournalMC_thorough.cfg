SPECIFICATION MCSpec
CONSTANTS
  BlockSize = 16
  HeaderSize = 7
  Lens = {0, 1, 2, 3, 8, 9, 10, 11, 19, 20, 30}
  MaxRecs = 3
  MaxWrites = 1
  Tails = {0, 1, 6, 7, 8, 20, 40}
  MaxHit = 3
  CTails = {0, 8}
VIEW MCView
INVARIANTS TypeOK Quiescent ChunkFits Tight TypesOK RecsInOrder PayloadConserved BufferWhole SizeLaw
           NothingInvented RoundTrip TolerantContains StrictStops TruncPiecewiseConstant

CHECK_DEADLOCK FALSE
