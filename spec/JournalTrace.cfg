SPECIFICATION TraceSpec
CONSTANTS
  BlockSize = 32768
  HeaderSize = 7
VIEW TraceView
POSTCONDITION Report
CHECK_DEADLOCK FALSE
