---------------------------- MODULE JournalTrace ----------------------------
(***************************************************************************)
(* Trace specification for C12: every call harness/cmd/jrn made on the REAL *)
(* journal.Writer (real block size) and every group of damage trials it ran *)
(* through the REAL journal.Reader must be a step of Journal.tla.           *)
(*                                                                         *)
(*  "w"  one writer call.  The spec action of that call must be enabled    *)
(*       with the recorded outcome, and afterwards Size(), the number of    *)
(*       bytes that reached the underlying writer and the chunks newly      *)
(*       parsed from those bytes [blk, off, len, typ] must equal the        *)
(*       spec's (typ > 4 marks a chunk whose checksum or content the        *)
(*       driver's independent parser rejected, 9 non-zero padding).         *)
(*  "rd" damage trials with one common outcome: the file cut at every       *)
(*       offset in lo..hi (then `tail` foreign bytes), the bytes at `sim`   *)
(*       flipped together; or, one trial per element of `alt`, that byte    *)
(*       flipped alone.  For every trial (a range of cuts is evaluated at   *)
(*       its break points, lemma TruncPiecewiseConstant) the yielded labels *)
(*       must be (a) what the transcribed reader rule yields and (b)        *)
(*       admitted by the property monitors TolerantMon / StrictMon for the  *)
(*       blocks that really lost or changed a byte.                         *)
(*  "reset" starts the next sequence.  A "panic" line has no action.        *)
(*                                                                         *)
(* A failed conjunct of "rd" prints VERIF-MON with its kind before the      *)
(* trace stops at that line.                                               *)
(***************************************************************************)
EXTENDS Journal, Json, IOUtils

Trace == ndJsonDeserialize(IOEnv.TRACE)

VARIABLE l
tvars == <<jvars, l>>

E == Trace[l]
Is(name) == E.ev = name

Reset == Is("reset") /\ JFresh

\* layout of the chunks that became visible in the file with this call
NewLayout(v0) ==
  LET v1 == Visible(BufLen)' IN
  [k \in 1 .. (v1 - v0) |-> LET c == chunks'[v0 + k] IN <<c.blk, c.off, c.len, c.typ>>]

TCall ==
  /\ Is("w")
  /\ \/ E.err = 0 /\ \/ E.op = "next"  /\ WNext
                     \/ E.op = "write" /\ WWrite(E.len)
                     \/ E.op = "flush" /\ WFlush
                     \/ E.op = "close" /\ WClose
     \/ E.err = 1 /\ WRefused(E.op)
  /\ Size' = E.size
  /\ BufLen' = E.blen
  /\ E.un = 0
  /\ NewLayout(Visible(BufLen)) = E.new

SeqRange(s) == {s[k] : k \in 1 .. Len(s)}
BlocksOf(S) == {p \div BlockSize : p \in S}
HitsOf(S)   == {ChunkOf(p) : p \in S} \ {0}
CheckPts(lo, hi) == {lo, hi} \cup {t \in Breaks : lo < t /\ t <= hi}

Explain(kind, ok) == ok \/ (PrintT(<<"VERIF-MON", kind, l>>) /\ FALSE)

\* one trial: cut, tail, unreadable chunks, blocks with a lost or changed byte
Agrees(cut, tail, hit, D) ==
  LET o == Outcome(cut, tail, hit)
      damaged == cut < FileLen \/ tail > 0 \/ D # {}
      rule == Explain("reader-rule",
                /\ Labels(o.tol) = E.gt /\ o.tol.part = E.pt /\ o.tol.end = E.et
                /\ Labels(o.str) = E.gs /\ o.str.part = E.ps /\ o.str.end = E.es)
      prop == Explain("property",
                /\ TolerantMon(E.gt, E.et, D)
                /\ StrictMon(E.gs, E.es, D, cut, damaged))
  IN IF rule THEN prop ELSE (prop \/ TRUE) /\ FALSE      \* evaluate (and report) both

TRead ==
  /\ Is("rd")
  /\ LET sim == SeqRange(E.sim)
         alt == SeqRange(E.alt)
     IN /\ Damage(E.lo, E.tail, HitsOf(sim), BlocksOf(sim) \cup TruncBlocks(E.lo))
        /\ E.lo <= E.hi /\ (E.hi > E.lo => (E.tail = 0 /\ alt = {})) /\ \A p \in sim \cup alt : p < E.lo
        /\ IF alt = {}
           THEN \A t \in CheckPts(E.lo, E.hi) :
                   Agrees(t, E.tail, HitsOf(sim), BlocksOf(sim) \cup TruncBlocks(t))
           ELSE \A x \in {<<ChunkOf(p), p \div BlockSize>> : p \in alt} :
                   Agrees(E.lo, E.tail, HitsOf(sim) \cup ({x[1]} \ {0}),
                          BlocksOf(sim) \cup {x[2]} \cup TruncBlocks(E.lo))

TraceInit == JInit /\ l = 1 /\ TLCSet(1, 1)

TraceNext ==
  /\ l <= Len(Trace)
  /\ l' = l + 1
  /\ \/ Reset \/ TCall \/ TRead
  /\ TLCSet(1, IF TLCGet(1) < l' THEN l' ELSE TLCGet(1))

TraceSpec == TraceInit /\ [][TraceNext]_tvars

TraceView == <<i, j, written, blk, first, pending, closed, chunks, nrec, recs, l>>   \* dmg, out: output only

Report ==
  /\ PrintT(<<"VERIF-HWM", TLCGet(1), Len(Trace)>>)
  /\ IF TLCGet(1) <= Len(Trace) THEN PrintT(<<"VERIF-STUCK", Trace[TLCGet(1)]>>) ELSE TRUE
=============================================================================
