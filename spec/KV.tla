------------------------------- MODULE KV -------------------------------
(***************************************************************************)
(* The contract a user of goleveldb relies on: an ordered map with frozen  *)
(* views (snapshots and iterators), cursors, one exclusive transaction and *)
(* a lifecycle.  Keys are integer ranks in the comparer's order, values    *)
(* are content identifiers (0 = absent).  Every action writes the reply it *)
(* owes the client into `res`; the trace specification KVTrace.tla binds   *)
(* recorded replies of the real DB to it.                                  *)
(*                                                                         *)
(* Properties decided through this module: C01 (Get/Has = latest write),   *)
(* C02 (cursor laws), C03 (views never change), C11 (transaction overlay,  *)
(* atomic commit, discard), C16 (no filter in the state: answers cannot    *)
(* depend on it), C18 (lifecycle), C20 (no buffers in the state either),   *)
(* C08 (a failed write is applied now, or in limbo until reopen).          *)
(***************************************************************************)
EXTENDS Integers, Sequences, FiniteSets, TLC

CONSTANTS NK          \* keys are 0 .. NK-1

Keys   == 0 .. (NK - 1)
Absent == 0
SOI    == -1          \* cursor before the first pair
EOI    == NK          \* cursor after the last pair
Unset  == -2          \* transaction overlay: key not written in the transaction

VARIABLES
  store,     \* Keys -> value id
  snaps,     \* handle -> [view : Keys -> value, rel : BOOLEAN]
  its,       \* handle -> [view, lo, hi, pos, rel]
  tx,        \* [open : BOOLEAN, ov : Keys -> value | Unset]   (base is `store`: writers are excluded)
  mode,      \* "open" | "closed"
  ro,        \* read-only
  limbo,     \* failed writes whose fate is unknown until reopen:
             \*   [base : store before the first of them, log : Seq([ops, st])], st in {"ok","limbo"}
  res        \* reply of the last call

kvvars == <<store, snaps, its, tx, mode, ro, limbo, res>>

NoLimbo == [base |-> <<>>, log |-> <<>>]
NoTx    == [open |-> FALSE, ov |-> [k \in Keys |-> Unset]]

KVInit ==
  /\ store = [k \in Keys |-> Absent]
  /\ snaps = <<>>
  /\ its = <<>>
  /\ tx = NoTx
  /\ mode = "open"
  /\ ro = FALSE
  /\ limbo = NoLimbo
  /\ res = <<"init">>

-----------------------------------------------------------------------------
(* Pure helpers *)

\* ops is a sequence of <<k, v>> pairs (v = Absent for a delete), applied in order.
RECURSIVE ApplyOps(_, _)
ApplyOps(st, ops) ==
  IF ops = <<>> THEN st
  ELSE ApplyOps([st EXCEPT ![Head(ops)[1]] = Head(ops)[2]], Tail(ops))

\* Replay the limbo log over base, applying "ok" entries and the limbo entries chosen in `keep` (a set of indices).
Replay(st, log, keep) ==
  LET F[i \in 0 .. Len(log)] ==
        IF i = 0 THEN st
        ELSE IF log[i].st = "ok" \/ i \in keep THEN ApplyOps(F[i-1], log[i].ops) ELSE F[i-1]
  IN F[Len(log)]

TxView == [k \in Keys |-> IF tx.ov[k] # Unset THEN tx.ov[k] ELSE store[k]]
\* the transaction's net effect as a sequence of <<key, value>> writes
OvSeq == LET F[i \in 0 .. NK] == IF i = 0 THEN <<>>
                                  ELSE IF tx.ov[i-1] # Unset THEN Append(F[i-1], <<i-1, tx.ov[i-1]>>) ELSE F[i-1]
         IN F[NK]

LiveIn(view, lo, hi) == {k \in Keys : lo <= k /\ k < hi /\ view[k] # Absent}
MinOf(S) == CHOOSE x \in S : \A y \in S : x <= y
MaxOf(S) == CHOOSE x \in S : \A y \in S : x >= y

\* Cursor laws (C02).  A cursor is at SOI, at a live key, or at EOI.
CurFirst(L)    == IF L = {} THEN EOI ELSE MinOf(L)
CurLast(L)     == IF L = {} THEN SOI ELSE MaxOf(L)
CurSeek(L, x)  == LET S == {k \in L : k >= x} IN IF S = {} THEN EOI ELSE MinOf(S)
CurNext(L, p)  == IF p = EOI THEN EOI
                  ELSE LET S == {k \in L : k > p} IN IF S = {} THEN EOI ELSE MinOf(S)
CurPrev(L, p)  == IF p = SOI THEN SOI
                  ELSE LET S == {k \in L : k < p} IN IF S = {} THEN SOI ELSE MaxOf(S)

Move(c, mv, arg) ==
  LET L == LiveIn(c.view, c.lo, c.hi) IN
  CASE mv = "first" -> CurFirst(L)
    [] mv = "last"  -> CurLast(L)
    [] mv = "seek"  -> CurSeek(L, arg)
    [] mv = "next"  -> CurNext(L, c.pos)
    [] mv = "prev"  -> CurPrev(L, c.pos)

\* what the client observes after a move: <<valid, key, value>>
Obs(c, p) == IF p = SOI \/ p = EOI THEN <<FALSE, -1, 0>> ELSE <<TRUE, p, c.view[p]>>

Dom(f) == DOMAIN f
Ext(f, h, x) == [y \in Dom(f) \cup {h} |-> IF y = h THEN x ELSE f[y]]

-----------------------------------------------------------------------------
(* Writes.  outcome: "ok" | "applied" (error returned, effect visible) |   *)
(* "limbo" (error returned, effect absent until a reopen decides).         *)

WErr == IF mode = "closed" THEN "closed" ELSE IF ro THEN "readonly" ELSE "none"

Write(ops, outcome) ==
  /\ ~tx.open                         \* writers wait while a transaction is open (C11)
  /\ IF WErr # "none"
     THEN /\ res' = <<WErr>>
          /\ UNCHANGED <<store, limbo>>
     ELSE /\ outcome \in {"ok", "applied", "limbo"}
          /\ res' = <<IF outcome = "ok" THEN "none" ELSE "fail">>
          /\ store' = IF outcome = "limbo" THEN store ELSE ApplyOps(store, ops)
          /\ limbo' = IF outcome = "limbo" /\ limbo.log = <<>>
                        THEN [base |-> store, log |-> <<[ops |-> ops, st |-> "limbo"]>>]
                      ELSE IF limbo.log # <<>>
                        THEN [limbo EXCEPT !.log = Append(@, [ops |-> ops,
                                         st |-> IF outcome = "limbo" THEN "limbo" ELSE "ok"])]
                      ELSE limbo
  /\ UNCHANGED <<snaps, its, tx, mode, ro>>

Get(k) ==
  /\ res' = IF mode = "closed" THEN <<"closed", 0>>
            ELSE IF store[k] = Absent THEN <<"notfound", 0>> ELSE <<"none", store[k]>>
  /\ UNCHANGED <<store, snaps, its, tx, mode, ro, limbo>>

Has(k) ==
  /\ res' = IF mode = "closed" THEN <<"closed", FALSE>> ELSE <<"none", store[k] # Absent>>
  /\ UNCHANGED <<store, snaps, its, tx, mode, ro, limbo>>

\* CompactRange changes no contents.  On a read-only DB it may be refused or be a
\* no-op ("ro-any": the client may be told "none" or "readonly").
Compact ==
  /\ res' = <<IF mode = "closed" THEN "closed" ELSE IF ro THEN "ro-any" ELSE "none">>
  /\ UNCHANGED <<store, snaps, its, tx, mode, ro, limbo>>

\* GetProperty, Stats, SizeOf: no effect on contents; closed error after Close.
Misc ==
  /\ res' = <<IF mode = "closed" THEN "closed" ELSE "none">>
  /\ UNCHANGED <<store, snaps, its, tx, mode, ro, limbo>>

-----------------------------------------------------------------------------
(* Snapshots (C03) *)

GetSnapshot(h) ==
  /\ h \notin Dom(snaps)
  /\ IF mode = "closed"
     THEN res' = <<"closed">> /\ UNCHANGED snaps
     ELSE res' = <<"none">> /\ snaps' = Ext(snaps, h, [view |-> store, rel |-> FALSE, gone |-> FALSE])
  /\ UNCHANGED <<store, its, tx, mode, ro, limbo>>

\* A snapshot released by its owner says "released"; one orphaned by Close says "gone"
\* (the client may be told either "closed" or "released").
SnapErr(h) == IF snaps[h].rel THEN "released" ELSE IF snaps[h].gone THEN "gone" ELSE "none"

SnapGet(h, k) ==
  /\ h \in Dom(snaps)
  /\ res' = IF SnapErr(h) # "none" THEN <<SnapErr(h), 0>>
            ELSE IF snaps[h].view[k] = Absent THEN <<"notfound", 0>> ELSE <<"none", snaps[h].view[k]>>
  /\ UNCHANGED <<store, snaps, its, tx, mode, ro, limbo>>

SnapHas(h, k) ==
  /\ h \in Dom(snaps)
  /\ res' = IF SnapErr(h) # "none" THEN <<SnapErr(h), FALSE>> ELSE <<"none", snaps[h].view[k] # Absent>>
  /\ UNCHANGED <<store, snaps, its, tx, mode, ro, limbo>>

SnapRelease(h) ==
  /\ h \in Dom(snaps)
  /\ snaps' = [snaps EXCEPT ![h].rel = TRUE]
  /\ res' = <<"none">>
  /\ UNCHANGED <<store, its, tx, mode, ro, limbo>>

-----------------------------------------------------------------------------
(* Iterators (C02, C03).  src: "db" | "snap" | "tx"; sh: snapshot handle.   *)

NewIter(h, src, sh, lo, hi) ==
  /\ h \notin Dom(its)
  /\ lo \in 0 .. NK /\ hi \in 0 .. NK
  /\ LET dead == \/ mode = "closed"
                 \/ (src = "snap" /\ (sh \notin Dom(snaps) \/ snaps[sh].rel \/ snaps[sh].gone))
                 \/ (src = "tx" /\ ~tx.open)
         view == CASE src = "db"   -> store
                   [] src = "snap" -> IF sh \in Dom(snaps) THEN snaps[sh].view ELSE store
                   [] src = "tx"   -> TxView
     IN /\ its' = Ext(its, h, [view |-> view, lo |-> lo, hi |-> hi, pos |-> SOI, rel |-> dead])
        /\ res' = <<IF dead THEN "dead" ELSE "none">>
  /\ UNCHANGED <<store, snaps, tx, mode, ro, limbo>>

IterMove(h, mv, arg) ==
  /\ h \in Dom(its)
  /\ IF its[h].rel
     THEN res' = <<FALSE, -1, 0>> /\ UNCHANGED its
     ELSE LET p == Move(its[h], mv, arg) IN
          /\ its' = [its EXCEPT ![h].pos = p]
          /\ res' = Obs(its[h], p)
  /\ UNCHANGED <<store, snaps, tx, mode, ro, limbo>>

IterRelease(h) ==
  /\ h \in Dom(its)
  /\ its' = [its EXCEPT ![h].rel = TRUE]
  /\ res' = <<"none">>
  /\ UNCHANGED <<store, snaps, tx, mode, ro, limbo>>

-----------------------------------------------------------------------------
(* Transactions (C11) *)

OpenTx ==
  /\ ~tx.open
  /\ IF WErr # "none"
     THEN res' = <<WErr>> /\ UNCHANGED tx
     ELSE res' = <<"none">> /\ tx' = [open |-> TRUE, ov |-> [k \in Keys |-> Unset]]
  /\ UNCHANGED <<store, snaps, its, mode, ro, limbo>>

TxWrite(ops) ==
  /\ IF ~tx.open
     THEN res' = <<"txdone">> /\ UNCHANGED tx
     ELSE res' = <<"none">> /\ tx' = [tx EXCEPT !.ov = ApplyOps(@, ops)]
  /\ UNCHANGED <<store, snaps, its, mode, ro, limbo>>

TxGet(k) ==
  /\ res' = IF ~tx.open THEN <<"txdone", 0>>
            ELSE IF TxView[k] = Absent THEN <<"notfound", 0>> ELSE <<"none", TxView[k]>>
  /\ UNCHANGED <<store, snaps, its, tx, mode, ro, limbo>>

TxHas(k) ==
  /\ res' = IF ~tx.open THEN <<"txdone", FALSE>> ELSE <<"none", TxView[k] # Absent>>
  /\ UNCHANGED <<store, snaps, its, tx, mode, ro, limbo>>

\* outcome "ok": all writes become visible at once; "fail": nothing changes, the transaction stays open.
TxCommit(outcome) ==
  /\ IF ~tx.open
     THEN res' = <<IF mode = "closed" THEN "closed" ELSE "txdone">> /\ UNCHANGED <<store, tx, limbo>>
     ELSE IF outcome = "ok"
     THEN /\ res' = <<"none">>
          /\ store' = TxView
          /\ tx' = NoTx
          /\ limbo' = IF limbo.log = <<>> THEN limbo     \* a commit is a write like any other for the limbo replay
                      ELSE [limbo EXCEPT !.log = Append(@, [ops |-> OvSeq, st |-> "ok"])]
     ELSE /\ res' = <<"fail">> /\ UNCHANGED <<store, tx, limbo>>
  /\ UNCHANGED <<snaps, its, mode, ro>>

TxDiscard ==
  /\ tx' = NoTx
  /\ res' = <<"none">>
  /\ UNCHANGED <<store, snaps, its, mode, ro, limbo>>

-----------------------------------------------------------------------------
(* Lifecycle (C18) *)

Close ==
  /\ res' = <<IF mode = "closed" THEN "closed" ELSE "none">>
  /\ mode' = "closed"
  /\ tx' = NoTx                                            \* an open transaction is discarded
  /\ snaps' = [h \in Dom(snaps) |-> [snaps[h] EXCEPT !.gone = TRUE]]
  /\ UNCHANGED <<store, its, ro, limbo>>

\* Reopen after a clean Close: contents are kept; limbo writes are decided.
Reopen(readonly) ==
  /\ mode = "closed"
  /\ mode' = "open"
  /\ ro' = readonly
  /\ \E keep \in SUBSET {i \in 1 .. Len(limbo.log) : limbo.log[i].st = "limbo"} :
       store' = IF limbo.log = <<>> THEN store ELSE Replay(limbo.base, limbo.log, keep)
  /\ limbo' = NoLimbo
  /\ its' = [h \in Dom(its) |-> [its[h] EXCEPT !.rel = TRUE]]
  /\ res' = <<"none">>
  /\ UNCHANGED <<snaps, tx>>

SetReadOnly ==
  /\ res' = <<IF mode = "closed" THEN "closed" ELSE "none">>
  /\ ro' = (ro \/ mode = "open")
  /\ UNCHANGED <<store, snaps, its, tx, mode, limbo>>


\* A second Open on a storage whose owner has not closed it must be refused (C18).
SecondOpen ==
  /\ res' = <<IF mode = "open" THEN "locked" ELSE "none">>
  /\ UNCHANGED <<store, snaps, its, tx, mode, ro, limbo>>

\* Storage activity observed by the checker's storage over an interval in which the
\* contract allows none: `what` = "mut" (mutating operations while read-only and
\* drained) or "any" (any operation after Close returned).  Enabled only if none occurred.
StorageQuiet(what, count) ==
  /\ (what = "mut" /\ (ro \/ mode = "closed")) \/ (what = "any" /\ mode = "closed") => count = 0
  /\ res' = <<"quiet">>
  /\ UNCHANGED <<store, snaps, its, tx, mode, ro, limbo>>

\* C20: the model has no buffers.  A caller-visible buffer (argument after the call
\* returned, iterator key/value until the next move) must be found intact.
BufferIntact(same) ==
  /\ same
  /\ res' = <<"intact">>
  /\ UNCHANGED <<store, snaps, its, tx, mode, ro, limbo>>


\* C08: under storage faults a call may fail outright.  A failed read, compaction,
\* OpenTransaction, transaction write or Reopen returns an error and changes nothing
\* (a failed transaction write leaves the overlay as it was: the client must discard).
FailedCall ==
  /\ res' = <<"fail">>
  /\ UNCHANGED <<store, snaps, its, tx, mode, ro, limbo>>

\* Close that reports a storage error still closes.
CloseFailed ==
  /\ mode = "open"
  /\ res' = <<"fail">>
  /\ mode' = "closed"
  /\ tx' = NoTx
  /\ snaps' = [h \in Dom(snaps) |-> [snaps[h] EXCEPT !.gone = TRUE]]
  /\ UNCHANGED <<store, its, ro, limbo>>

=============================================================================
