------------------------------ MODULE KVMC ------------------------------
(* Exhaustive check of the KV contract's internal consistency on small constants. *)
EXTENDS KV

(* Model-checking wrapper: small constants, fresh value per write.          *)

CONSTANTS MaxVal, Hs, MaxLimbo   \* value budget, handle set, bound on the limbo log
VARIABLE nv              \* next fresh value

OpsOver == {<<>>} \cup {<<<<k, v>>>> : k \in Keys, v \in {Absent, nv}}
                  \cup {<< <<k1, nv>>, <<k2, Absent>> >> : k1 \in Keys, k2 \in Keys}

MCNext ==
  \/ /\ nv <= MaxVal /\ nv' = nv + 1
     /\ \/ \E ops \in OpsOver, oc \in {"ok", "applied", "limbo"} : Write(ops, oc)
        \/ \E ops \in OpsOver : TxWrite(ops)
  \/ /\ UNCHANGED nv
     /\ \/ \E k \in Keys : Get(k) \/ Has(k) \/ TxGet(k) \/ TxHas(k)
        \/ Compact \/ FailedCall \/ CloseFailed \/ Misc \/ SecondOpen \/ OpenTx \/ TxDiscard \/ Close \/ SetReadOnly
        \/ \E oc \in {"ok", "fail"} : TxCommit(oc)
        \/ \E r \in BOOLEAN : Reopen(r)
        \/ \E h \in Hs : GetSnapshot(h) \/ SnapRelease(h) \/ IterRelease(h)
        \/ \E h \in Hs, k \in Keys : SnapGet(h, k) \/ SnapHas(h, k)
        \/ \E h \in Hs, src \in {"db", "snap", "tx"}, sh \in Hs, lo \in 0 .. NK, hi \in 0 .. NK :
              NewIter(h, src, sh, lo, hi)
        \/ \E h \in Hs, mv \in {"first", "last", "next", "prev"} : IterMove(h, mv, 0)
        \/ \E h \in Hs, x \in 0 .. NK : IterMove(h, "seek", x)

MCInit == KVInit /\ nv = 1
MCSpec == MCInit /\ [][MCNext]_<<kvvars, nv>>

\* Internal consistency of the contract.
TypeOK ==
  /\ store \in [Keys -> 0 .. (MaxVal + 1)]
  /\ mode \in {"open", "closed"}
  /\ \A h \in Dom(its) : its[h].pos \in (Keys \cup {SOI, EOI})

\* C03: a view never changes once taken (action property).
ViewsFrozen ==
  [][ /\ \A h \in Dom(snaps) : h \in Dom(snaps') /\ snaps'[h].view = snaps[h].view
      /\ \A h \in Dom(its)   : h \in Dom(its')   /\ its'[h].view = its[h].view ]_<<kvvars, nv>>

\* C02: a valid cursor sits on a live key of its view inside its range.
CursorOnLive ==
  \A h \in Dom(its) : LET c == its[h] IN
     c.pos \in Keys => (c.view[c.pos] # Absent /\ c.lo <= c.pos /\ c.pos < c.hi)

\* C11: while a transaction is open the store does not change (writers excluded).
TxExcludes == [][tx.open /\ tx'.open => store' = store]_<<kvvars, nv>>

\* C18: nothing but Reopen leaves the closed mode.
ClosedStays == [][mode = "closed" /\ mode' = "open" => limbo' = NoLimbo]_<<kvvars, nv>>

MCConstraint == nv <= MaxVal + 1 /\ Len(limbo.log) <= MaxLimbo
MCView == <<store, snaps, its, tx, mode, ro, limbo, nv>>   \* `res` is output only
=============================================================================
