SPECIFICATION MCSpec
CONSTANTS
  NK = 2
  MaxVal = 2
  Hs = {1}
  MaxLimbo = 2
CONSTRAINT MCConstraint
VIEW MCView
INVARIANTS TypeOK CursorOnLive
PROPERTIES ViewsFrozen TxExcludes ClosedStays
CHECK_DEADLOCK FALSE
