SPECIFICATION MCSpec
CONSTANTS
  NK = 2
  MaxVal = 3
  Hs = {1}
  MaxLimbo = 1
CONSTRAINT MCConstraint
VIEW MCView
INVARIANTS TypeOK CursorOnLive
PROPERTIES ViewsFrozen TxExcludes ClosedStays
CHECK_DEADLOCK FALSE
