----------------------------- MODULE KVTrace -----------------------------
(***************************************************************************)
(* Trace specification: every call the drivers made on the REAL DB, with   *)
(* its recorded reply, must be a step of KV.tla.  One NDJSON line per      *)
(* completed call (the drivers that use this module are sequential, so the *)
(* linearization point is the call's return).  A line that no KV action    *)
(* with the recorded reply can explain stops the trace there: the check    *)
(* reports that line.  Failed writes branch ("applied" now / "limbo"), so  *)
(* acceptance is "some branch consumes every line" (high-water mark).      *)
(***************************************************************************)
EXTENDS KV, Json, IOUtils

Trace == ndJsonDeserialize(IOEnv.TRACE)

VARIABLE l
tvars == <<kvvars, l>>

E == Trace[l]
Is(name) == E.ev = name

Reset ==
  /\ Is("reset")
  /\ store' = [k \in Keys |-> Absent]
  /\ snaps' = <<>> /\ its' = <<>> /\ tx' = NoTx
  /\ mode' = "open" /\ ro' = (E.ro = 1) /\ limbo' = NoLimbo
  /\ res' = <<"reset">>

TWrite ==
  /\ Is("write")
  /\ \E oc \in (IF E.err = "fail" THEN {"applied", "limbo"} ELSE {"ok"}) : Write(E.ops, oc)
  /\ res'[1] = E.err

TGet     == Is("get")     /\ Get(E.k)          /\ res' = <<E.err, E.v>>
THas     == Is("has")     /\ Has(E.k)          /\ res' = <<E.err, E.r = 1>>
TCompact == Is("compact") /\ Compact /\ (res'[1] = E.err \/ (res'[1] = "ro-any" /\ E.err \in {"none", "readonly"}))
TMisc    == Is("misc")    /\ Misc              /\ res' = <<E.err>>
TSnap    == Is("snap")    /\ GetSnapshot(E.h)  /\ res' = <<E.err>>
ErrIs(r, e) == r = e \/ (r = "gone" /\ e \in {"closed", "released"})
TSnapGet == Is("snapget") /\ SnapGet(E.h, E.k) /\ ErrIs(res'[1], E.err) /\ res'[2] = E.v
TSnapHas == Is("snaphas") /\ SnapHas(E.h, E.k) /\ ErrIs(res'[1], E.err) /\ res'[2] = (E.r = 1)
TSnapRel == Is("snaprel") /\ SnapRelease(E.h)
TIterNew == Is("iternew") /\ NewIter(E.h, E.src, E.sh, E.lo, E.hi) /\ res' = <<E.err>>
TIter    == Is("iter")    /\ IterMove(E.h, E.mv, E.arg) /\ res' = <<E.ok = 1, E.k, E.v>>
TIterRel == Is("iterrel") /\ IterRelease(E.h)
TTxOpen  == Is("txopen")  /\ OpenTx            /\ res' = <<E.err>>
TTxWrite == Is("txwrite") /\ TxWrite(E.ops)    /\ res' = <<E.err>>
TTxGet   == Is("txget")   /\ TxGet(E.k)        /\ res' = <<E.err, E.v>>
TTxHas   == Is("txhas")   /\ TxHas(E.k)        /\ res' = <<E.err, E.r = 1>>
TTxCommit == Is("txcommit") /\ TxCommit(IF E.err = "fail" THEN "fail" ELSE "ok") /\ res' = <<E.err>>
TTxDiscard == Is("txdiscard") /\ TxDiscard
TClose   == Is("close")   /\ Close             /\ res' = <<E.err>>
TReopen  == Is("reopen")  /\ Reopen(E.ro = 1)  /\ res' = <<E.err>>
TSetRO   == Is("setro")   /\ SetReadOnly       /\ res' = <<E.err>>
TOpen2   == Is("open2")   /\ SecondOpen        /\ res' = <<E.err>>
TQuiet   == Is("quiet")   /\ StorageQuiet(E.what, E.count)
TIntact  == Is("intact")  /\ BufferIntact(E.same = 1)
\* C08: calls that failed under an injected storage fault
TFailed  == /\ E.ev \in {"get", "has", "compact", "txopen", "txwrite", "txget", "txhas", "reopen", "misc", "snap", "snapget", "snaphas"}
            /\ E.err = "fail"
            /\ FailedCall
TCloseF  == Is("close") /\ E.err = "fail" /\ CloseFailed
\* informational lines (layout steering, option rows): no contract step
TNote    == Is("note")    /\ UNCHANGED kvvars

TraceInit == KVInit /\ l = 1 /\ TLCSet(1, 1)

KVStep ==
     \/ Reset \/ TWrite \/ TGet \/ THas \/ TCompact
     \/ TSnap \/ TSnapGet \/ TSnapHas \/ TSnapRel
     \/ TIterNew \/ TIter \/ TIterRel
     \/ TTxOpen \/ TTxWrite \/ TTxGet \/ TTxHas \/ TTxCommit \/ TTxDiscard
     \/ TClose \/ TReopen \/ TSetRO \/ TNote \/ TFailed \/ TCloseF \/ TMisc \/ TOpen2 \/ TQuiet \/ TIntact

Advance == l <= Len(Trace) /\ l' = l + 1
\* evaluated only after the step's own conjuncts held: the register is the highest line number reached
Mark    == TLCSet(1, IF TLCGet(1) < l' THEN l' ELSE TLCGet(1))

TraceNext == Advance /\ KVStep /\ Mark

TraceSpec == TraceInit /\ [][TraceNext]_tvars

\* `res` and nothing else is output-only; keep it out of the fingerprint.
TraceView == <<store, snaps, its, tx, mode, ro, limbo, l>>

\* Reported to the orchestrator: high-water mark, trace length, and the line
\* that could not be explained (if any).
Report ==
  /\ PrintT(<<"VERIF-HWM", TLCGet(1), Len(Trace)>>)
  /\ IF TLCGet(1) <= Len(Trace) THEN PrintT(<<"VERIF-STUCK", Trace[TLCGet(1)]>>) ELSE TRUE
=============================================================================
