------------------------------- MODULE LSM -------------------------------
(***************************************************************************)
(* The engine: how goleveldb provides the ordered-map contract.            *)
(* Transcribes db_write.go (apply + publish), db_state.go (newMem / drop   *)
(* frozen), db_compaction.go (memCompaction; tableCompactionBuilder.run's  *)
(* drop rule with lastSeq, minSeq and baseLevelForKey; output cut only at  *)
(* user-key boundaries), session_compaction.go (level-0 closure, next-     *)
(* level overlap), version.go get (mem, frozen, level 0 newest, first hit  *)
(* below) and db_snapshot.go minSeq.  Value id of a write = its sequence   *)
(* number.  Invariants: ReadOK (C01, C03: the implemented lookup equals    *)
(* the model for the current and every live snapshot sequence) and the     *)
(* C06 laws of LSMLaws.tla on every reachable version.                     *)
(***************************************************************************)
EXTENDS Naturals, FiniteSets, Sequences, TLC, FiniteSetsExt, LSMLaws
CONSTANTS NKeys, MaxSeq, MaxLevel, MaxSnaps, MaxOut
Keys == 1..NKeys
Levels == 0..MaxLevel
VARIABLES seq, mem, imm, lv, snaps, hist
vars == <<seq, mem, imm, lv, snaps, hist>>
\* entry: [k, s, d]  d=TRUE tombstone. value id = s.
Ent(k, s, d) == [k |-> k, s |-> s, d |-> d]

Init == /\ seq = 0 /\ mem = {} /\ imm = {} /\ lv = [l \in Levels |-> {}]
        /\ snaps = {} /\ hist = <<>>

\* ---------- model ----------
ModelAt(k, s) == LET idx == {i \in 1..Len(hist) : i <= s /\ hist[i].k = k}
                 IN IF idx = {} THEN 0
                    ELSE LET m == Max(idx) IN IF hist[m].d THEN 0 ELSE m

\* ---------- lookup as implemented ----------
NewestLE(E, k, s) == LET c == {e \in E : e.k = k /\ e.s <= s} IN
                     IF c = {} THEN <<FALSE, 0>>
                     ELSE LET m == CHOOSE e \in c : \A f \in c : f.s <= e.s
                          IN <<TRUE, IF m.d THEN 0 ELSE m.s>>
RECURSIVE LookupLv(_, _, _)
LookupLv(l, k, s) ==
  IF l > MaxLevel THEN 0
  ELSE LET cand == UNION {t \in lv[l] : InRange(t, k)}
           r == NewestLE(cand, k, s)
       IN IF r[1] THEN r[2] ELSE LookupLv(l+1, k, s)
Lookup(k, s) ==
  LET a == NewestLE(mem, k, s) IN IF a[1] THEN a[2] ELSE
  LET b == NewestLE(imm, k, s) IN IF b[1] THEN b[2] ELSE LookupLv(0, k, s)

\* ---------- actions ----------
Write(k, d) == /\ seq < MaxSeq /\ seq' = seq + 1
               /\ mem' = mem \cup {Ent(k, seq+1, d)}
               /\ hist' = Append(hist, [k |-> k, d |-> d])
               /\ UNCHANGED <<imm, lv, snaps>>
Rotate == /\ imm = {} /\ mem # {} /\ imm' = mem /\ mem' = {}
          /\ UNCHANGED <<seq, lv, snaps, hist>>
Flush == /\ imm # {} /\ lv' = [lv EXCEPT ![0] = @ \cup {imm}] /\ imm' = {}
         /\ UNCHANGED <<seq, mem, snaps, hist>>
SnapAcq == /\ Cardinality(snaps) < MaxSnaps /\ snaps' = snaps \cup {seq}
           /\ UNCHANGED <<seq, mem, imm, lv, hist>>
SnapRel == /\ \E s \in snaps : snaps' = snaps \ {s}
           /\ UNCHANGED <<seq, mem, imm, lv, hist>>

MinSeq == IF snaps = {} THEN seq ELSE Min(snaps)
Overlap(t, lo, hi) == ~(KMax(t) < lo \/ KMin(t) > hi)
\* level-0 expansion: closure under overlap
RECURSIVE Close0(_, _)
Close0(T, all) == LET lo == Min({KMin(t) : t \in T}) hi == Max({KMax(t) : t \in T})
                      T2 == {t \in all : Overlap(t, lo, hi)}
                  IN IF T2 = T THEN T ELSE Close0(T2, all)
\* base level for key: no deeper level (> l+1) table covers k
BaseLevel(l, k) == \A j \in Levels : j > l + 1 => \A t \in lv[j] : ~InRange(t, k)
\* drop rule of tableCompactionBuilder.run
Kept(E, l, minSeq) ==
  {e \in E :
     LET newer == {f \in E : f.k = e.k /\ f.s > e.s}
         lastSeq == IF newer = {} THEN MaxSeq + 10 ELSE Min({f.s : f \in newer})
     IN ~( lastSeq <= minSeq
           \/ (e.d /\ e.s <= minSeq /\ BaseLevel(l, e.k)) ) }
\* NOTE: real code: lastSeq is seq of previous *iterated* entry of same ukey (dropped or not) = next newer entry.
\* split kept entries into <= MaxOut tables at user-key boundaries
Splits(E) == IF E = {} THEN {{}}
             ELSE {{E}} \cup
                  (IF MaxOut >= 2 THEN
                     {{ {e \in E : e.k <= c}, {e \in E : e.k > c} } : c \in {k \in Keys : (\E e \in E : e.k <= k) /\ (\E e \in E : e.k > k)}}
                   ELSE {})
Compact(l) ==
  /\ l < MaxLevel /\ lv[l] # {}
  /\ \E t0 \in lv[l] :
       LET T0 == IF l = 0 THEN Close0({t0}, lv[0]) ELSE {t0}
           lo == Min({KMin(t) : t \in T0}) hi == Max({KMax(t) : t \in T0})
           T1 == {t \in lv[l+1] : Overlap(t, lo, hi)}
           E  == UNION (T0 \cup T1)
           K  == Kept(E, l, MinSeq)
       IN \E out \in Splits(K) :
            lv' = [lv EXCEPT ![l] = @ \ T0, ![l+1] = (@ \ T1) \cup out]
  /\ UNCHANGED <<seq, mem, imm, snaps, hist>>

Next == \/ \E k \in Keys, d \in BOOLEAN : Write(k, d)
        \/ Rotate \/ Flush \/ SnapAcq \/ SnapRel
        \/ \E l \in Levels : Compact(l)
Spec == Init /\ [][Next]_vars

\* ---------- properties ----------
ReadOK == \A k \in Keys : \A s \in snaps \cup {seq} : Lookup(k, s) = ModelAt(k, s)
Disjoint == DisjointOf(lv, Levels)
NoEmpty == NoEmptyOf(lv, Levels)
Recency == RecencyOf(lv, Levels)
LSMView == <<seq, mem, imm, lv, snaps, [i \in 1 .. Len(hist) |-> hist[i]]>>
MemNewest == \A e \in mem : \A f \in imm \cup UNION UNION {lv[l] : l \in Levels} : e.k = f.k => e.s > f.s
=============================================================================
