------------------------------ MODULE LSMLaws ------------------------------
(***************************************************************************)
(* C06: what "the live table set is a well-formed LSM tree" means, as      *)
(* predicates over (level -> set of tables), a table being a non-empty set *)
(* of entries [k, s, d] (key rank, sequence number, tombstone flag).       *)
(* Shared by the design specification LSM.tla (TLC checks them in every    *)
(* reachable state of the model) and by LSMTrace.tla (TLC checks them on   *)
(* every version the REAL DB installs).                                    *)
(***************************************************************************)
EXTENDS Integers, FiniteSets, Sequences

MinS(S) == CHOOSE x \in S : \A y \in S : x <= y
MaxS(S) == CHOOSE x \in S : \A y \in S : x >= y
KMin(t) == MinS({e.k : e \in t})
KMax(t) == MaxS({e.k : e \in t})
InRange(t, k) == KMin(t) <= k /\ k <= KMax(t)

\* below level 0 no user key spans two files: files cover pairwise disjoint key ranges
DisjointOf(L, Lvls) ==
  \A l \in Lvls : l > 0 => \A a, b \in L[l] : a # b => (KMax(a) < KMin(b) \/ KMax(b) < KMin(a))

NoEmptyOf(L, Lvls) == \A l \in Lvls : {} \notin L[l]

\* for any user key every entry in a shallower level is newer than every entry in a deeper level
RecencyOf(L, Lvls) ==
  \A l1, l2 \in Lvls : l1 < l2 =>
    \A a \in L[l1], b \in L[l2] : \A e \in a, f \in b : e.k = f.k => e.s > f.s

\* entries of a file in internal order: key ascending, then sequence number descending, strictly
InternalLess(x, y) == x[1] < y[1] \/ (x[1] = y[1] /\ (x[2] > y[2] \/ (x[2] = y[2] /\ x[3] > y[3])))
SortedFile(ents) == \A i \in 1 .. (Len(ents) - 1) : InternalLess(ents[i], ents[i+1])
=============================================================================
