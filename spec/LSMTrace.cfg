SPECIFICATION LSMSpec
CONSTANT NK = 64
VIEW LSMView
POSTCONDITION Report
CHECK_DEADLOCK FALSE
