----------------------------- MODULE LSMTrace -----------------------------
(***************************************************************************)
(* C06 and C07 on the REAL DB.  Besides the client calls (KVTrace lines,   *)
(* validated against KV.tla as always: readers held across compactions     *)
(* keep returning their frozen view), the trace carries what the hooks saw *)
(* at the linearization points:                                            *)
(*   install   session.setVersion (under vmu): the new version's levels,   *)
(*             and for every table not announced before: recorded size and *)
(*             smallest/largest key, existence and size of the file, and   *)
(*             its entries read back from the file by the harness          *)
(*   vref      the reference loop received ref(vid) / rel(vid)             *)
(*   stremove  the storage removed a table file                            *)
(*   settled   readers released, background work drained: storage listing  *)
(*             versus what the DB still needs                              *)
(*   reclaimed after delete-all + full compaction: table bytes left        *)
(* Monitors = the property statements (LSMLaws.tla for C06).               *)
(***************************************************************************)
EXTENDS KVTrace, LSMLaws

VARIABLES
  tabs,     \* num -> set of entries [k, s, d]          (every table announced so far and not removed)
  vfiles,   \* vid -> set of table numbers             (versions of the current session)
  vlevels,  \* vid -> levels (sequence of sequences of table numbers) of the versions of the current session
  cur,      \* id of the current version (-1: none)
  pinned,   \* vids the reference loop holds as referenced and not yet released
  snapref,  \* sequence number -> number of live snapshot references (db_snapshot.go list), from the s:acq / s:rel hooks
  pubseq    \* upper bound of the published sequence number (logged before it is advanced)
lvars == <<tvars, tabs, vfiles, vlevels, cur, pinned, snapref, pubseq>>

Dom2(f) == DOMAIN f
Ext2(f, x, v) == [y \in Dom2(f) \cup {x} |-> IF y = x THEN v ELSE f[y]]
SeqSet(s) == {s[i] : i \in 1 .. Len(s)}
EntSet(ents) == {[k |-> ents[i][1], s |-> ents[i][2], d |-> ents[i][3] = 0] : i \in 1 .. Len(ents)}

\* C06, per file: exists with its recorded size, strictly ordered, recorded bounds = first and last entry
FileOK(t) ==
  /\ t.exists = 1 /\ t.fsize = t.size /\ t.corrupt = 0
  /\ Len(t.ents) > 0
  /\ SortedFile(t.ents)
  /\ t.imin = t.ents[1] /\ t.imax = t.ents[Len(t.ents)]
  /\ \A i \in 1 .. Len(t.ents) : t.ents[i][1] >= 0          \* only keys that were written

\* files of a level below 0 are listed in key order
OrderedLevel(T, nums) ==
  \A i \in 1 .. (Len(nums) - 1) : KMax(T[nums[i]]) < KMin(T[nums[i+1]])

\* version.go versionStaging (commit + finish): the version installed by an edit is exactly the previous version
\* minus the tables the edit deletes plus the tables it adds, level by level (the manifest records the same edit,
\* so this is also what a later Open rebuilds).  Checked whenever the previous version of this session is known.
LevelSet(levels, lx) == IF lx + 1 <= Len(levels) THEN SeqSet(levels[lx + 1]) ELSE {}
EditApplied(e) ==
  IF e.hasrec = 1 /\ e.old > 0 /\ e.old \in Dom2(vlevels)     \* (old = 0: the empty version a session starts from; recovery installs the manifest's whole content on it)
  THEN LET oldL == vlevels[e.old]
           maxl == IF Len(oldL) > Len(e.levels) THEN Len(oldL) ELSE Len(e.levels)
           addS(lx) == {e.add[i][2] : i \in {j \in 1 .. Len(e.add) : e.add[j][1] = lx}}
           delS(lx) == {e.del[i][2] : i \in {j \in 1 .. Len(e.del) : e.del[j][1] = lx}}
       IN \A lx \in 0 .. (maxl - 1) :
            LevelSet(e.levels, lx) = (LevelSet(oldL, lx) \ delS(lx)) \cup addS(lx)
  ELSE TRUE

TInstall ==
  /\ Is("install")
  /\ \A i \in 1 .. Len(E.tabs) : FileOK(E.tabs[i])
  /\ LET T == [n \in Dom2(tabs) \cup {E.tabs[i].num : i \in 1 .. Len(E.tabs)} |->
                 IF \E i \in 1 .. Len(E.tabs) : E.tabs[i].num = n
                 THEN EntSet(E.tabs[CHOOSE i \in 1 .. Len(E.tabs) : E.tabs[i].num = n].ents)
                 ELSE tabs[n]]
         Lv == 0 .. (Len(E.levels) - 1)
         nums == UNION {SeqSet(E.levels[lx + 1]) : lx \in Lv}
         L == [lx \in Lv |-> {T[n] : n \in SeqSet(E.levels[lx + 1])}]
     IN /\ nums \subseteq Dom2(T)                             \* every live table is known (exists)
        /\ NoEmptyOf(L, Lv)
        /\ DisjointOf(L, Lv)
        /\ \A lx \in Lv : lx > 0 => OrderedLevel(T, E.levels[lx + 1])
        /\ RecencyOf(L, Lv)
        /\ EditApplied(E)
        /\ tabs' = T
        /\ vfiles' = Ext2(vfiles, E.new, nums)
        /\ vlevels' = Ext2(vlevels, E.new, E.levels)
        /\ cur' = E.new
  /\ UNCHANGED <<kvvars, pinned, snapref, pubseq>>

TVRef ==
  /\ Is("vref")
  /\ pinned' = IF E.kind = "ref" THEN pinned \cup {E.vid} ELSE pinned \ {E.vid}
  /\ UNCHANGED <<kvvars, tabs, vfiles, vlevels, cur, snapref, pubseq>>

Needed == (IF cur \in Dom2(vfiles) THEN vfiles[cur] ELSE {})
          \cup UNION {vfiles[v] : v \in pinned \cap Dom2(vfiles)}

\* C07: a file the current version or a still-referenced version names is never removed
TStRemove ==
  /\ Is("stremove")
  /\ E.num \notin Needed
  /\ tabs' = [n \in Dom2(tabs) \ {E.num} |-> tabs[n]]
  /\ UNCHANGED <<kvvars, vfiles, vlevels, cur, pinned, snapref, pubseq>>

TSessionEnd ==
  /\ Is("session-end")
  /\ vfiles' = <<>> /\ vlevels' = <<>> /\ cur' = -1 /\ pinned' = {} /\ snapref' = <<>>
  /\ UNCHANGED <<kvvars, tabs, pubseq>>

\* C07: once readers are released and background work has settled, storage holds nothing
\* but the live tables, the live journal(s), the live manifest
TSettled ==
  /\ Is("settled")
  /\ SeqSet(E.tables) = SeqSet(E.live)
  /\ SeqSet(E.journals) \subseteq {E.jcur, E.jfrozen}
  /\ SeqSet(E.manifests) = {E.mcur}
  /\ UNCHANGED <<kvvars, tabs, vfiles, vlevels, cur, pinned, snapref, pubseq>>

TReclaimed ==
  /\ Is("reclaimed")
  /\ E.bytes <= E.bound
  /\ UNCHANGED <<kvvars, tabs, vfiles, vlevels, cur, pinned, snapref, pubseq>>

\* A table compaction about to run (session_compaction.go: pickCompaction / getCompactionRange / expand), picked on
\* version E.vid: its inputs must be closed - at level 0 every table overlapping the inputs' key range is an input
\* (otherwise an older entry would stay above a newer one), and every table of the next level overlapping that
\* range is an input (otherwise the output would overlap it).  These are the preconditions of the C06 laws.
Overlaps(t, lo, hi) == ~(KMax(t) < lo \/ KMin(t) > hi)
\* db_snapshot.go: the list of live snapshot sequence numbers, and the published sequence number
LiveSnaps == {q \in Dom2(snapref) : snapref[q] > 0}
TEng ==
  /\ Is("eng")
  /\ snapref' = IF E.h = "s:acq" THEN Ext2(snapref, E.seq, (IF E.seq \in Dom2(snapref) THEN snapref[E.seq] ELSE 0) + 1)
                ELSE IF E.h = "s:rel" /\ E.seq \in Dom2(snapref)
                     THEN (IF snapref[E.seq] <= 1 THEN [q \in Dom2(snapref) \ {E.seq} |-> snapref[q]]
                           ELSE [snapref EXCEPT ![E.seq] = @ - 1])
                ELSE snapref
  /\ pubseq' = IF E.h \in {"w:publish-begin", "tx:publish-begin"} /\ E.seq > pubseq THEN E.seq ELSE pubseq
  /\ UNCHANGED <<kvvars, tabs, vfiles, vlevels, cur, pinned>>

\* C03's mechanism checked where it acts: a compaction must not treat as obsolete anything a live snapshot can
\* still see, i.e. the minSeq it runs with is never above the oldest live snapshot (nor above the published sequence).
\* (no bound from `pubseq`: discarding a transaction and journal recovery advance the sequence number without a publication)
MinSeqOK(e) == \A q \in LiveSnaps : e.minseq <= q

TCompaction ==
  /\ Is("compaction")
  /\ (E.trivial = 0 => MinSeqOK(E))
  /\ IF E.vid \in Dom2(vlevels) /\ E.level + 2 <= Len(vlevels[E.vid]) /\ Len(E.in0) > 0
        /\ (SeqSet(E.in0) \cup SeqSet(E.in1)) \subseteq Dom2(tabs)
     THEN LET L0 == SeqSet(vlevels[E.vid][E.level + 1])
              L1 == SeqSet(vlevels[E.vid][E.level + 2])
              I0 == SeqSet(E.in0)
              I1 == SeqSet(E.in1)
              lo == MinS({KMin(tabs[n]) : n \in I0})
              hi == MaxS({KMax(tabs[n]) : n \in I0})
          IN /\ I0 \subseteq L0 /\ I1 \subseteq L1
             /\ E.level = 0 => \A n \in (L0 \ I0) \cap Dom2(tabs) : ~Overlaps(tabs[n], lo, hi)
             /\ E.trivial = 0 => \A n \in (L1 \ I1) \cap Dom2(tabs) : ~Overlaps(tabs[n], lo, hi)
             /\ E.trivial = 1 => \A n \in L1 \cap Dom2(tabs) : ~Overlaps(tabs[n], lo, hi)
     ELSE TRUE
  /\ UNCHANGED <<kvvars, tabs, vfiles, vlevels, cur, pinned, snapref, pubseq>>

LReset == Reset /\ tabs' = <<>> /\ vfiles' = <<>> /\ vlevels' = <<>> /\ cur' = -1 /\ pinned' = {} /\ snapref' = <<>> /\ pubseq' = 0

LSMInit == TraceInit /\ tabs = <<>> /\ vfiles = <<>> /\ vlevels = <<>> /\ cur = -1 /\ pinned = {} /\ snapref = <<>> /\ pubseq = 0

LSMNext ==
  /\ Advance
  /\ \/ LReset
     \/ TInstall \/ TVRef \/ TStRemove \/ TSessionEnd \/ TSettled \/ TReclaimed
     \/ TCompaction \/ TEng
     \/ (~Is("reset") /\ KVStep /\ UNCHANGED <<tabs, vfiles, vlevels, cur, pinned, snapref, pubseq>>)
  /\ Mark

LSMSpec == LSMInit /\ [][LSMNext]_lvars
LSMView == <<TraceView, cur, pinned, Dom2(tabs)>>
=============================================================================
