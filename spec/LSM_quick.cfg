CONSTANTS NKeys = 2  MaxSeq = 4  MaxLevel = 2  MaxSnaps = 1  MaxOut = 2
SPECIFICATION Spec
INVARIANTS ReadOK Disjoint NoEmpty Recency MemNewest
CHECK_DEADLOCK FALSE
