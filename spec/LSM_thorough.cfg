CONSTANTS NKeys = 2  MaxSeq = 5  MaxLevel = 2  MaxSnaps = 2  MaxOut = 2
SPECIFICATION Spec
INVARIANTS ReadOK Disjoint NoEmpty Recency MemNewest
CHECK_DEADLOCK FALSE
