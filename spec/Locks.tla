------------------------------- MODULE Locks -------------------------------
(* Who holds what, and who waits for whom: write lock (writeLockC), commit lock
   (compCommitLk), transaction mutex (tr.lk), memdb-compaction goroutine with
   its command/ack channel, transient error state (compErrC), Close.
   Transcribed from db_write.go, db_transaction.go, db_compaction.go, db.go
   AS CODED; the Fix* constants switch individual repairs on. *)
EXTENDS Naturals, FiniteSets, Sequences, TLC
CONSTANTS Writers, Faults, FixF3, FixF6, FixF7, FixF8, FixF9, FixF30, LargeBatch, WithClose, Sticky, KComp, WithSetRO
VARIABLES pc, lock, commitLk, trLk, tr, closed, errState, faults, poisoned,
          frozen, mcmd, result, tries, kleft
vars == <<pc, lock, commitLk, trLk, tr, closed, errState, faults, poisoned, frozen, mcmd, result, tries, kleft>>
\* processes
T == "T"  M == "M"  C == "C"  K == "K"  S == "S"   \* S: a client calling SetReadOnly; "E": the compaction-error goroutine holding the write lock for a read-only DB
\*   \* K: the table-compaction goroutine (KComp commits; runs at any time, also while a transaction is open)
Clients == Writers \cup {T}
NoCmd == [from |-> "none", ack |-> FALSE, st |-> "none"]
\* mcmd: the (single) outstanding command M is working on; st: "sent" | "acked" | "ackclosed"

Init == /\ pc = [p \in Clients \cup {M, C, K, S} |->
                   IF p \in Writers THEN "start" ELSE IF p = T THEN "t_start"
                   ELSE IF p = M THEN "m_idle" ELSE IF p = K THEN "k_idle"
                   ELSE IF p = S THEN (IF WithSetRO THEN "s_start" ELSE "done") ELSE IF WithClose THEN "c_idle" ELSE "c_off"]
        /\ kleft = KComp
        /\ lock = "free" /\ commitLk = "free" /\ trLk = "free" /\ tr = FALSE
        /\ closed = FALSE /\ errState = "none" /\ faults = Faults /\ poisoned = FALSE
        /\ frozen = FALSE /\ mcmd = NoCmd
        /\ result = [p \in Clients |-> "none"] /\ tries = 0

Set(p, s) == pc' = [pc EXCEPT ![p] = s]
Ret(p, r) == result' = [result EXCEPT ![p] = r]

(* ---------------- compTriggerWait(mcompCmdC) as seen by caller p ----------------
   phase 1 (send): M idle -> command delivered ; or compErrC has error ; or closed
   phase 2 (wait): ack ; or compErrC ; or closed                                   *)
SendCmd(p, next, onerr) ==
  \/ /\ pc[M] = "m_idle" /\ mcmd = NoCmd
     /\ mcmd' = [from |-> p, ack |-> TRUE, st |-> "sent"]
     /\ pc' = [pc EXCEPT ![M] = "m_run", ![p] = next]
     /\ UNCHANGED <<result, kleft>>
  \/ /\ errState # "none" /\ Set(p, onerr) /\ UNCHANGED <<mcmd, result, kleft>>
  \/ /\ closed /\ Set(p, onerr) /\ UNCHANGED <<mcmd, result, kleft>>
WaitAck(p, next, onerr) ==
  \/ /\ mcmd.from = p /\ mcmd.st = "acked" /\ mcmd' = NoCmd /\ Set(p, next)
  \/ /\ mcmd.from = p /\ mcmd.st = "ackclosed" /\ mcmd' = NoCmd /\ Set(p, onerr)
  \/ /\ errState # "none" /\ Set(p, onerr)
     /\ mcmd' = IF mcmd.from = p THEN [mcmd EXCEPT !.from = "gone"] ELSE mcmd  \* closed ack chan: ack() recovers from panic
  \/ /\ closed /\ Set(p, onerr)
     /\ mcmd' = IF mcmd.from = p THEN [mcmd EXCEPT !.from = "gone"] ELSE mcmd

(* ---------------- writers (merge protocol abstracted away; see WriteProto) ---------------- *)
WStart(w) ==
  /\ pc[w] = "start"
  /\ \/ /\ lock = "free" /\ lock' = w /\ Set(w, "w_flush") /\ UNCHANGED result
     \/ /\ closed /\ Set(w, "done") /\ Ret(w, "closed") /\ UNCHANGED lock
     \/ /\ lock = "E" /\ Set(w, "done") /\ Ret(w, "err") /\ UNCHANGED lock          \* compPerErrC: ErrReadOnly
  /\ UNCHANGED <<commitLk, trLk, tr, closed, errState, faults, poisoned, frozen, mcmd, tries, kleft>>
\* flush(): either room in memdb, or rotateMem: wait pending flush, newMem, trigger
WFlush(w) ==
  /\ pc[w] = "w_flush"
  /\ \/ Set(w, "w_apply")                       \* room available
     \/ Set(w, "w_rot_send")                    \* needs rotation
  /\ UNCHANGED <<lock, commitLk, trLk, tr, closed, errState, faults, poisoned, frozen, mcmd, result, tries, kleft>>
WRotSend(w) == /\ pc[w] = "w_rot_send" /\ SendCmd(w, "w_rot_wait", "w_fail")
               /\ UNCHANGED <<lock, commitLk, trLk, tr, closed, errState, faults, poisoned, frozen, tries, kleft>>
WRotWait(w) == /\ pc[w] = "w_rot_wait" /\ WaitAck(w, "w_newmem", "w_fail")
               /\ UNCHANGED <<lock, commitLk, trLk, tr, closed, errState, faults, poisoned, frozen, result, tries, kleft>>
WNewMem(w) ==  \* newMem + compTrigger (non-blocking)
  /\ pc[w] = "w_newmem" /\ ~frozen
  /\ frozen' = TRUE
  /\ IF pc[M] = "m_idle" /\ mcmd = NoCmd
       THEN /\ mcmd' = [from |-> "nobody", ack |-> FALSE, st |-> "sent"]
            /\ pc' = [pc EXCEPT ![M] = "m_run", ![w] = "w_apply"]
       ELSE /\ Set(w, "w_apply") /\ UNCHANGED mcmd
  /\ UNCHANGED <<lock, commitLk, trLk, tr, closed, errState, faults, poisoned, result, tries, kleft>>
WApply(w) ==   \* journal + memdb + seq, then unlockWrite
  /\ pc[w] = "w_apply" /\ lock' = "free" /\ Set(w, "done") /\ Ret(w, "ok")
  /\ UNCHANGED <<commitLk, trLk, tr, closed, errState, faults, poisoned, frozen, mcmd, tries, kleft>>
WFail(w) ==    \* unlockWrite(false, 0, err)
  /\ pc[w] = "w_fail" /\ lock' = "free" /\ Set(w, "done") /\ Ret(w, "err")
  /\ UNCHANGED <<commitLk, trLk, tr, closed, errState, faults, poisoned, frozen, mcmd, tries, kleft>>

(* ---------------- memdb compaction goroutine ---------------- *)
Fault == faults > 0
MRun ==
  /\ pc[M] = "m_run"
  /\ IF frozen THEN Set(M, "m_build") /\ UNCHANGED mcmd
     ELSE /\ mcmd' = IF mcmd.ack /\ mcmd.from \in Clients THEN [mcmd EXCEPT !.st = "acked"] ELSE NoCmd
          /\ Set(M, "m_idle")
  /\ UNCHANGED <<lock, commitLk, trLk, tr, closed, errState, faults, poisoned, frozen, result, tries, kleft>>
\* compactionTransact("memdb@flush"): run, report status to the error goroutine, retry
MBuild ==
  /\ pc[M] = "m_build"
  /\ IF closed THEN Set(M, "m_exit") /\ UNCHANGED <<errState, faults, kleft>>
     ELSE \/ /\ Fault /\ faults' = faults - 1 /\ errState' = "trans" /\ Set(M, "m_build")
          \/ /\ errState' = "none" /\ Set(M, "m_cl") /\ UNCHANGED faults
  /\ UNCHANGED <<lock, commitLk, trLk, tr, closed, poisoned, frozen, mcmd, result, tries, kleft>>
MCommitLock == /\ pc[M] = "m_cl" /\ commitLk = "free" /\ commitLk' = M /\ Set(M, "m_commit")
               /\ UNCHANGED <<lock, trLk, tr, closed, errState, faults, poisoned, frozen, mcmd, result, tries, kleft>>
MCommit ==
  /\ pc[M] = "m_commit"
  /\ IF closed THEN /\ commitLk' = "free" /\ Set(M, "m_exit") /\ UNCHANGED <<errState, faults, poisoned, frozen, kleft>>
     ELSE \/ /\ (Fault \/ poisoned)                                   \* manifest append/sync fails
             /\ faults' = IF poisoned THEN faults ELSE faults - 1
             /\ poisoned' = (poisoned \/ Sticky)
             \* as coded (F9) compactionCommit keeps compCommitLk across its retries; repaired: one attempt per acquisition
             /\ errState' = "trans" /\ UNCHANGED frozen
             /\ IF FixF9 THEN commitLk' = "free" /\ Set(M, "m_cl") ELSE Set(M, "m_commit") /\ UNCHANGED commitLk
          \/ /\ ~poisoned /\ errState' = "none" /\ commitLk' = "free" /\ frozen' = FALSE
             /\ Set(M, "m_ack") /\ UNCHANGED <<faults, poisoned, kleft>>
  /\ UNCHANGED <<lock, trLk, tr, closed, mcmd, result, tries, kleft>>
MAck ==
  /\ pc[M] = "m_ack"
  /\ mcmd' = IF mcmd.ack /\ mcmd.from \in Clients THEN [mcmd EXCEPT !.st = "acked"] ELSE NoCmd
  /\ Set(M, "m_idle")
  /\ UNCHANGED <<lock, commitLk, trLk, tr, closed, errState, faults, poisoned, frozen, result, tries, kleft>>
MIdleClose == /\ pc[M] = "m_idle" /\ closed /\ Set(M, "m_done")
              /\ UNCHANGED <<lock, commitLk, trLk, tr, closed, errState, faults, poisoned, frozen, mcmd, result, tries, kleft>>
MExit == /\ pc[M] = "m_exit"
         /\ mcmd' = IF mcmd.ack /\ mcmd.from \in Clients THEN [mcmd EXCEPT !.st = "ackclosed"] ELSE NoCmd
         /\ Set(M, "m_done")
         /\ UNCHANGED <<lock, commitLk, trLk, tr, closed, errState, faults, poisoned, frozen, result, tries, kleft>>


(* ---------------- table compaction goroutine: compactionCommit of a finished table compaction ---------------- *)
KStart == /\ pc[K] = "k_idle" /\ kleft > 0 /\ ~closed /\ Set(K, "k_cl")
          /\ UNCHANGED <<lock, commitLk, trLk, tr, closed, errState, faults, poisoned, frozen, mcmd, result, tries, kleft>>
KLock == /\ pc[K] = "k_cl"
         /\ IF closed THEN Set(K, "k_done") /\ UNCHANGED commitLk
            ELSE commitLk = "free" /\ commitLk' = K /\ Set(K, "k_commit")
         /\ UNCHANGED <<lock, trLk, tr, closed, errState, faults, poisoned, frozen, mcmd, result, tries, kleft>>
KCommit ==
  /\ pc[K] = "k_commit"
  /\ IF closed THEN /\ commitLk' = "free" /\ Set(K, "k_done") /\ UNCHANGED <<errState, faults, poisoned, kleft>>
     ELSE \/ /\ (Fault \/ poisoned)
             /\ faults' = IF poisoned THEN faults ELSE faults - 1
             /\ poisoned' = (poisoned \/ Sticky)
             /\ errState' = "trans" /\ UNCHANGED kleft
             /\ IF FixF9 THEN commitLk' = "free" /\ Set(K, "k_cl") ELSE Set(K, "k_commit") /\ UNCHANGED commitLk
          \/ /\ ~poisoned /\ errState' = "none" /\ commitLk' = "free" /\ kleft' = kleft - 1
             /\ Set(K, "k_idle") /\ UNCHANGED <<faults, poisoned>>
  /\ UNCHANGED <<lock, trLk, tr, closed, frozen, mcmd, result, tries>>
KIdleClose == /\ pc[K] = "k_idle" /\ closed /\ Set(K, "k_done")
              /\ UNCHANGED <<lock, commitLk, trLk, tr, closed, errState, faults, poisoned, frozen, mcmd, result, tries, kleft>>


(* ---------------- SetReadOnly: take the write lock, then hand it to the compaction-error goroutine ---------------- *)
SStart == /\ pc[S] = "s_start"
          /\ \/ /\ lock = "free" /\ lock' = S /\ Set(S, "s_set")
             \/ /\ closed /\ Set(S, "done") /\ UNCHANGED lock
          /\ UNCHANGED <<commitLk, trLk, tr, closed, errState, faults, poisoned, frozen, mcmd, result, tries, kleft>>
SSet ==   /\ pc[S] = "s_set"
          /\ \/ /\ ~closed /\ lock' = "E" /\ Set(S, "done")       \* compErrSetC <- ErrReadOnly: the error goroutine owns the lock now
             \/ /\ closed /\ Set(S, "done")                        \* <-closeC: ErrClosed; as coded (F30) the lock stays taken
                /\ lock' = IF FixF30 THEN "free" ELSE lock
          /\ UNCHANGED <<commitLk, trLk, tr, closed, errState, faults, poisoned, frozen, mcmd, result, tries, kleft>>
ERelease == /\ closed /\ lock = "E" /\ lock' = "free"               \* hasperr: <-closeC, compWriteLocking: release for Close
            /\ UNCHANGED <<pc, commitLk, trLk, tr, closed, errState, faults, poisoned, frozen, mcmd, result, tries, kleft>>

(* ---------------- transaction user (explicit, or DB.Write with an oversized batch) ---------------- *)
TStart ==
  /\ pc[T] = "t_start"
  /\ \/ /\ lock = "free" /\ lock' = T /\ Set(T, "t_pre") /\ UNCHANGED result
     \/ /\ closed /\ Set(T, "done") /\ Ret(T, "closed") /\ UNCHANGED lock
     \/ /\ lock = "E" /\ Set(T, "done") /\ Ret(T, "err") /\ UNCHANGED lock
  /\ UNCHANGED <<commitLk, trLk, tr, closed, errState, faults, poisoned, frozen, mcmd, tries, kleft>>
\* pre-flush: if memdb non-empty: rotateMem(0,true) = wait pending, newMem, wait again
TPre ==
  /\ pc[T] = "t_pre"
  /\ \/ Set(T, IF FixF3 THEN "t_s2" ELSE "t_open")   \* memdb empty: as coded no wait at all; repaired: wait for a pending flush
     \/ Set(T, "t_s1")
  /\ UNCHANGED <<lock, commitLk, trLk, tr, closed, errState, faults, poisoned, frozen, mcmd, result, tries, kleft>>
TS1 == /\ pc[T] = "t_s1" /\ SendCmd(T, "t_w1", "t_prefail")
       /\ UNCHANGED <<lock, commitLk, trLk, tr, closed, errState, faults, poisoned, frozen, tries, kleft>>
TW1 == /\ pc[T] = "t_w1" /\ WaitAck(T, "t_nm", "t_prefail")
       /\ UNCHANGED <<lock, commitLk, trLk, tr, closed, errState, faults, poisoned, frozen, result, tries, kleft>>
TNM == /\ pc[T] = "t_nm" /\ ~frozen /\ frozen' = TRUE /\ Set(T, "t_s2")
       /\ UNCHANGED <<lock, commitLk, trLk, tr, closed, errState, faults, poisoned, mcmd, result, tries, kleft>>
TS2 == /\ pc[T] = "t_s2" /\ SendCmd(T, "t_w2", "t_prefail")
       /\ UNCHANGED <<lock, commitLk, trLk, tr, closed, errState, faults, poisoned, frozen, tries, kleft>>
TW2 == /\ pc[T] = "t_w2" /\ WaitAck(T, "t_open", "t_prefail")
       /\ UNCHANGED <<lock, commitLk, trLk, tr, closed, errState, faults, poisoned, frozen, result, tries, kleft>>
TPreFail ==  \* OpenTransaction returns the error; as coded the write lock is NOT released
  /\ pc[T] = "t_prefail" /\ Set(T, "done") /\ Ret(T, "err")
  /\ lock' = IF FixF8 THEN "free" ELSE lock
  /\ UNCHANGED <<commitLk, trLk, tr, closed, errState, faults, poisoned, frozen, mcmd, tries, kleft>>
TOpen == /\ pc[T] = "t_open" /\ tr' = TRUE /\ Set(T, "t_commit0") /\ tries' = 0
         /\ UNCHANGED <<lock, commitLk, trLk, closed, errState, faults, poisoned, frozen, mcmd, result, kleft>>
\* Commit: db.ok(), tr.lk.Lock(), [flush], compCommitLk.Lock(), up to 3 attempts
TCommit0 ==
  /\ pc[T] = "t_commit0"
  /\ IF closed THEN Set(T, "t_after_err") /\ UNCHANGED trLk      \* ErrClosed from db.ok()
     ELSE trLk = "free" /\ trLk' = T /\ Set(T, "t_cl")
  /\ UNCHANGED <<lock, commitLk, tr, closed, errState, faults, poisoned, frozen, mcmd, result, tries, kleft>>
TCommitLock == /\ pc[T] = "t_cl" /\ commitLk = "free" /\ commitLk' = T /\ Set(T, "t_try") /\ tries' = 0
               /\ UNCHANGED <<lock, trLk, tr, closed, errState, faults, poisoned, frozen, mcmd, result, kleft>>
TTry ==
  /\ pc[T] = "t_try"
  /\ \/ /\ (Fault \/ poisoned) /\ tries < 3
        /\ faults' = IF poisoned THEN faults ELSE faults - 1
        /\ poisoned' = (poisoned \/ Sticky)
        /\ IF closed                                   \* select: closeC -> unlock, return cerr
             THEN commitLk' = "free" /\ trLk' = "free" /\ Set(T, "t_after_err") /\ UNCHANGED tries
             ELSE /\ tries' = tries + 1
                  /\ IF tries + 1 = 3
                       THEN /\ commitLk' = IF FixF6 THEN "free" ELSE commitLk   \* as coded: returns without Unlock
                            /\ trLk' = "free" /\ Set(T, "t_after_err")
                       ELSE UNCHANGED <<commitLk, trLk, kleft>> /\ Set(T, "t_try")
        /\ UNCHANGED <<lock, tr, result, kleft>>
     \/ /\ ~poisoned                                   \* success: setSeq, unlock, setDone
        /\ commitLk' = "free" /\ trLk' = "free" /\ tr' = FALSE /\ lock' = "free"
        /\ Set(T, "done") /\ Ret(T, "ok") /\ UNCHANGED <<faults, poisoned, tries, kleft>>
  /\ UNCHANGED <<closed, errState, frozen, mcmd, kleft>>
\* after a failed Commit: DB.Write (large batch) just returns the error (as coded); an explicit user discards
TAfterErr ==
  /\ pc[T] = "t_after_err"
  /\ IF LargeBatch /\ ~FixF7
       THEN Set(T, "done") /\ Ret(T, "err") /\ UNCHANGED <<lock, tr, trLk, kleft>>
       ELSE /\ trLk = "free"                           \* Discard: tr.lk.Lock(); if !tr.closed { discard; setDone }
            /\ IF tr THEN tr' = FALSE /\ lock' = "free" ELSE UNCHANGED <<tr, lock, kleft>>
            /\ Set(T, "done") /\ Ret(T, "err") /\ UNCHANGED trLk
  /\ UNCHANGED <<commitLk, closed, errState, faults, poisoned, frozen, mcmd, tries, kleft>>

(* ---------------- Close ---------------- *)
CBegin == /\ pc[C] = "c_idle" /\ closed' = TRUE /\ Set(C, "c_tr")
          /\ UNCHANGED <<lock, commitLk, trLk, tr, errState, faults, poisoned, frozen, mcmd, result, tries, kleft>>
CDiscardTx ==  \* if db.tr != nil { db.tr.Discard() }  -- needs tr.lk
  /\ pc[C] = "c_tr"
  /\ IF tr THEN /\ trLk = "free" /\ tr' = FALSE /\ lock' = "free"   \* setDone releases the write lock
                /\ Set(C, "c_lock")
          ELSE Set(C, "c_lock") /\ UNCHANGED <<tr, lock, kleft>>
  /\ UNCHANGED <<commitLk, trLk, closed, errState, faults, poisoned, frozen, mcmd, result, tries, kleft>>
CLock == /\ pc[C] = "c_lock" /\ lock = "free" /\ lock' = C /\ Set(C, "c_wait")
         /\ UNCHANGED <<commitLk, trLk, tr, closed, errState, faults, poisoned, frozen, mcmd, result, tries, kleft>>
CWait == /\ pc[C] = "c_wait" /\ pc[M] = "m_done" /\ pc[K] = "k_done" /\ Set(C, "c_done")
         /\ UNCHANGED <<lock, commitLk, trLk, tr, closed, errState, faults, poisoned, frozen, mcmd, result, tries, kleft>>

Next == \/ \E w \in Writers : WStart(w) \/ WFlush(w) \/ WRotSend(w) \/ WRotWait(w) \/ WNewMem(w) \/ WApply(w) \/ WFail(w)
        \/ MRun \/ MBuild \/ MCommitLock \/ MCommit \/ MAck \/ MIdleClose \/ MExit
        \/ TStart \/ TPre \/ TS1 \/ TW1 \/ TNM \/ TS2 \/ TW2 \/ TPreFail \/ TOpen
        \/ TCommit0 \/ TCommitLock \/ TTry \/ TAfterErr
        \/ CBegin \/ CDiscardTx \/ CLock \/ CWait
        \/ KStart \/ KLock \/ KCommit \/ KIdleClose
        \/ SStart \/ SSet \/ ERelease
\* With a sticky manifest error the compaction goroutines retry for ever, so behaviours are no longer all finite and
\* fairness matters: every process keeps running (weak fairness per process), and lock acquisitions are strongly fair
\* (writeLockC is a channel: blocked senders are served in order; sync.Mutex hands over to a starving waiter).
WNext(w) == WStart(w) \/ WFlush(w) \/ WRotSend(w) \/ WRotWait(w) \/ WNewMem(w) \/ WApply(w) \/ WFail(w)
MNext == MRun \/ MBuild \/ MCommitLock \/ MCommit \/ MAck \/ MIdleClose \/ MExit
TNext == TStart \/ TPre \/ TS1 \/ TW1 \/ TNM \/ TS2 \/ TW2 \/ TPreFail \/ TOpen \/ TCommit0 \/ TCommitLock \/ TTry \/ TAfterErr
CNext == CBegin \/ CDiscardTx \/ CLock \/ CWait
KNext == KStart \/ KLock \/ KCommit \/ KIdleClose
SNext == SStart \/ SSet
Spec == /\ Init /\ [][Next]_vars
        /\ \A w \in Writers : WF_vars(WNext(w)) /\ SF_vars(WStart(w))
        /\ WF_vars(MNext) /\ WF_vars(TNext) /\ WF_vars(CNext) /\ WF_vars(KNext) /\ WF_vars(SNext) /\ WF_vars(ERelease) /\ SF_vars(SStart)
        /\ SF_vars(TStart) /\ SF_vars(TCommitLock) /\ SF_vars(MCommitLock) /\ SF_vars(KLock) /\ SF_vars(CLock) /\ SF_vars(CDiscardTx)

ClientsDone == \A p \in Clients \cup {S} : pc[p] = "done"
CloseDone == pc[C] \in {"c_off", "c_idle", "c_done"}
\* no state without successors unless everybody is finished
NoStuck == (~ ENABLED Next) => (ClientsDone /\ CloseDone)
\* the write lock is never held by a finished client
NoLeak == \A p \in Clients \cup {S} : pc[p] = "done" => lock # p /\ commitLk # p
Live == <>(ClientsDone /\ CloseDone)
=============================================================================
