------------------------------- MODULE Locks -------------------------------
(* Who holds what, and who waits for whom: write lock (writeLockC), commit lock
   (compCommitLk), transaction mutex (tr.lk), memdb-compaction goroutine with
   its command/ack channel, transient error state (compErrC), Close.
   Transcribed from db_write.go, db_transaction.go, db_compaction.go, db.go
   AS CODED; the Fix* constants switch individual repairs on. *)
EXTENDS Naturals, FiniteSets, Sequences, TLC
CONSTANTS Writers, Faults, FixF3, FixF6, FixF7, FixF8, LargeBatch, WithClose, Sticky
VARIABLES pc, lock, commitLk, trLk, tr, closed, errState, faults, poisoned,
          frozen, mcmd, result, tries
vars == <<pc, lock, commitLk, trLk, tr, closed, errState, faults, poisoned, frozen, mcmd, result, tries>>
\* processes
T == "T"  M == "M"  C == "C"
Clients == Writers \cup {T}
NoCmd == [from |-> "none", ack |-> FALSE, st |-> "none"]
\* mcmd: the (single) outstanding command M is working on; st: "sent" | "acked" | "ackclosed"

Init == /\ pc = [p \in Clients \cup {M, C} |->
                   IF p \in Writers THEN "start" ELSE IF p = T THEN "t_start"
                   ELSE IF p = M THEN "m_idle" ELSE IF WithClose THEN "c_idle" ELSE "c_off"]
        /\ lock = "free" /\ commitLk = "free" /\ trLk = "free" /\ tr = FALSE
        /\ closed = FALSE /\ errState = "none" /\ faults = Faults /\ poisoned = FALSE
        /\ frozen = FALSE /\ mcmd = NoCmd
        /\ result = [p \in Clients |-> "none"] /\ tries = 0

Set(p, s) == pc' = [pc EXCEPT ![p] = s]
Ret(p, r) == result' = [result EXCEPT ![p] = r]

(* ---------------- compTriggerWait(mcompCmdC) as seen by caller p ----------------
   phase 1 (send): M idle -> command delivered ; or compErrC has error ; or closed
   phase 2 (wait): ack ; or compErrC ; or closed                                   *)
SendCmd(p, next, onerr) ==
  \/ /\ pc[M] = "m_idle" /\ mcmd = NoCmd
     /\ mcmd' = [from |-> p, ack |-> TRUE, st |-> "sent"]
     /\ pc' = [pc EXCEPT ![M] = "m_run", ![p] = next]
     /\ UNCHANGED <<result>>
  \/ /\ errState # "none" /\ Set(p, onerr) /\ UNCHANGED <<mcmd, result>>
  \/ /\ closed /\ Set(p, onerr) /\ UNCHANGED <<mcmd, result>>
WaitAck(p, next, onerr) ==
  \/ /\ mcmd.from = p /\ mcmd.st = "acked" /\ mcmd' = NoCmd /\ Set(p, next)
  \/ /\ mcmd.from = p /\ mcmd.st = "ackclosed" /\ mcmd' = NoCmd /\ Set(p, onerr)
  \/ /\ errState # "none" /\ Set(p, onerr)
     /\ mcmd' = IF mcmd.from = p THEN [mcmd EXCEPT !.from = "gone"] ELSE mcmd  \* closed ack chan: ack() recovers from panic
  \/ /\ closed /\ Set(p, onerr)
     /\ mcmd' = IF mcmd.from = p THEN [mcmd EXCEPT !.from = "gone"] ELSE mcmd

(* ---------------- writers (merge protocol abstracted away; see WriteProto) ---------------- *)
WStart(w) ==
  /\ pc[w] = "start"
  /\ \/ /\ lock = "free" /\ lock' = w /\ Set(w, "w_flush") /\ UNCHANGED result
     \/ /\ closed /\ Set(w, "done") /\ Ret(w, "closed") /\ UNCHANGED lock
  /\ UNCHANGED <<commitLk, trLk, tr, closed, errState, faults, poisoned, frozen, mcmd, tries>>
\* flush(): either room in memdb, or rotateMem: wait pending flush, newMem, trigger
WFlush(w) ==
  /\ pc[w] = "w_flush"
  /\ \/ Set(w, "w_apply")                       \* room available
     \/ Set(w, "w_rot_send")                    \* needs rotation
  /\ UNCHANGED <<lock, commitLk, trLk, tr, closed, errState, faults, poisoned, frozen, mcmd, result, tries>>
WRotSend(w) == /\ pc[w] = "w_rot_send" /\ SendCmd(w, "w_rot_wait", "w_fail")
               /\ UNCHANGED <<lock, commitLk, trLk, tr, closed, errState, faults, poisoned, frozen, tries>>
WRotWait(w) == /\ pc[w] = "w_rot_wait" /\ WaitAck(w, "w_newmem", "w_fail")
               /\ UNCHANGED <<lock, commitLk, trLk, tr, closed, errState, faults, poisoned, frozen, result, tries>>
WNewMem(w) ==  \* newMem + compTrigger (non-blocking)
  /\ pc[w] = "w_newmem" /\ ~frozen
  /\ frozen' = TRUE
  /\ IF pc[M] = "m_idle" /\ mcmd = NoCmd
       THEN /\ mcmd' = [from |-> "nobody", ack |-> FALSE, st |-> "sent"]
            /\ pc' = [pc EXCEPT ![M] = "m_run", ![w] = "w_apply"]
       ELSE /\ Set(w, "w_apply") /\ UNCHANGED mcmd
  /\ UNCHANGED <<lock, commitLk, trLk, tr, closed, errState, faults, poisoned, result, tries>>
WApply(w) ==   \* journal + memdb + seq, then unlockWrite
  /\ pc[w] = "w_apply" /\ lock' = "free" /\ Set(w, "done") /\ Ret(w, "ok")
  /\ UNCHANGED <<commitLk, trLk, tr, closed, errState, faults, poisoned, frozen, mcmd, tries>>
WFail(w) ==    \* unlockWrite(false, 0, err)
  /\ pc[w] = "w_fail" /\ lock' = "free" /\ Set(w, "done") /\ Ret(w, "err")
  /\ UNCHANGED <<commitLk, trLk, tr, closed, errState, faults, poisoned, frozen, mcmd, tries>>

(* ---------------- memdb compaction goroutine ---------------- *)
Fault == faults > 0
MRun ==
  /\ pc[M] = "m_run"
  /\ IF frozen THEN Set(M, "m_build") /\ UNCHANGED mcmd
     ELSE /\ mcmd' = IF mcmd.ack /\ mcmd.from \in Clients THEN [mcmd EXCEPT !.st = "acked"] ELSE NoCmd
          /\ Set(M, "m_idle")
  /\ UNCHANGED <<lock, commitLk, trLk, tr, closed, errState, faults, poisoned, frozen, result, tries>>
\* compactionTransact("memdb@flush"): run, report status to the error goroutine, retry
MBuild ==
  /\ pc[M] = "m_build"
  /\ IF closed THEN Set(M, "m_exit") /\ UNCHANGED <<errState, faults>>
     ELSE \/ /\ Fault /\ faults' = faults - 1 /\ errState' = "trans" /\ Set(M, "m_build")
          \/ /\ errState' = "none" /\ Set(M, "m_cl") /\ UNCHANGED faults
  /\ UNCHANGED <<lock, commitLk, trLk, tr, closed, poisoned, frozen, mcmd, result, tries>>
MCommitLock == /\ pc[M] = "m_cl" /\ commitLk = "free" /\ commitLk' = M /\ Set(M, "m_commit")
               /\ UNCHANGED <<lock, trLk, tr, closed, errState, faults, poisoned, frozen, mcmd, result, tries>>
MCommit ==
  /\ pc[M] = "m_commit"
  /\ IF closed THEN /\ commitLk' = "free" /\ Set(M, "m_exit") /\ UNCHANGED <<errState, faults, poisoned, frozen>>
     ELSE \/ /\ (Fault \/ poisoned)                                   \* manifest append/sync fails
             /\ faults' = IF poisoned THEN faults ELSE faults - 1
             /\ poisoned' = (poisoned \/ Sticky)
             /\ errState' = "trans" /\ Set(M, "m_commit") /\ UNCHANGED <<commitLk, frozen>>
          \/ /\ ~poisoned /\ errState' = "none" /\ commitLk' = "free" /\ frozen' = FALSE
             /\ Set(M, "m_ack") /\ UNCHANGED <<faults, poisoned>>
  /\ UNCHANGED <<lock, trLk, tr, closed, mcmd, result, tries>>
MAck ==
  /\ pc[M] = "m_ack"
  /\ mcmd' = IF mcmd.ack /\ mcmd.from \in Clients THEN [mcmd EXCEPT !.st = "acked"] ELSE NoCmd
  /\ Set(M, "m_idle")
  /\ UNCHANGED <<lock, commitLk, trLk, tr, closed, errState, faults, poisoned, frozen, result, tries>>
MIdleClose == /\ pc[M] = "m_idle" /\ closed /\ Set(M, "m_done")
              /\ UNCHANGED <<lock, commitLk, trLk, tr, closed, errState, faults, poisoned, frozen, mcmd, result, tries>>
MExit == /\ pc[M] = "m_exit"
         /\ mcmd' = IF mcmd.ack /\ mcmd.from \in Clients THEN [mcmd EXCEPT !.st = "ackclosed"] ELSE NoCmd
         /\ Set(M, "m_done")
         /\ UNCHANGED <<lock, commitLk, trLk, tr, closed, errState, faults, poisoned, frozen, result, tries>>

(* ---------------- transaction user (explicit, or DB.Write with an oversized batch) ---------------- *)
TStart ==
  /\ pc[T] = "t_start"
  /\ \/ /\ lock = "free" /\ lock' = T /\ Set(T, "t_pre") /\ UNCHANGED result
     \/ /\ closed /\ Set(T, "done") /\ Ret(T, "closed") /\ UNCHANGED lock
  /\ UNCHANGED <<commitLk, trLk, tr, closed, errState, faults, poisoned, frozen, mcmd, tries>>
\* pre-flush: if memdb non-empty: rotateMem(0,true) = wait pending, newMem, wait again
TPre ==
  /\ pc[T] = "t_pre"
  /\ \/ Set(T, IF FixF3 THEN "t_s2" ELSE "t_open")   \* memdb empty: as coded no wait at all; repaired: wait for a pending flush
     \/ Set(T, "t_s1")
  /\ UNCHANGED <<lock, commitLk, trLk, tr, closed, errState, faults, poisoned, frozen, mcmd, result, tries>>
TS1 == /\ pc[T] = "t_s1" /\ SendCmd(T, "t_w1", "t_prefail")
       /\ UNCHANGED <<lock, commitLk, trLk, tr, closed, errState, faults, poisoned, frozen, tries>>
TW1 == /\ pc[T] = "t_w1" /\ WaitAck(T, "t_nm", "t_prefail")
       /\ UNCHANGED <<lock, commitLk, trLk, tr, closed, errState, faults, poisoned, frozen, result, tries>>
TNM == /\ pc[T] = "t_nm" /\ ~frozen /\ frozen' = TRUE /\ Set(T, "t_s2")
       /\ UNCHANGED <<lock, commitLk, trLk, tr, closed, errState, faults, poisoned, mcmd, result, tries>>
TS2 == /\ pc[T] = "t_s2" /\ SendCmd(T, "t_w2", "t_prefail")
       /\ UNCHANGED <<lock, commitLk, trLk, tr, closed, errState, faults, poisoned, frozen, tries>>
TW2 == /\ pc[T] = "t_w2" /\ WaitAck(T, "t_open", "t_prefail")
       /\ UNCHANGED <<lock, commitLk, trLk, tr, closed, errState, faults, poisoned, frozen, result, tries>>
TPreFail ==  \* OpenTransaction returns the error; as coded the write lock is NOT released
  /\ pc[T] = "t_prefail" /\ Set(T, "done") /\ Ret(T, "err")
  /\ lock' = IF FixF8 THEN "free" ELSE lock
  /\ UNCHANGED <<commitLk, trLk, tr, closed, errState, faults, poisoned, frozen, mcmd, tries>>
TOpen == /\ pc[T] = "t_open" /\ tr' = TRUE /\ Set(T, "t_commit0") /\ tries' = 0
         /\ UNCHANGED <<lock, commitLk, trLk, closed, errState, faults, poisoned, frozen, mcmd, result>>
\* Commit: db.ok(), tr.lk.Lock(), [flush], compCommitLk.Lock(), up to 3 attempts
TCommit0 ==
  /\ pc[T] = "t_commit0"
  /\ IF closed THEN Set(T, "t_after_err") /\ UNCHANGED trLk      \* ErrClosed from db.ok()
     ELSE trLk = "free" /\ trLk' = T /\ Set(T, "t_cl")
  /\ UNCHANGED <<lock, commitLk, tr, closed, errState, faults, poisoned, frozen, mcmd, result, tries>>
TCommitLock == /\ pc[T] = "t_cl" /\ commitLk = "free" /\ commitLk' = T /\ Set(T, "t_try") /\ tries' = 0
               /\ UNCHANGED <<lock, trLk, tr, closed, errState, faults, poisoned, frozen, mcmd, result>>
TTry ==
  /\ pc[T] = "t_try"
  /\ \/ /\ (Fault \/ poisoned) /\ tries < 3
        /\ faults' = IF poisoned THEN faults ELSE faults - 1
        /\ poisoned' = (poisoned \/ Sticky)
        /\ IF closed                                   \* select: closeC -> unlock, return cerr
             THEN commitLk' = "free" /\ trLk' = "free" /\ Set(T, "t_after_err") /\ UNCHANGED tries
             ELSE /\ tries' = tries + 1
                  /\ IF tries + 1 = 3
                       THEN /\ commitLk' = IF FixF6 THEN "free" ELSE commitLk   \* as coded: returns without Unlock
                            /\ trLk' = "free" /\ Set(T, "t_after_err")
                       ELSE UNCHANGED <<commitLk, trLk>> /\ Set(T, "t_try")
        /\ UNCHANGED <<lock, tr, result>>
     \/ /\ ~poisoned                                   \* success: setSeq, unlock, setDone
        /\ commitLk' = "free" /\ trLk' = "free" /\ tr' = FALSE /\ lock' = "free"
        /\ Set(T, "done") /\ Ret(T, "ok") /\ UNCHANGED <<faults, poisoned, tries>>
  /\ UNCHANGED <<closed, errState, frozen, mcmd>>
\* after a failed Commit: DB.Write (large batch) just returns the error (as coded); an explicit user discards
TAfterErr ==
  /\ pc[T] = "t_after_err"
  /\ IF LargeBatch /\ ~FixF7
       THEN Set(T, "done") /\ Ret(T, "err") /\ UNCHANGED <<lock, tr, trLk>>
       ELSE /\ trLk = "free"                           \* Discard: tr.lk.Lock(); if !tr.closed { discard; setDone }
            /\ IF tr THEN tr' = FALSE /\ lock' = "free" ELSE UNCHANGED <<tr, lock>>
            /\ Set(T, "done") /\ Ret(T, "err") /\ UNCHANGED trLk
  /\ UNCHANGED <<commitLk, closed, errState, faults, poisoned, frozen, mcmd, tries>>

(* ---------------- Close ---------------- *)
CBegin == /\ pc[C] = "c_idle" /\ closed' = TRUE /\ Set(C, "c_tr")
          /\ UNCHANGED <<lock, commitLk, trLk, tr, errState, faults, poisoned, frozen, mcmd, result, tries>>
CDiscardTx ==  \* if db.tr != nil { db.tr.Discard() }  -- needs tr.lk
  /\ pc[C] = "c_tr"
  /\ IF tr THEN /\ trLk = "free" /\ tr' = FALSE /\ lock' = "free"   \* setDone releases the write lock
                /\ Set(C, "c_lock")
          ELSE Set(C, "c_lock") /\ UNCHANGED <<tr, lock>>
  /\ UNCHANGED <<commitLk, trLk, closed, errState, faults, poisoned, frozen, mcmd, result, tries>>
CLock == /\ pc[C] = "c_lock" /\ lock = "free" /\ lock' = C /\ Set(C, "c_wait")
         /\ UNCHANGED <<commitLk, trLk, tr, closed, errState, faults, poisoned, frozen, mcmd, result, tries>>
CWait == /\ pc[C] = "c_wait" /\ pc[M] = "m_done" /\ Set(C, "c_done")
         /\ UNCHANGED <<lock, commitLk, trLk, tr, closed, errState, faults, poisoned, frozen, mcmd, result, tries>>

Next == \/ \E w \in Writers : WStart(w) \/ WFlush(w) \/ WRotSend(w) \/ WRotWait(w) \/ WNewMem(w) \/ WApply(w) \/ WFail(w)
        \/ MRun \/ MBuild \/ MCommitLock \/ MCommit \/ MAck \/ MIdleClose \/ MExit
        \/ TStart \/ TPre \/ TS1 \/ TW1 \/ TNM \/ TS2 \/ TW2 \/ TPreFail \/ TOpen
        \/ TCommit0 \/ TCommitLock \/ TTry \/ TAfterErr
        \/ CBegin \/ CDiscardTx \/ CLock \/ CWait
Spec == Init /\ [][Next]_vars /\ WF_vars(Next)

ClientsDone == \A p \in Clients : pc[p] = "done"
CloseDone == pc[C] \in {"c_off", "c_idle", "c_done"}
\* no state without successors unless everybody is finished
NoStuck == (~ ENABLED Next) => (ClientsDone /\ CloseDone)
\* the write lock is never held by a finished client
NoLeak == \A p \in Clients : pc[p] = "done" => lock # p /\ commitLk # p
Live == <>(ClientsDone /\ CloseDone)
=============================================================================
