CONSTANTS Writers = {w1}  Faults = 1  FixF3 = TRUE FixF6 = TRUE FixF7 = TRUE FixF8 = TRUE FixF9 = TRUE FixF30 = FALSE LargeBatch = FALSE WithClose = TRUE Sticky = FALSE KComp = 0 WithSetRO = TRUE
SPECIFICATION Spec
INVARIANTS NoStuck NoLeak
PROPERTY Live
CHECK_DEADLOCK FALSE
