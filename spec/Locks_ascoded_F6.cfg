CONSTANTS Writers = {w1, w2}  Faults = 3  FixF3 = TRUE FixF6 = FALSE FixF7 = TRUE FixF8 = TRUE LargeBatch = TRUE WithClose = TRUE Sticky = FALSE
SPECIFICATION Spec
INVARIANTS NoStuck NoLeak

CHECK_DEADLOCK FALSE
