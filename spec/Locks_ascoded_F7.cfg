CONSTANTS Writers = {w1, w2}  Faults = 3  FixF3 = TRUE FixF6 = TRUE FixF7 = FALSE FixF8 = TRUE FixF9 = TRUE LargeBatch = TRUE WithClose = TRUE Sticky = FALSE KComp = 1
SPECIFICATION Spec
INVARIANTS NoStuck NoLeak

CHECK_DEADLOCK FALSE
