CONSTANTS Writers = {w1, w2}  Faults = 3  FixF3 = TRUE FixF6 = TRUE FixF7 = TRUE FixF8 = FALSE LargeBatch = TRUE WithClose = TRUE Sticky = FALSE
SPECIFICATION Spec
INVARIANTS NoStuck NoLeak

CHECK_DEADLOCK FALSE
