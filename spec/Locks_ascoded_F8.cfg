CONSTANTS Writers = {w1, w2}  Faults = 3  FixF3 = TRUE FixF6 = TRUE FixF7 = TRUE FixF8 = FALSE FixF9 = TRUE FixF30 = TRUE LargeBatch = TRUE WithClose = TRUE Sticky = FALSE KComp = 1 WithSetRO = FALSE
SPECIFICATION Spec
INVARIANTS NoStuck NoLeak

CHECK_DEADLOCK FALSE
