CONSTANTS Writers = {w1, w2}  Faults = 3  FixF3 = TRUE FixF6 = TRUE FixF7 = TRUE FixF8 = TRUE LargeBatch = TRUE WithClose = TRUE Sticky = FALSE
SPECIFICATION Spec
INVARIANTS NoStuck NoLeak
PROPERTY Live
CHECK_DEADLOCK FALSE
