CONSTANTS Writers = {w1}  Faults = 2  FixF3 = TRUE FixF6 = TRUE FixF7 = TRUE FixF8 = TRUE FixF9 = TRUE FixF30 = TRUE LargeBatch = FALSE WithClose = TRUE Sticky = TRUE KComp = 1 WithSetRO = FALSE
SPECIFICATION Spec
INVARIANTS NoStuck NoLeak
PROPERTY Live
CHECK_DEADLOCK FALSE
