------------------------------- MODULE MemDB -------------------------------
(***************************************************************************)
(* Contract of leveldb/memdb (C14): an ordered map with Len / Size / Free  *)
(* accounting, live cursors, and the guarantee given to readers that run   *)
(* concurrently with the single writer.                                    *)
(*                                                                         *)
(* Keys are ranks in the comparer's order, values are content identifiers  *)
(* (0 = absent); key and value LENGTHS are carried so that Size (sum of    *)
(* the lengths of the stored keys and values), the append-only buffer use  *)
(* and Free (= Capacity - bytes appended since the last Reset) can be      *)
(* stated exactly as memdb.go documents and implements them.               *)
(*                                                                         *)
(* Sequential part: Put, Delete, Get, Find, Contains, Reset and cursors    *)
(* over an optional range.  memdb iterators are LIVE views: the cursor     *)
(* laws (those of KV.tla, reused) apply to the contents at the time of     *)
(* each move.                                                              *)
(*                                                                         *)
(* Concurrent part: one writer, many readers.  The writer's call is the    *)
(* pair WBegin / WEnd, a reader's call the pair RInvoke / RRespond; the    *)
(* writer's effect may become visible anywhere between WBegin and WEnd, so *)
(* a reader call may observe state number i (the contents after i writes)  *)
(* iff  writes completed at its invocation <= i <= writes begun at its     *)
(* response.  `hist` keeps exactly the states some open call or cursor may *)
(* still refer to.  RRespond is enabled iff the reply is explained:        *)
(*   Get/Find/Contains, First/Last/Seek/Prev (these search by key under    *)
(*   the read lock): exact answer in one state of the call's window;       *)
(*   Next (follows the level-0 link of the node the cursor sits on): exact *)
(*   in one state of the window while that node cannot have been unlinked; *)
(*   otherwise the weak law memdb really gives: the key is greater than    *)
(*   the cursor's, it was the in-range successor of the cursor's key in    *)
(*   some state since the cursor's last exact landing, and the pair was    *)
(*   stored in some state since then (never an invented pair).             *)
(* Reset invalidates outstanding cursors (precondition of memdb's users:   *)
(* goleveldb resets only unreferenced memdbs).                             *)
(***************************************************************************)
EXTENDS Integers, Sequences, FiniteSets, TLC

CONSTANTS NK          \* keys are 0 .. NK-1

\* The cursor laws of the KV contract; its variables play no role in them.
C == INSTANCE KV WITH store <- <<>>, snaps <- <<>>, its <- <<>>, tx <- <<>>, mode <- "open",
                      ro <- FALSE, limbo <- <<>>, res <- <<>>

Keys   == 0 .. (NK - 1)
Absent == 0
SOI    == C!SOI        \* -1
EOI    == C!EOI        \* NK

VARIABLES
  map,      \* Keys -> value id
  kl, vl,   \* Keys -> length of the stored key / value (0 when absent)
  n,        \* Len()
  size,     \* Size(): kvSize as maintained by Put / Delete
  used,     \* len(kvData): bytes appended since New / Reset (the buffer is append only)
  cap,      \* Capacity()
  its,      \* sequential cursors   h -> [lo, hi, pos, rel]
  hist,     \* i -> contents after i writes, for the indices still needed (always includes wdone .. wbeg)
  wbeg,     \* writes begun
  wdone,    \* writes completed
  open,     \* reader -> [from, op, k, h, mv, arg]     calls in flight
  cits,     \* cursors used by concurrent readers  h -> [lo, hi, pos, since, anchor, exact, rel]
  res       \* reply of the last sequential call, or of the writer's call in flight (readers' replies are
            \* parameters of RRespond and leave it alone)

acct   == <<map, kl, vl, n, size, used>>
conc   == <<hist, wbeg, wdone, open, cits>>
mvars  == <<map, kl, vl, n, size, used, cap, its, hist, wbeg, wdone, open, cits, res>>

Empty == [k \in Keys |-> Absent]
Zero  == [k \in Keys |-> 0]

Dom(f) == DOMAIN f
Ext(f, h, x) == [y \in Dom(f) \cup {h} |-> IF y = h THEN x ELSE f[y]]
Drop(f, h)   == [y \in Dom(f) \ {h} |-> f[y]]
MinOf(S)     == CHOOSE x \in S : \A y \in S : x <= y

MemInit(capacity) ==
  /\ map = Empty /\ kl = Zero /\ vl = Zero
  /\ n = 0 /\ size = 0 /\ used = 0 /\ cap = capacity
  /\ its = <<>> /\ cits = <<>> /\ open = <<>>
  /\ wbeg = 0 /\ wdone = 0 /\ hist = (0 :> Empty)
  /\ res = <<"init">>

-----------------------------------------------------------------------------
(* Accounting, by definition (the invariants compare it with the counters). *)

LiveKeys(m) == {k \in Keys : m[k] # Absent}
RECURSIVE SumOver(_, _)
SumOver(f, S) == IF S = {} THEN 0 ELSE LET x == CHOOSE y \in S : TRUE IN f[x] + SumOver(f, S \ {x})

Accounting ==
  /\ n = Cardinality(LiveKeys(map))
  /\ size = SumOver(kl, LiveKeys(map)) + SumOver(vl, LiveKeys(map))
  /\ \A k \in Keys : map[k] = Absent => kl[k] = 0 /\ vl[k] = 0
  /\ size <= used /\ (wbeg = wdone => used <= cap)     \* the capacity is observed when the write returns

Free == cap - used

-----------------------------------------------------------------------------
(* Effects of the writer's calls on the contents, as memdb.go codes them.  *)

EffPut(k, klen, v, vlen) ==
  /\ v # Absent
  /\ map' = [map EXCEPT ![k] = v]
  /\ vl' = [vl EXCEPT ![k] = vlen]
  /\ used' = used + klen + vlen                  \* key and value are appended, also on overwrite
  /\ IF map[k] = Absent
     THEN kl' = [kl EXCEPT ![k] = klen] /\ n' = n + 1 /\ size' = size + klen + vlen
     ELSE kl' = kl /\ n' = n /\ size' = size + vlen - vl[k]
  /\ res' = <<"none">>

EffDelete(k) ==
  IF map[k] = Absent
  THEN res' = <<"notfound">> /\ UNCHANGED acct
  ELSE /\ map' = [map EXCEPT ![k] = Absent]
       /\ kl' = [kl EXCEPT ![k] = 0] /\ vl' = [vl EXCEPT ![k] = 0]
       /\ n' = n - 1 /\ size' = size - kl[k] - vl[k]
       /\ used' = used                           \* the buffer is not reclaimed
       /\ res' = <<"none">>

EffReset ==
  /\ map' = Empty /\ kl' = Zero /\ vl' = Zero
  /\ n' = 0 /\ size' = 0 /\ used' = 0
  /\ res' = <<"none">>

\* op: [op |-> "put" | "del" | "clear", k, kl, v, vl]
Eff(o) == CASE o.op = "put"   -> EffPut(o.k, o.kl, o.v, o.vl)
            [] o.op = "del"   -> EffDelete(o.k)
            [] o.op = "clear" -> EffReset

\* The buffer grows only when it must, never shrinks, and Reset keeps it.
Grow(newcap) ==
  /\ cap' = newcap
  /\ newcap >= used'
  /\ (used' <= cap => newcap = cap)

\* Reset invalidates every outstanding cursor.
Kill(cs) == [h \in Dom(cs) |-> [cs[h] EXCEPT !.rel = TRUE]]

-----------------------------------------------------------------------------
(* History of writer states kept for the concurrent readers.               *)

Needed(op, ci, wd) ==
  MinOf({wd} \cup {op[r].from : r \in Dom(op)} \cup {ci[h].anchor : h \in {x \in Dom(ci) : ~ci[x].rel}})
Keep(h, lo) == [i \in {j \in Dom(h) : j >= lo} |-> h[i]]

-----------------------------------------------------------------------------
(* Sequential calls: one step per call.                                    *)

Write(o, newcap) ==
  /\ open = <<>>
  /\ Eff(o)
  /\ Grow(newcap)
  /\ wbeg' = wbeg + 1 /\ wdone' = wdone + 1
  /\ its'  = IF o.op = "clear" THEN Kill(its) ELSE its
  /\ cits' = IF o.op = "clear" THEN Kill(cits) ELSE cits
  /\ hist' = Keep(Ext(hist, wbeg + 1, map'), Needed(open, cits', wdone'))
  /\ UNCHANGED open

AnsGet(m, k)  == IF m[k] = Absent THEN <<"notfound", -1, 0>> ELSE <<"none", k, m[k]>>
AnsFind(m, k) == LET p == C!CurSeek(LiveKeys(m), k) IN
                 IF p = EOI THEN <<"notfound", -1, 0>> ELSE <<"none", p, m[p]>>
AnsHas(m, k)  == IF m[k] = Absent THEN <<"none", -1, 0>> ELSE <<"none", k, 1>>

Read(ans) == res' = ans /\ UNCHANGED <<acct, cap, its, conc>>
Get(k)      == Read(AnsGet(map, k))
Find(k)     == Read(AnsFind(map, k))
Contains(k) == Read(AnsHas(map, k))

\* The cursor laws on the contents m restricted to [lo, hi).
MoveIn(m, lo, hi, pos, mv, arg) ==
  LET L == C!LiveIn(m, lo, hi) IN
  CASE mv = "first" -> C!CurFirst(L)
    [] mv = "last"  -> C!CurLast(L)
    [] mv = "seek"  -> C!CurSeek(L, arg)
    [] mv = "next"  -> C!CurNext(L, pos)
    [] mv = "prev"  -> C!CurPrev(L, pos)
ObsAt(m, p) == IF p = SOI \/ p = EOI THEN <<FALSE, -1, 0>> ELSE <<TRUE, p, m[p]>>

NewIter(h, lo, hi) ==
  /\ h \notin Dom(its) /\ lo \in 0 .. NK /\ hi \in 0 .. NK
  /\ its' = Ext(its, h, [lo |-> lo, hi |-> hi, pos |-> SOI, rel |-> FALSE])
  /\ res' = <<"none">>
  /\ UNCHANGED <<acct, cap, conc>>

\* reply: <<valid, key, value, error>>
IterMove(h, mv, arg) ==
  /\ h \in Dom(its)
  /\ IF its[h].rel
     THEN res' = <<FALSE, -1, 0, "released">> /\ UNCHANGED its
     ELSE LET c == its[h]
              p == MoveIn(map, c.lo, c.hi, c.pos, mv, arg) IN
          /\ its' = [its EXCEPT ![h].pos = p]
          /\ res' = ObsAt(map, p) \o <<"none">>
  /\ UNCHANGED <<acct, cap, conc>>

IterRelease(h) ==
  /\ h \in Dom(its)
  /\ its' = [its EXCEPT ![h].rel = TRUE]
  /\ res' = <<"none">>
  /\ UNCHANGED <<acct, cap, conc>>

-----------------------------------------------------------------------------
(* Concurrent calls: the writer.                                           *)

WBegin(o) ==
  /\ wbeg = wdone                                   \* one writer
  /\ o.op = "clear" => \A r \in Dom(open) : open[r].op # "iter"
  /\ Eff(o)
  /\ wbeg' = wbeg + 1
  /\ hist' = Ext(hist, wbeg + 1, map')
  /\ its'  = IF o.op = "clear" THEN Kill(its) ELSE its
  /\ cits' = IF o.op = "clear" THEN Kill(cits) ELSE cits
  /\ UNCHANGED <<cap, wdone, open>>

\* The reply (error) was fixed by WBegin and stays in res; the capacity is observed now.
WEnd(newcap) ==
  /\ wbeg = wdone + 1
  /\ cap' = newcap /\ newcap >= used /\ newcap >= cap /\ (used <= cap => newcap = cap)
  /\ wdone' = wdone + 1
  /\ hist' = Keep(hist, Needed(open, cits, wdone'))
  /\ UNCHANGED <<acct, its, wbeg, open, cits, res>>

-----------------------------------------------------------------------------
(* Concurrent calls: readers.                                              *)

NewCIter(h, lo, hi) ==
  /\ h \notin Dom(cits) /\ lo \in 0 .. NK /\ hi \in 0 .. NK
  /\ cits' = Ext(cits, h, [lo |-> lo, hi |-> hi, pos |-> SOI, since |-> wdone, anchor |-> wdone,
                           exact |-> TRUE, rel |-> FALSE])
  /\ UNCHANGED <<acct, cap, its, hist, wbeg, wdone, open, res>>

CIterRelease(h) ==
  /\ h \in Dom(cits)
  /\ \A r \in Dom(open) : ~(open[r].op = "iter" /\ open[r].h = h)
  /\ cits' = [cits EXCEPT ![h].rel = TRUE]
  /\ hist' = Keep(hist, Needed(open, cits', wdone))
  /\ UNCHANGED <<acct, cap, its, wbeg, wdone, open, res>>

\* call: [op |-> "get" | "find" | "has" | "iter", k, h, mv, arg]
RInvoke(r, call) ==
  /\ r \notin Dom(open)
  /\ call.op = "iter" => /\ call.h \in Dom(cits) /\ ~cits[call.h].rel
                         /\ \A q \in Dom(open) : ~(open[q].op = "iter" /\ open[q].h = call.h)
  /\ open' = Ext(open, r, [from |-> wdone, op |-> call.op, k |-> call.k, h |-> call.h,
                           mv |-> call.mv, arg |-> call.arg])
  /\ UNCHANGED <<acct, cap, its, hist, wbeg, wdone, cits, res>>

\* k may have been unlinked (Delete, Reset) by a write numbered a+1 .. b
Unlinked(k, a, b) == \E i \in a .. (b - 1) : hist[i][k] # Absent /\ hist[i + 1][k] = Absent

\* A Next from a key follows the node's link; the node is certainly still linked when the
\* cursor landed on it exactly and its key was not deleted since that call was invoked.
NextIsExact(c, b) == c.exact /\ ~Unlinked(c.pos, c.since, b)

\* rep = <<valid, key, value>> for cursor c and the window a .. b
ExactMove(c, mv, arg, rep, a, b) ==
  \E i \in a .. b : rep = ObsAt(hist[i], MoveIn(hist[i], c.lo, c.hi, c.pos, mv, arg))
WeakNext(c, rep, b) ==
  IF rep[1]
  THEN /\ rep[2] \in Keys /\ rep[2] > c.pos /\ rep[3] # Absent        \* forward walks only go up
       /\ \E i \in c.anchor .. b : rep[2] = C!CurNext(C!LiveIn(hist[i], c.lo, c.hi), c.pos)
       /\ \E j \in c.anchor .. b : hist[j][rep[2]] = rep[3]            \* a pair that was stored
  ELSE /\ rep = <<FALSE, -1, 0>>
       /\ \E i \in c.anchor .. b : C!CurNext(C!LiveIn(hist[i], c.lo, c.hi), c.pos) = EOI

FromKey(c, mv) == mv = "next" /\ c.pos \in Keys
IterExplained(c, mv, arg, rep, a, b) ==
  IF FromKey(c, mv) /\ ~NextIsExact(c, b) THEN WeakNext(c, rep, b) ELSE ExactMove(c, mv, arg, rep, a, b)

\* where the cursor is after the reply
Landing(c, mv, rep) ==
  IF rep[1] THEN rep[2]
  ELSE IF mv \in {"first", "seek"} THEN EOI
  ELSE IF mv = "last" THEN SOI
  ELSE IF mv = "next" THEN EOI        \* Next at SOI is First; at EOI or from a key it ends at EOI
  ELSE SOI                            \* Prev likewise

Explained(o, rep, b) ==
  CASE o.op = "get"  -> \E i \in o.from .. b : rep = AnsGet(hist[i], o.k)
    [] o.op = "find" -> \E i \in o.from .. b : rep = AnsFind(hist[i], o.k)
    [] o.op = "has"  -> \E i \in o.from .. b : rep = AnsHas(hist[i], o.k)
    [] o.op = "iter" -> rep[1] = "none" /\ IterExplained(cits[o.h], o.mv, o.arg, <<rep[2] # -1, rep[2], rep[3]>>, o.from, b)

\* rep = <<error, key, value>>; for a cursor move error is "none" and key = -1 means "not valid"
RRespond(r, rep) ==
  /\ r \in Dom(open)
  /\ LET o == open[r] IN
     /\ Explained(o, rep, wbeg)
     /\ open' = Drop(open, r)
     /\ cits' = IF o.op # "iter" THEN cits
                ELSE LET c  == cits[o.h]
                         ex == ~FromKey(c, o.mv) \/ NextIsExact(c, wbeg) IN
                     [cits EXCEPT ![o.h] = [c EXCEPT !.pos = Landing(c, o.mv, <<rep[2] # -1, rep[2], rep[3]>>),
                                                     !.since = o.from, !.exact = ex,
                                                     !.anchor = IF ex THEN o.from ELSE c.anchor]]
     /\ hist' = Keep(hist, Needed(open', cits', wdone))
  /\ UNCHANGED <<acct, cap, its, wbeg, wdone, res>>

=============================================================================
