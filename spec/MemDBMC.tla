------------------------------ MODULE MemDBMC ------------------------------
(***************************************************************************)
(* Model-checking wrapper for MemDB.tla.  It runs the contract next to a   *)
(* model of memdb.go as coded, reduced to what decides the answers: the    *)
(* append-only node array with its level-0 links (the towers only speed up *)
(* the searches), Put relinking under the write lock, Delete unlinking a   *)
(* node WITHOUT touching the node's own link, cursors that remember a node *)
(* index and re-read the link on Next but search by key on Prev, and the   *)
(* RWMutex: a critical section is one atomic step that lies somewhere      *)
(* between the call's invocation and its response.  One writer, a set of   *)
(* readers, each owning one cursor.                                        *)
(*                                                                         *)
(* Checked: the counters kept incrementally agree with the contents        *)
(* (Accounting, ImplAgrees); every reply the coded readers can produce is  *)
(* explained by the contract's window rule (ImplExplained) - so RRespond   *)
(* of MemDB.tla, which is what MemDBTrace.tla applies to recorded          *)
(* histories, rejects nothing the code may legitimately do; forward walks  *)
(* only go up and only stored pairs are yielded (ForwardUp, OnlyStored).   *)
(***************************************************************************)
EXTENDS MemDB

CONSTANTS MaxW,       \* number of writer calls
          Readers,    \* reader identities (= cursor handles)
          MaxCalls,   \* calls per reader
          Ranges,     \* cursor ranges <<lo, hi>> to choose from
          VLens,      \* value lengths to choose from
          WithReset,  \* whether the writer may call Reset
          CallOps     \* kinds of reader calls: subset of {"get", "find", "has", "iter"}

VARIABLES nodes,      \* Seq([key, val, vlen, next])   node 0 is the head
          head,       \* level-0 link of the head
          wpc, wop,   \* writer: "idle" | "begun" | "applied", pending call
          rpc,        \* reader -> "idle" | "inv" | "read"
          rres,       \* reader -> reply computed in its critical section
          rcur,       \* reader -> [nd, fwd]     the coded cursor
          ncalls      \* reader -> calls made

ivars == <<nodes, head, wpc, wop, rpc, rres, rcur, ncalls>>
allvars == <<mvars, ivars>>

KLen(k) == k + 1
\* choices for Ranges (tuples cannot be written in a cfg file)
Ranges1 == {<<0, NK>>}
Ranges2 == {<<0, NK>>, <<1, NK - 1>>}
Ranges3 == {<<0, NK>>, <<1, NK>>, <<0, NK - 1>>, <<1, NK - 1>>}
NoOp == [op |-> "none", k |-> 0, kl |-> 0, v |-> 0, vl |-> 0]

-----------------------------------------------------------------------------
(* The coded structure *)

RECURSIVE ChainFrom(_)
ChainFrom(x) == IF x = 0 THEN <<>> ELSE <<x>> \o ChainFrom(nodes[x].next)
Linked == ChainFrom(head)
LinkedSet == {Linked[i] : i \in 1 .. Len(Linked)}

KeyOf(x) == nodes[x].key
FindGE(x) == LET S == {i \in 1 .. Len(Linked) : KeyOf(Linked[i]) >= x} IN
             IF S = {} THEN 0 ELSE Linked[MinOf(S)]
FindLT(x) == LET S == {i \in 1 .. Len(Linked) : KeyOf(Linked[i]) < x} IN
             IF S = {} THEN 0 ELSE Linked[C!MaxOf(S)]
FindLast  == IF Linked = <<>> THEN 0 ELSE Linked[Len(Linked)]
FindEq(k) == LET g == FindGE(k) IN IF g # 0 /\ KeyOf(g) = k THEN g ELSE 0

ImplMap == [k \in Keys |-> IF FindEq(k) = 0 THEN Absent ELSE nodes[FindEq(k)].val]
ImplSize == LET f == [x \in LinkedSet |-> KLen(KeyOf(x)) + nodes[x].vlen] IN SumOver(f, LinkedSet)

ImplPut(k, v, vlen) ==
  LET e == FindEq(k) IN
  IF e # 0
  THEN nodes' = [nodes EXCEPT ![e].val = v, ![e].vlen = vlen] /\ head' = head
  ELSE LET prev == FindLT(k)
           succ == IF prev = 0 THEN head ELSE nodes[prev].next
           new  == Len(nodes) + 1 IN
       /\ nodes' = Append(IF prev = 0 THEN nodes ELSE [nodes EXCEPT ![prev].next = new],
                          [key |-> k, val |-> v, vlen |-> vlen, next |-> succ])
       /\ head' = IF prev = 0 THEN new ELSE head

ImplDelete(k) ==
  LET e == FindEq(k) IN
  IF e = 0 THEN UNCHANGED <<nodes, head>>
  ELSE LET prev == FindLT(k) IN                     \* the unlinked node keeps its own link
       IF prev = 0 THEN head' = nodes[e].next /\ nodes' = nodes
       ELSE nodes' = [nodes EXCEPT ![prev].next = nodes[e].next] /\ head' = head

ImplReset == nodes' = <<>> /\ head' = 0

\* dbIter.fill
Fill(nd, lo, hi, checkStart, checkLimit) ==
  IF nd = 0 THEN 0
  ELSE IF checkLimit /\ hi < NK /\ KeyOf(nd) >= hi THEN 0
  ELSE IF checkStart /\ lo > 0 /\ KeyOf(nd) < lo THEN 0
  ELSE nd

CFirst(lo, hi) == [nd |-> Fill(IF lo > 0 THEN FindGE(lo) ELSE head, lo, hi, FALSE, TRUE), fwd |-> TRUE]
CLast(lo, hi)  == [nd |-> Fill(IF hi < NK THEN FindLT(hi) ELSE FindLast, lo, hi, TRUE, FALSE), fwd |-> FALSE]
CSeek(lo, hi, x) == [nd |-> Fill(FindGE(IF x < lo THEN lo ELSE x), lo, hi, FALSE, TRUE), fwd |-> TRUE]
CNext(cu, lo, hi) ==
  IF cu.nd = 0 THEN (IF ~cu.fwd THEN CFirst(lo, hi) ELSE cu)
  ELSE [nd |-> Fill(nodes[cu.nd].next, lo, hi, FALSE, TRUE), fwd |-> TRUE]
CPrev(cu, lo, hi) ==
  IF cu.nd = 0 THEN (IF cu.fwd THEN CLast(lo, hi) ELSE cu)
  ELSE [nd |-> Fill(FindLT(KeyOf(cu.nd)), lo, hi, TRUE, FALSE), fwd |-> FALSE]

NodeRep(x) == IF x = 0 THEN <<"none", -1, 0>> ELSE <<"none", KeyOf(x), nodes[x].val>>

-----------------------------------------------------------------------------
(* The writer *)

WOps == {[op |-> "put", k |-> k, kl |-> KLen(k), v |-> wbeg + 1, vl |-> l] : k \in Keys, l \in VLens}
        \cup {[op |-> "del", k |-> k, kl |-> 0, v |-> 0, vl |-> 0] : k \in Keys}
        \cup (IF WithReset THEN {[op |-> "clear", k |-> 0, kl |-> 0, v |-> 0, vl |-> 0]} ELSE {})

MCWBegin ==
  /\ wpc = "idle" /\ wbeg < MaxW
  /\ \E o \in WOps :
       /\ WBegin(o)
       /\ wop' = o
  /\ wpc' = "begun"
  /\ UNCHANGED <<nodes, head, rpc, rres, rcur, ncalls>>

MCWCrit ==
  /\ wpc = "begun"
  /\ CASE wop.op = "put"   -> ImplPut(wop.k, wop.v, wop.vl)
       [] wop.op = "del"   -> ImplDelete(wop.k)
       [] wop.op = "clear" -> ImplReset
  /\ wpc' = "applied"
  /\ UNCHANGED <<mvars, wop, rpc, rres, rcur, ncalls>>

MCWEnd ==
  /\ wpc = "applied"
  /\ WEnd(IF used <= cap THEN cap ELSE used)
  /\ wpc' = "idle"
  /\ UNCHANGED <<nodes, head, wop, rpc, rres, rcur, ncalls>>

-----------------------------------------------------------------------------
(* Readers *)

Calls(r) == {[op |-> o, k |-> k, h |-> r, mv |-> "none", arg |-> 0] : o \in CallOps \ {"iter"}, k \in Keys}
            \cup (IF cits[r].rel \/ "iter" \notin CallOps THEN {} ELSE
                  {[op |-> "iter", k |-> 0, h |-> r, mv |-> m, arg |-> 0] : m \in {"first", "last", "next", "prev"}}
                  \cup {[op |-> "iter", k |-> 0, h |-> r, mv |-> "seek", arg |-> x] : x \in Keys})

MCRInv(r) ==
  /\ rpc[r] = "idle" /\ ncalls[r] < MaxCalls
  /\ \E c \in Calls(r) : RInvoke(r, c)
  /\ rpc' = [rpc EXCEPT ![r] = "inv"]
  /\ ncalls' = [ncalls EXCEPT ![r] = @ + 1]
  /\ UNCHANGED <<nodes, head, wpc, wop, rres, rcur>>

\* the critical section under the read lock
MCRCrit(r) ==
  /\ rpc[r] = "inv"
  /\ LET o == open[r]
         lo == cits[r].lo
         hi == cits[r].hi IN
     IF o.op = "iter"
     THEN LET cu == CASE o.mv = "first" -> CFirst(lo, hi)
                      [] o.mv = "last"  -> CLast(lo, hi)
                      [] o.mv = "seek"  -> CSeek(lo, hi, o.arg)
                      [] o.mv = "next"  -> CNext(rcur[r], lo, hi)
                      [] o.mv = "prev"  -> CPrev(rcur[r], lo, hi) IN
          /\ rcur' = [rcur EXCEPT ![r] = cu]
          /\ rres' = [rres EXCEPT ![r] = NodeRep(cu.nd)]
     ELSE /\ rcur' = rcur
          /\ rres' = [rres EXCEPT ![r] =
                CASE o.op = "get"  -> IF FindEq(o.k) = 0 THEN <<"notfound", -1, 0>> ELSE NodeRep(FindEq(o.k))
                  [] o.op = "find" -> IF FindGE(o.k) = 0 THEN <<"notfound", -1, 0>> ELSE NodeRep(FindGE(o.k))
                  [] o.op = "has"  -> IF FindEq(o.k) = 0 THEN <<"none", -1, 0>> ELSE <<"none", o.k, 1>>]
  /\ rpc' = [rpc EXCEPT ![r] = "read"]
  /\ UNCHANGED <<mvars, nodes, head, wpc, wop, ncalls>>

MCRResp(r) ==
  /\ rpc[r] = "read"
  /\ RRespond(r, rres[r])
  /\ rpc' = [rpc EXCEPT ![r] = "idle"]
  /\ rres' = [rres EXCEPT ![r] = <<"none", -1, 0>>]
  /\ UNCHANGED <<nodes, head, wpc, wop, rcur, ncalls>>

-----------------------------------------------------------------------------

MCInit ==
  /\ map = Empty /\ kl = Zero /\ vl = Zero
  /\ n = 0 /\ size = 0 /\ used = 0 /\ cap = 0
  /\ its = <<>> /\ open = <<>>
  /\ wbeg = 0 /\ wdone = 0 /\ hist = (0 :> Empty)
  /\ res = <<"init">>
  /\ \E f \in [Readers -> Ranges] :
       cits = [r \in Readers |-> [lo |-> f[r][1], hi |-> f[r][2], pos |-> SOI, since |-> 0, anchor |-> 0,
                                  exact |-> TRUE, rel |-> FALSE]]
  /\ nodes = <<>> /\ head = 0
  /\ wpc = "idle" /\ wop = NoOp
  /\ rpc = [r \in Readers |-> "idle"]
  /\ rres = [r \in Readers |-> <<"none", -1, 0>>]
  /\ rcur = [r \in Readers |-> [nd |-> 0, fwd |-> FALSE]]
  /\ ncalls = [r \in Readers |-> 0]

MCNext ==
  \/ MCWBegin \/ MCWCrit \/ MCWEnd
  \/ \E r \in Readers : MCRInv(r) \/ MCRCrit(r) \/ MCRResp(r)

MCSpec == MCInit /\ [][MCNext]_allvars

-----------------------------------------------------------------------------
(* Properties *)

TypeOK ==
  /\ map \in [Keys -> 0 .. MaxW]
  /\ n \in 0 .. NK /\ size >= 0 /\ used >= 0 /\ cap >= 0
  /\ wdone <= wbeg /\ wbeg <= wdone + 1
  /\ \A i \in wdone .. wbeg : i \in Dom(hist)
  /\ hist[wbeg] = map

Sorted == \A i \in 1 .. (Len(Linked) - 1) : KeyOf(Linked[i]) < KeyOf(Linked[i + 1])

\* the counters kept by Put / Delete agree with the structure
ImplAgrees ==
  /\ ImplMap = (IF wpc = "begun" THEN hist[wdone] ELSE map)
  /\ wpc # "begun" => Len(Linked) = n /\ ImplSize = size

\* every reply of the coded readers is accepted by the contract's RRespond
ImplExplained == \A r \in Readers : rpc[r] = "read" => Explained(open[r], rres[r], wbeg)

\* the contract's cursor position is where the coded cursor is
CursorAgrees ==
  \A r \in Readers : rpc[r] = "idle" /\ ~cits[r].rel =>
     cits[r].pos = (IF rcur[r].nd # 0 THEN KeyOf(rcur[r].nd) ELSE IF rcur[r].fwd THEN EOI ELSE SOI)

\* C14 in its own words: a forward walk never goes down, and only stored pairs are yielded
ForwardUp ==
  \A r \in Readers : (rpc[r] = "read" /\ open[r].op = "iter" /\ open[r].mv = "next" /\ rres[r][2] # -1) =>
     rres[r][2] > cits[r].pos
OnlyStored ==
  \A r \in Readers : (rpc[r] = "read" /\ open[r].op \in {"get", "find", "iter"} /\ rres[r][2] # -1) =>
     \E i \in Dom(hist) : hist[i][rres[r][2]] = rres[r][3]

\* res is output only.  A reader that has made all its calls is retired: its cursor, and the
\* history kept only for it, cannot influence anything any more.
Retired(r) == ncalls[r] = MaxCalls /\ rpc[r] = "idle"
LiveCits == [r \in {x \in Readers : ~Retired(x)} |-> cits[r]]
MCView == <<map, kl, vl, n, size, used, cap, its, Keep(hist, Needed(open, LiveCits, wdone)), wbeg, wdone, open,
            LiveCits, [r \in Readers |-> IF Retired(r) THEN <<>> ELSE <<rpc[r], rres[r], rcur[r], ncalls[r]>>],
            nodes, head, wpc, IF wpc = "idle" THEN NoOp ELSE wop>>
=============================================================================
