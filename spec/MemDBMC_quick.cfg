SPECIFICATION MCSpec
CONSTANTS
  NK = 3
  MaxW = 2
  Readers = {1, 2}
  MaxCalls = 1
  Ranges <- Ranges2
  VLens = {0, 2}
  WithReset = FALSE
VIEW MCView
INVARIANTS TypeOK Accounting Sorted ImplAgrees ImplExplained CursorAgrees ForwardUp OnlyStored
CHECK_DEADLOCK FALSE
