\* two readers: the shared history window
SPECIFICATION MCSpec
CONSTANTS
  NK = 3
  MaxW = 2
  Readers = {1, 2}
  MaxCalls = 1
  Ranges <- Ranges1
  VLens = {1}
  WithReset = FALSE
  CallOps = {"get", "iter"}
VIEW MCView
INVARIANTS TypeOK Accounting Sorted ImplAgrees ImplExplained CursorAgrees ForwardUp OnlyStored
CHECK_DEADLOCK FALSE
