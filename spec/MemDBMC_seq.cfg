\* writer only: accounting of Put (new key, overwrite with another value length), Delete, Reset
SPECIFICATION MCSpec
CONSTANTS
  NK = 3
  MaxW = 4
  Readers = {}
  MaxCalls = 0
  Ranges <- Ranges1
  VLens = {0, 2}
  WithReset = TRUE
  CallOps = {"get"}
VIEW MCView
INVARIANTS TypeOK Accounting Sorted ImplAgrees ImplExplained CursorAgrees ForwardUp OnlyStored
CHECK_DEADLOCK FALSE
