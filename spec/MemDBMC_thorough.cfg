\* one reader, four writes (the shortest histories in which Next follows a stale link to a deleted or bypassed key), Reset
SPECIFICATION MCSpec
CONSTANTS
  NK = 3
  MaxW = 4
  Readers = {1}
  MaxCalls = 2
  Ranges <- Ranges1
  VLens = {1}
  WithReset = TRUE
  CallOps = {"find", "iter"}
VIEW MCView
INVARIANTS TypeOK Accounting Sorted ImplAgrees ImplExplained CursorAgrees ForwardUp OnlyStored
CHECK_DEADLOCK FALSE
