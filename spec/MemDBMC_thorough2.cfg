\* one reader, three calls of every kind, Reset
SPECIFICATION MCSpec
CONSTANTS
  NK = 3
  MaxW = 3
  Readers = {1}
  MaxCalls = 3
  Ranges <- Ranges1
  VLens = {1}
  WithReset = TRUE
  CallOps = {"get", "find", "has", "iter"}
VIEW MCView
INVARIANTS TypeOK Accounting Sorted ImplAgrees ImplExplained CursorAgrees ForwardUp OnlyStored
CHECK_DEADLOCK FALSE
