\* two readers walking concurrently with three writes
SPECIFICATION MCSpec
CONSTANTS
  NK = 3
  MaxW = 3
  Readers = {1, 2}
  MaxCalls = 1
  Ranges <- Ranges1
  VLens = {1}
  WithReset = FALSE
  CallOps = {"iter"}
VIEW MCView
INVARIANTS TypeOK Accounting Sorted ImplAgrees ImplExplained CursorAgrees ForwardUp OnlyStored
CHECK_DEADLOCK FALSE
