\* four keys, bounded and unbounded cursor ranges
SPECIFICATION MCSpec
CONSTANTS
  NK = 4
  MaxW = 3
  Readers = {1}
  MaxCalls = 2
  Ranges <- Ranges2
  VLens = {1}
  WithReset = FALSE
  CallOps = {"iter"}
VIEW MCView
INVARIANTS TypeOK Accounting Sorted ImplAgrees ImplExplained CursorAgrees ForwardUp OnlyStored
CHECK_DEADLOCK FALSE
