SPECIFICATION TraceSpec
CONSTANT NK = 24
VIEW TraceView
POSTCONDITION Report
CHECK_DEADLOCK FALSE
