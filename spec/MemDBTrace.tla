---------------------------- MODULE MemDBTrace ----------------------------
(***************************************************************************)
(* Trace specification for C14: what the driver harness/cmd/memdbchk saw   *)
(* the REAL leveldb/memdb do must be a behaviour of MemDB.tla.             *)
(*                                                                         *)
(* Sequential programs: one NDJSON line per completed call with its reply  *)
(* and Len() / Size() / Free() / Capacity() read right after it.           *)
(* Concurrent histories: the single writer logs `wbeg` before and `wend`   *)
(* after each call, every reader logs `inv` before and `resp` after each   *)
(* call, all through one mutex-protected tracer, so the order of the lines *)
(* is a real-time order: a call's effect lies between its two lines.  A    *)
(* `resp` line is a step only if MemDB!RRespond accepts the reply (some    *)
(* writer state in the call's window explains it).  A line that no action  *)
(* explains stops the trace there; the check reports that line.            *)
(***************************************************************************)
EXTENDS MemDB, Json, IOUtils

Trace == ndJsonDeserialize(IOEnv.TRACE)

VARIABLE l
tvars == <<mvars, l>>

E == Trace[l]
Is(name) == E.ev = name

\* `reset` starts a new program / history on a fresh memdb.New(cmp, cap)
TReset ==
  /\ Is("reset")
  /\ map' = Empty /\ kl' = Zero /\ vl' = Zero
  /\ n' = 0 /\ size' = 0 /\ used' = 0 /\ cap' = E.cap
  /\ its' = <<>> /\ cits' = <<>> /\ open' = <<>>
  /\ wbeg' = 0 /\ wdone' = 0 /\ hist' = (0 :> Empty)
  /\ res' = <<"reset">>

\* Len(), Size(), Free(), Capacity() as read after the call
StatsAfter == n' = E.len /\ size' = E.size /\ cap' = E.cap /\ cap' - used' = E.free

WOp == [op |-> E.op, k |-> E.k, kl |-> E.kl, v |-> E.v, vl |-> E.vl]

\* sequential calls
TWrite == Is("write") /\ Write(WOp, E.cap) /\ res' = <<E.err>> /\ StatsAfter
TGet   == Is("get")   /\ Get(E.k)      /\ res' = <<E.err, E.rk, E.v>> /\ StatsAfter
TFind  == Is("find")  /\ Find(E.k)     /\ res' = <<E.err, E.rk, E.v>> /\ StatsAfter
THas   == Is("has")   /\ Contains(E.k) /\ res' = <<E.err, E.rk, E.v>> /\ StatsAfter
TIterNew == Is("iternew") /\ NewIter(E.h, E.lo, E.hi)
TIter    == Is("iter") /\ IterMove(E.h, E.mv, E.arg)
                       /\ res' = <<E.ok = 1, E.k, E.v, E.err>> /\ E.valid = E.ok /\ StatsAfter
TIterRel == Is("iterrel") /\ IterRelease(E.h)
\* Written by the CHECKER in place of a line it has reported as a known finding: the real
\* cursor is where the real iterator said it is; validation continues from there.
TIterSync ==
  /\ Is("itersync") /\ E.h \in Dom(its)
  /\ its' = [its EXCEPT ![E.h].pos = IF E.ok = 1 THEN E.k ELSE EOI]
  /\ UNCHANGED <<acct, cap, conc, res>>

\* concurrent histories
TWBeg == Is("wbeg") /\ WBegin(WOp)
TWEnd == Is("wend") /\ WEnd(E.cap) /\ res[1] = E.err
                    /\ n = E.len /\ size = E.size /\ E.cap - used = E.free
TCIterNew == Is("citernew") /\ NewCIter(E.h, E.lo, E.hi)
TCIterRel == Is("citerrel") /\ CIterRelease(E.h)
TInv  == Is("inv")  /\ RInvoke(E.r, [op |-> E.op, k |-> E.k, h |-> E.h, mv |-> E.mv, arg |-> E.arg])
TResp == Is("resp") /\ RRespond(E.r, <<E.err, E.k, E.v>>)

TNote == Is("note") /\ UNCHANGED mvars

TraceInit == MemInit(0) /\ l = 1 /\ TLCSet(1, 1)

TraceNext ==
  /\ l <= Len(Trace)
  /\ l' = l + 1
  /\ \/ TReset \/ TWrite \/ TGet \/ TFind \/ THas
     \/ TIterNew \/ TIter \/ TIterRel \/ TIterSync
     \/ TWBeg \/ TWEnd \/ TCIterNew \/ TCIterRel \/ TInv \/ TResp
     \/ TNote
  /\ TLCSet(1, IF TLCGet(1) < l' THEN l' ELSE TLCGet(1))

TraceSpec == TraceInit /\ [][TraceNext]_tvars

\* `res` carries the writer's pending reply between wbeg and wend, so it stays in the view.
TraceView == <<mvars, l>>

Report ==
  /\ PrintT(<<"VERIF-HWM", TLCGet(1), Len(Trace)>>)
  /\ IF TLCGet(1) <= Len(Trace) THEN PrintT(<<"VERIF-STUCK", Trace[TLCGet(1)]>>) ELSE TRUE
=============================================================================
