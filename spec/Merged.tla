------------------------------ MODULE Merged ------------------------------
(***************************************************************************)
(* iterator/merged_iter.go: the k-way merging iterator over child          *)
(* iterators, transcribed method by method (First, Last, Seek, Next, Prev  *)
(* with the direction changes: Next after moving backward re-seeks every   *)
(* child to the current key; Prev after moving forward seeks every OTHER   *)
(* child to the current key and steps it back, or to its last entry).      *)
(* The heap of child indexes is modelled by its content (a set) and "pop"  *)
(* = the child with the smallest (forward) / largest (backward) key.       *)
(* Children are assumed to be correct cursors over disjoint sorted key     *)
(* sets (memdb, table and indexed iterators are checked as such by C13,    *)
(* C14).  Refinement checked by TLC: after every call, what the merged     *)
(* iterator exposes equals a cursor (KV.tla's laws) over the union.        *)
(* Part of C02: this is the iterator dbIter (DbIter.tla) runs on.  The     *)
(* state graph is replayed edge by edge on the real NewMergedIterator by   *)
(* harness/cmd/iterchk.                                                    *)
(***************************************************************************)
EXTENDS Integers, FiniteSets, Sequences, TLC

CONSTANTS NKeys, NIters,
          Variant   \* "code" = as written; "nolast" = Prev after forward without the Last() fallback (sanity: must be refuted)
Keys  == 1 .. NKeys
Iters == 1 .. NIters
SOI == 0
EOI == NKeys + 1
Nil == -1

VARIABLES
  own,     \* Keys -> Iters : which child holds each key (every partition is an initial state)
  cp,      \* child cursor: SOI | key | EOI
  keys,    \* Iters -> key | Nil          (i.keys)
  heap,    \* set of child indexes in the heap
  index,   \* i.index
  dir,     \* "soi" | "eoi" | "fwd" | "bwd"
  ok,      \* last return value
  last,    \* <<method, argument>> of the last call (output only; used to replay the graph on the code)
  opos     \* oracle cursor over the union: SOI | key | EOI

vars == <<own, cp, keys, heap, index, dir, ok, last, opos>>

KeysOf(x) == {k \in Keys : own[k] = x}
MinS(S) == CHOOSE a \in S : \A b \in S : a <= b
MaxS(S) == CHOOSE a \in S : \A b \in S : a >= b

\* a correct child cursor
CFirst(x)   == IF KeysOf(x) = {} THEN EOI ELSE MinS(KeysOf(x))
CLast(x)    == IF KeysOf(x) = {} THEN SOI ELSE MaxS(KeysOf(x))
CSeek(x, k) == LET S == {a \in KeysOf(x) : a >= k} IN IF S = {} THEN EOI ELSE MinS(S)
CNext(x, p) == IF p = EOI THEN EOI ELSE LET S == {a \in KeysOf(x) : a > p} IN IF S = {} THEN EOI ELSE MinS(S)
CPrev(x, p) == IF p = SOI THEN SOI ELSE LET S == {a \in KeysOf(x) : a < p} IN IF S = {} THEN SOI ELSE MaxS(S)
Valid(p) == p # SOI /\ p # EOI

\* the oracle: a cursor over all keys
OFirst    == IF Keys = {} THEN EOI ELSE MinS(Keys)
OLast     == IF Keys = {} THEN SOI ELSE MaxS(Keys)
OSeek(k)  == LET S == {a \in Keys : a >= k} IN IF S = {} THEN EOI ELSE MinS(S)
ONext(p)  == IF p = EOI THEN EOI ELSE LET S == {a \in Keys : a > p} IN IF S = {} THEN EOI ELSE MinS(S)
OPrev(p)  == IF p = SOI THEN SOI ELSE LET S == {a \in Keys : a < p} IN IF S = {} THEN SOI ELSE MaxS(S)

Init == /\ own \in [Keys -> Iters]
        /\ cp = [x \in Iters |-> SOI] /\ keys = [x \in Iters |-> Nil] /\ heap = {}
        /\ index = 1 /\ dir = "soi" /\ ok = FALSE /\ opos = SOI /\ last = <<"new", 0>>

\* next(): pop the smallest
PopMin(h, ks) == CHOOSE x \in h : \A y \in h : ks[x] <= ks[y]
PopMax(h, ks) == CHOOSE x \in h : \A y \in h : ks[x] >= ks[y]

\* position every child with f, rebuild the heap, then next()
ForwardFrom(f(_)) ==
  LET ncp == [x \in Iters |-> f(x)]
      nks == [x \in Iters |-> IF Valid(ncp[x]) THEN ncp[x] ELSE Nil]
      h   == {x \in Iters : Valid(ncp[x])}
  IN /\ cp' = ncp
     /\ IF h = {} THEN /\ keys' = nks /\ heap' = h /\ dir' = "eoi" /\ ok' = FALSE /\ UNCHANGED index
        ELSE LET m == PopMin(h, nks) IN
             /\ keys' = nks /\ heap' = h \ {m} /\ index' = m /\ dir' = "fwd" /\ ok' = TRUE

First == ForwardFrom(CFirst) /\ opos' = OFirst /\ UNCHANGED own /\ last' = <<"First", 0>>
Seek(k) == ForwardFrom(LAMBDA x : CSeek(x, k)) /\ opos' = OSeek(k) /\ UNCHANGED own /\ last' = <<"Seek", k>>

Last ==
  LET ncp == [x \in Iters |-> CLast(x)]
      nks == [x \in Iters |-> IF Valid(ncp[x]) THEN ncp[x] ELSE Nil]
      h   == {x \in Iters : Valid(ncp[x])}
  IN /\ cp' = ncp /\ opos' = OLast /\ UNCHANGED own /\ last' = <<"Last", 0>>
     /\ IF h = {} THEN /\ keys' = nks /\ heap' = h /\ dir' = "soi" /\ ok' = FALSE /\ UNCHANGED index
        ELSE LET m == PopMax(h, nks) IN
             /\ keys' = nks /\ heap' = h \ {m} /\ index' = m /\ dir' = "bwd" /\ ok' = TRUE

\* the tail of Next(): advance the current child, push it back if valid, pop the smallest
StepForward(c, ks, h, x) ==
  LET p   == CNext(x, c[x])
      nc  == [c EXCEPT ![x] = p]
      nks == [ks EXCEPT ![x] = IF Valid(p) THEN p ELSE Nil]
      nh  == IF Valid(p) THEN h \cup {x} ELSE h
  IN /\ cp' = nc
     /\ IF nh = {} THEN /\ keys' = nks /\ heap' = nh /\ dir' = "eoi" /\ ok' = FALSE /\ UNCHANGED index
        ELSE LET m == PopMin(nh, nks) IN
             /\ keys' = nks /\ heap' = nh \ {m} /\ index' = m /\ dir' = "fwd" /\ ok' = TRUE

Next ==
  /\ opos' = (IF opos = SOI THEN OFirst ELSE ONext(opos)) /\ UNCHANGED own /\ last' = <<"Next", 0>>
  /\ CASE dir = "eoi" -> ok' = FALSE /\ UNCHANGED <<cp, keys, heap, index, dir>>
       [] dir = "soi" -> ForwardFrom(CFirst)
       [] dir = "bwd" ->
            \* Seek(current key), then Next()
            LET k   == keys[index]
                c1  == [x \in Iters |-> CSeek(x, k)]
                k1  == [x \in Iters |-> IF Valid(c1[x]) THEN c1[x] ELSE Nil]
                h1  == {x \in Iters : Valid(c1[x])}
            IN IF h1 = {} THEN /\ cp' = c1 /\ keys' = k1 /\ heap' = h1 /\ dir' = "eoi" /\ ok' = FALSE /\ UNCHANGED index
               ELSE LET m == PopMin(h1, k1) IN StepForward(c1, k1, h1 \ {m}, m)
       [] dir = "fwd" -> StepForward(cp, keys, heap, index)

StepBackward(c, ks, h, x) ==
  LET p   == CPrev(x, c[x])
      nc  == [c EXCEPT ![x] = p]
      nks == [ks EXCEPT ![x] = IF Valid(p) THEN p ELSE Nil]
      nh  == IF Valid(p) THEN h \cup {x} ELSE h
  IN /\ cp' = nc
     /\ IF nh = {} THEN /\ keys' = nks /\ heap' = nh /\ dir' = "soi" /\ ok' = FALSE /\ UNCHANGED index
        ELSE LET m == PopMax(nh, nks) IN
             /\ keys' = nks /\ heap' = nh \ {m} /\ index' = m /\ dir' = "bwd" /\ ok' = TRUE

Prev ==
  /\ opos' = (IF opos = EOI THEN OLast ELSE OPrev(opos)) /\ UNCHANGED own /\ last' = <<"Prev", 0>>
  /\ CASE dir = "soi" -> ok' = FALSE /\ UNCHANGED <<cp, keys, heap, index, dir>>
       [] dir = "eoi" ->
            LET ncp == [x \in Iters |-> CLast(x)]
                nks == [x \in Iters |-> IF Valid(ncp[x]) THEN ncp[x] ELSE Nil]
                h   == {x \in Iters : Valid(ncp[x])}
            IN /\ cp' = ncp
               /\ IF h = {} THEN /\ keys' = nks /\ heap' = h /\ dir' = "soi" /\ ok' = FALSE /\ UNCHANGED index
                  ELSE LET m == PopMax(h, nks) IN
                       /\ keys' = nks /\ heap' = h \ {m} /\ index' = m /\ dir' = "bwd" /\ ok' = TRUE
       [] dir = "fwd" ->
            \* every OTHER child: Seek(key) and step back, or (if past its end) its last entry
            LET k  == keys[index]
                c1 == [x \in Iters |-> IF x = index THEN cp[x]
                                       ELSE LET s == CSeek(x, k) IN
                                            IF Valid(s) THEN CPrev(x, s) ELSE IF Variant = "nolast" THEN s ELSE CLast(x)]
                k1 == [x \in Iters |-> IF x = index THEN keys[x] ELSE IF Valid(c1[x]) THEN c1[x] ELSE Nil]
                h1 == {x \in Iters \ {index} : Valid(c1[x])}
            IN StepBackward(c1, k1, h1, index)
       [] dir = "bwd" -> StepBackward(cp, keys, heap, index)

Step == First \/ Last \/ Next \/ Prev \/ \E k \in 0 .. (NKeys + 1) : Seek(k)
Spec == Init /\ [][Step]_vars

\* what the merged iterator exposes = the oracle cursor
Exposed == IF dir \in {"fwd", "bwd"} THEN keys[index] ELSE IF dir = "soi" THEN SOI ELSE EOI
Agree == /\ Exposed = opos
         /\ ok = Valid(opos)
\* a child that is in the heap is positioned on the key recorded for it
HeapSane == \A x \in heap : Valid(cp[x]) /\ keys[x] = cp[x]
=============================================================================
