SPECIFICATION Spec
CONSTANTS
  NKeys = 4
  NIters = 3
  Variant = "nolast"
INVARIANTS Agree HeapSane
CHECK_DEADLOCK FALSE
