SPECIFICATION Spec
CONSTANTS
  NKeys = 5
  NIters = 3
  Variant = "code"
INVARIANTS Agree HeapSane
CHECK_DEADLOCK FALSE
