----------------------------- MODULE ReadPath -----------------------------
(* One reader's acquisition steps against the publication steps of a writer,
   a buffer rotation, a flush (install version, then drop the frozen buffer)
   and a table compaction that drops shadowed entries below the oldest registered reader.  One user key; values = sequence numbers.
   db.go get / db_iter.go newRawIterator  vs  db_write.go writeLocked,
   db_state.go newMem/dropFrozenMem, db_compaction.go memCompaction.     *)
EXTENDS Naturals, FiniteSets, TLC, FiniteSetsExt
CONSTANTS MaxSeq, ReaderOrder,   \* "mems-then-version" (as coded) | "version-then-mems"
          WriterOrder,           \* "insert-then-publish" (as coded) | "publish-then-insert"
          FlushOrder,            \* "install-then-drop" (as coded) | "drop-then-install"
          ReaderPin              \* TRUE (as coded: the reader's sequence is registered in the snapshot list before anything else) | FALSE
VARIABLES seq,        \* published sequence (db.seq)
          wseq,       \* highest sequence inserted into the mutable buffer
          mem, imm,   \* sets of sequence numbers (entries of the single key)
          ver,        \* current version id
          tabs,       \* version id -> set of sequence numbers stored in tables
          fl,         \* flush stage: "idle" | "built" | "installed" | "dropped"
          rd          \* reader record
vars == <<seq, wseq, mem, imm, ver, tabs, fl, rd>>
NoRd == [pc |-> "idle", s |-> 0, lo |-> 0, m |-> {}, i |-> {}, v |-> 0, got |-> 0, hi |-> 0, n |-> 0]

Init == /\ seq = 0 /\ wseq = 0 /\ mem = {} /\ imm = {} /\ ver = 0 /\ tabs = (0 :> {})
        /\ fl = "idle" /\ rd = NoRd

\* ---- writer ----
WInsert == /\ (WriterOrder = "insert-then-publish" => wseq = seq) /\ (WriterOrder = "publish-then-insert" => wseq < seq)
           /\ wseq < MaxSeq /\ wseq' = wseq + 1 /\ mem' = mem \cup {wseq + 1}
           /\ UNCHANGED <<seq, imm, ver, tabs, fl, rd>>
WPublish == /\ (WriterOrder = "insert-then-publish" => seq < wseq) /\ (WriterOrder = "publish-then-insert" => seq = wseq /\ seq < MaxSeq)
            /\ seq' = seq + 1 /\ UNCHANGED <<wseq, mem, imm, ver, tabs, fl, rd>>
\* ---- rotation (writer holds the write lock; no half-applied group) ----
Rotate == /\ wseq = seq /\ imm = {} /\ fl = "idle" /\ mem # {}
          /\ imm' = mem /\ mem' = {} /\ UNCHANGED <<seq, wseq, ver, tabs, fl, rd>>
\* ---- flush ----
Install == /\ tabs' = tabs @@ ((ver + 1) :> (tabs[ver] \cup imm)) /\ ver' = ver + 1
Drop == imm' = {}
FBuild == /\ fl = "idle" /\ imm # {} /\ fl' = "built" /\ UNCHANGED <<seq, wseq, mem, imm, ver, tabs, rd>>
F1 == /\ fl = "built"
      /\ IF FlushOrder = "install-then-drop" THEN Install /\ UNCHANGED imm ELSE Drop /\ UNCHANGED <<ver, tabs>>
      /\ fl' = "half" /\ UNCHANGED <<seq, wseq, mem, rd>>
F2 == /\ fl = "half"
      /\ IF FlushOrder = "install-then-drop" THEN Drop /\ UNCHANGED <<ver, tabs>>
         ELSE /\ tabs' = tabs @@ ((ver + 1) :> (tabs[ver] \cup rd.n)) /\ ver' = ver + 1 /\ UNCHANGED imm
      /\ fl' = "idle" /\ UNCHANGED <<seq, wseq, mem, rd>>
\* ---- reader ----
R1 == /\ rd.pc = "idle" /\ rd' = [NoRd EXCEPT !.pc = "r1", !.s = seq, !.lo = seq]
      /\ UNCHANGED <<seq, wseq, mem, imm, ver, tabs, fl>>
TakeMems == [rd EXCEPT !.m = mem, !.i = imm]
TakeVer  == [rd EXCEPT !.v = ver]
R2 == /\ rd.pc = "r1"
      /\ rd' = [(IF ReaderOrder = "mems-then-version" THEN TakeMems ELSE TakeVer) EXCEPT !.pc = "r2"]
      /\ UNCHANGED <<seq, wseq, mem, imm, ver, tabs, fl>>
R3 == /\ rd.pc = "r2"
      /\ LET r == IF ReaderOrder = "mems-then-version" THEN TakeVer ELSE TakeMems
             visible == {x \in r.m \cup r.i \cup tabs[r.v] : x <= r.s}
         IN rd' = [r EXCEPT !.pc = "done", !.got = IF visible = {} THEN 0 ELSE Max(visible), !.hi = seq]
      /\ UNCHANGED <<seq, wseq, mem, imm, ver, tabs, fl>>
RReset == /\ rd.pc = "done" /\ rd' = NoRd /\ UNCHANGED <<seq, wseq, mem, imm, ver, tabs, fl>>

\* ---- table compaction (db_compaction.go tableCompactionBuilder.run): merges the tables; an entry is dropped when a newer
\* entry of the key exists at or below minSeq = the oldest registered reader sequence, or db.seq if there is none.
\* (A flush in progress pauses table compactions.)
MinSeq == IF ReaderPin /\ rd.pc \in {"r1", "r2"} THEN rd.s ELSE seq
Kept(S) == {x \in S : ~ \E y \in S : y > x /\ y <= MinSeq}
Compact == /\ fl = "idle" /\ imm = {} /\ tabs[ver] # {}
           /\ ver < MaxSeq + 2                      \* bound: at most two compactions beyond the flushes
           /\ tabs' = tabs @@ ((ver + 1) :> Kept(tabs[ver])) /\ ver' = ver + 1
           /\ UNCHANGED <<seq, wseq, mem, imm, fl, rd>>

\* the drop-then-install mutant needs the frozen content after it was dropped: remember it
F1m == /\ fl = "built" /\ FlushOrder = "drop-then-install"
       /\ rd' = [rd EXCEPT !.n = imm] /\ Drop /\ fl' = "half" /\ UNCHANGED <<seq, wseq, mem, ver, tabs>>

Next == WInsert \/ WPublish \/ Rotate \/ FBuild
        \/ (FlushOrder = "install-then-drop" /\ F1) \/ F1m \/ F2
        \/ R1 \/ R2 \/ R3 \/ RReset \/ Compact
Spec == Init /\ [][Next]_vars

\* the answer is the model's value at the reader's sequence, which lies within [seq at call, seq at return]
ReadCorrect == rd.pc = "done" => /\ rd.got = rd.s
                                 /\ rd.lo <= rd.s /\ rd.s <= rd.hi
=============================================================================
