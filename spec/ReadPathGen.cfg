CONSTANTS MaxSeq = 2 ReaderOrder = "mems-then-version" WriterOrder = "insert-then-publish" FlushOrder = "install-then-drop" ReaderPin = TRUE
SPECIFICATION GenSpec
INVARIANTS ReadCorrect Emit
CHECK_DEADLOCK FALSE
