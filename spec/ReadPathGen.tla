---------------------------- MODULE ReadPathGen ----------------------------
(***************************************************************************)
(* Behaviour generation for the gate harness (spec -> code): every          *)
(* interleaving of ONE reader's three acquisition steps with the writer's   *)
(* insert/publish steps, a rotation and the flush's build/install/drop      *)
(* steps, as ReadPath.tla (as coded) allows them.  The history variable     *)
(* `sched` records the action names; a finished schedule is printed as one  *)
(* JSON line together with the answer the specification owes the reader.    *)
(* harness/cmd/gatedb forces each schedule on the real DB through the gate  *)
(* hooks and compares the real reader's answer with it.                     *)
(***************************************************************************)
EXTENDS ReadPath, Json, Sequences

VARIABLE sched
gvars == <<vars, sched>>

Step(name, A) == A /\ sched' = Append(sched, name)

GenInit == Init /\ sched = <<>>
GenNext ==
  /\ rd.pc # "done"
  /\ \/ Step("WInsert", WInsert) \/ Step("WPublish", WPublish) \/ Step("Rotate", Rotate)
     \/ Step("FBuild", FBuild) \/ Step("F1", F1) \/ Step("F2", F2)
     \/ Step("R1", R1) \/ Step("R2", R2) \/ Step("R3", R3) \/ Step("Compact", Cardinality(tabs[ver]) >= 2 /\ Compact)   \* compacting a single entry changes nothing a reader can see
GenSpec == GenInit /\ [][GenNext]_gvars

\* printed once per finished schedule (every state with rd.pc = "done" is terminal and distinct)
Emit == rd.pc = "done" => PrintT(<<"VERIF-SCHED", ToJson([sched |-> sched, expect |-> rd.s, lo |-> rd.lo, hi |-> rd.hi])>>)
=============================================================================
