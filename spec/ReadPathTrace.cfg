CONSTANTS MaxSeq = 2 ReaderOrder = "mems-then-version" WriterOrder = "insert-then-publish" FlushOrder = "install-then-drop" ReaderPin = TRUE
SPECIFICATION TSpec
POSTCONDITION Report
CHECK_DEADLOCK FALSE
