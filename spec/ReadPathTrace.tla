--------------------------- MODULE ReadPathTrace ---------------------------
(***************************************************************************)
(* Judges the gate harness's runs (spec -> code, C05): each block of lines  *)
(* is one schedule generated from ReadPathGen.tla, re-executed here step by *)
(* step through ReadPath.tla's own actions, followed by the answer the REAL *)
(* reader gave under that forced schedule.  The monitor is ReadCorrect: the *)
(* answer equals the model's value at the reader's sequence number.         *)
(***************************************************************************)
EXTENDS ReadPath, Json, IOUtils, Sequences

Trace == ndJsonDeserialize(IOEnv.TRACE)
VARIABLE l
tvars == <<vars, l>>
E == Trace[l]

TReset == /\ E.ev = "reset"
          /\ seq' = 0 /\ wseq' = 0 /\ mem' = {} /\ imm' = {} /\ ver' = 0 /\ tabs' = (0 :> {})
          /\ fl' = "idle" /\ rd' = NoRd

TStep == /\ E.ev = "step"
         /\ \/ (E.a = "WInsert" /\ WInsert) \/ (E.a = "WPublish" /\ WPublish) \/ (E.a = "Rotate" /\ Rotate)
            \/ (E.a = "FBuild" /\ FBuild) \/ (E.a = "F1" /\ F1) \/ (E.a = "F2" /\ F2)
            \/ (E.a = "R1" /\ R1) \/ (E.a = "R2" /\ R2) \/ (E.a = "R3" /\ R3) \/ (E.a = "Compact" /\ Compact)

\* the real reader's answer under the forced schedule
TAnswer == /\ E.ev = "answer"
           /\ rd.pc = "done"
           /\ IF E.kind = "has" THEN (E.got = 0) = (rd.s = 0) /\ E.got \in {0, -3}
              ELSE E.got = rd.s
           /\ UNCHANGED vars

TInit == Init /\ l = 1 /\ TLCSet(1, 1)
TNext == /\ l <= Len(Trace) /\ l' = l + 1
         /\ (TReset \/ TStep \/ TAnswer)
         /\ TLCSet(1, IF TLCGet(1) < l' THEN l' ELSE TLCGet(1))
TSpec == TInit /\ [][TNext]_tvars

Report ==
  /\ PrintT(<<"VERIF-HWM", TLCGet(1), Len(Trace)>>)
  /\ IF TLCGet(1) <= Len(Trace) THEN PrintT(<<"VERIF-STUCK", Trace[TLCGet(1)]>>) ELSE TRUE
=============================================================================
