CONSTANTS MaxSeq = 3 ReaderOrder = "version-then-mems" WriterOrder = "insert-then-publish" FlushOrder = "install-then-drop" ReaderPin = TRUE
SPECIFICATION Spec
INVARIANT ReadCorrect
CHECK_DEADLOCK FALSE
