CONSTANTS MaxSeq = 3 ReaderOrder = "mems-then-version" WriterOrder = "publish-then-insert" FlushOrder = "install-then-drop" ReaderPin = TRUE
SPECIFICATION Spec
INVARIANT ReadCorrect
CHECK_DEADLOCK FALSE
