CONSTANTS MaxSeq = 3 ReaderOrder = "mems-then-version" WriterOrder = "insert-then-publish" FlushOrder = "install-then-drop"
SPECIFICATION Spec
INVARIANT ReadCorrect
CHECK_DEADLOCK FALSE
