SPECIFICATION RecSpec
CONSTANT NK = 64
VIEW RecView
POSTCONDITION Report
CHECK_DEADLOCK FALSE
