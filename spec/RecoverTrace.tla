--------------------------- MODULE RecoverTrace ---------------------------
(***************************************************************************)
(* C19: leveldb.Recover on the remains of a cleanly shut down, settled DB   *)
(* whose manifest / CURRENT were removed, truncated or garbled, optionally  *)
(* with damaged table blocks.  Lines:                                       *)
(*   batch      the workload's batches (CrashTrace)                         *)
(*   settled    contents read from the real DB before shutdown: must equal  *)
(*              the fold of the batches; becomes the contract's store       *)
(*   ever       per key, every value ever written to it                     *)
(*   recoverdb  outcome of one Recover: ok, contents, and the keys whose    *)
(*              newest entry was still readable after the damage            *)
(* The monitor is the property statement: Recover succeeds; a key whose     *)
(* newest entry survived has exactly its old state; any other key holds a   *)
(* value that was once written to it, or nothing.  Afterwards the recovered *)
(* DB is used as an ordinary DB (KVTrace lines) until the next `recoverdb`. *)
(***************************************************************************)
EXTENDS CrashTrace

VARIABLES ever, base
rvars == <<cvars, ever, base>>

AllOK == {i \in 1 .. Len(batches) : batches[i].ok}

TSettled ==
  /\ Is("settled")
  /\ PairsToStore(E.store) = FoldW(AllOK)          \* what the DB held at shutdown is what was written (C01)
  /\ store' = FoldW(AllOK) /\ base' = FoldW(AllOK)
  /\ snaps' = <<>> /\ its' = <<>> /\ tx' = NoTx /\ mode' = "closed" /\ ro' = FALSE /\ limbo' = NoLimbo
  /\ res' = <<"settled">>
  /\ UNCHANGED <<batches, ever>>

TEver ==
  /\ Is("ever")
  /\ ever' = [k \in Keys |-> IF k + 1 <= Len(E.vals) THEN {E.vals[k+1][i] : i \in 1 .. Len(E.vals[k+1])} ELSE {}]
  /\ UNCHANGED <<kvvars, batches, base>>

RecoverOK(e) ==
  LET rec == PairsToStore(e.store)
      nok == {e.newest_ok[i] : i \in 1 .. Len(e.newest_ok)}
  IN /\ e.ok = 1
     /\ \A k \in Keys :
          /\ k \in nok => rec[k] = base[k]
          /\ rec[k] = Absent \/ rec[k] \in ever[k]

TRecoverDB ==
  /\ Is("recoverdb")
  /\ RecoverOK(E)
  /\ store' = PairsToStore(E.store)
  /\ snaps' = <<>> /\ its' = <<>> /\ tx' = NoTx /\ mode' = "open" /\ ro' = FALSE /\ limbo' = NoLimbo
  /\ res' = <<"recovered">>
  /\ UNCHANGED <<batches, ever, base>>

RecInit == CrashInit /\ ever = [k \in Keys |-> {}] /\ base = [k \in Keys |-> Absent]

RecNext ==
  /\ Advance
  /\ \/ (CReset /\ ever' = [k \in Keys |-> {}] /\ base' = [k \in Keys |-> Absent])
     \/ (TBatch /\ UNCHANGED <<ever, base>>)
     \/ TSettled \/ TEver \/ TRecoverDB
     \/ (~Is("reset") /\ KVStep /\ UNCHANGED <<batches, ever, base>>)
  /\ Mark

RecSpec == RecInit /\ [][RecNext]_rvars
RecView == <<CrashView, base>>
=============================================================================
