------------------------------ MODULE RefLoop ------------------------------
(* session_util.go refLoop + setVersion / version.incref / releaseNB, with the
   environment that drives it: commits (first commit after open writes a
   snapshot record, as coded), failed commits (abandon), readers pinning and
   unpinning versions in any order.                                         *)
EXTENDS Naturals, Integers, FiniteSets, Sequences, TLC, FiniteSetsExt, Bags
CONSTANTS NFiles, MaxVer, MaxCached, MaxPins, Dedup
Files == 1..NFiles
VARIABLES cur, nextId, vfiles, pins, firstDone, nextFile, removed,
          fileRef, ref, deltas, referenced, released, abandoned, next, last
vars == <<cur, nextId, vfiles, pins, firstDone, nextFile, removed,
          fileRef, ref, deltas, referenced, released, abandoned, next, last>>
NilDelta == [added |-> EmptyBag, deleted |-> {}, nil |-> TRUE]
Delta(a, d) == [added |-> a, deleted |-> d, nil |-> FALSE]

\* ---------- refLoop internals (pure functions on the loop's state record) ----------
St == [fileRef |-> fileRef, ref |-> ref, deltas |-> deltas, referenced |-> referenced,
       released |-> released, abandoned |-> abandoned, next |-> next, last |-> last, rm |-> {}]
Cnt(fr, f) == IF f \in DOMAIN fr THEN fr[f] ELSE 0
SetCnt(fr, f, n) == IF n = 0 THEN [g \in DOMAIN fr \ {f} |-> fr[g]]
                    ELSE [g \in DOMAIN fr \cup {f} |-> IF g = f THEN n ELSE fr[g]]
\* add bag a (file -> count) then subtract set d; removing files whose count reaches 0. Negative = panic (modelled as -1 sentinel via Assert)
RECURSIVE AddAll(_, _)
AddAll(fr, a) == IF a = EmptyBag THEN fr
                 ELSE LET f == CHOOSE x \in DOMAIN a : TRUE IN
                      AddAll(SetCnt(fr, f, Cnt(fr, f) + a[f]), [g \in DOMAIN a \ {f} |-> a[g]])
RECURSIVE SubAll(_, _, _)
SubAll(fr, d, rm) == IF d = {} THEN <<fr, rm>>
                     ELSE LET f == CHOOSE x \in d : TRUE
                              n == Cnt(fr, f) - 1
                          IN IF n < 0 THEN Assert(FALSE, <<"negative ref", f>>)
                             ELSE SubAll(SetCnt(fr, f, n), d \ {f}, IF n = 0 THEN rm \cup {f} ELSE rm)
ApplyDelta(s, d) == IF d.nil THEN s
                    ELSE LET r == SubAll(AddAll(s.fileRef, d.added), d.deleted, s.rm)
                         IN [s EXCEPT !.fileRef = r[1], !.rm = r[2]]
SetToBag1(S) == [f \in S |-> 1]
RECURSIVE Loop1(_)
Loop1(s) ==
  IF s.next \in s.abandoned THEN Loop1([s EXCEPT !.abandoned = @ \ {s.next}, !.next = @ + 1])
  ELSE IF s.next \in DOMAIN s.released THEN s
  ELSE IF s.next \notin s.ref THEN s
  ELSE IF s.last - s.next < MaxCached THEN s
  ELSE LET s1 == [s EXCEPT !.fileRef = AddAll(s.fileRef, SetToBag1(vfiles'[s.next]))]
           s2 == IF s.next \in DOMAIN s.deltas THEN ApplyDelta(s1, s.deltas[s.next]) ELSE s1
       IN Loop1([s2 EXCEPT !.referenced = @ \cup {s.next}, !.ref = @ \ {s.next},
                           !.deltas = [v \in DOMAIN @ \ {s.next} |-> @[v]], !.next = @ + 1])
RECURSIVE Loop2(_)
Loop2(s) ==
  IF s.next \in s.abandoned THEN Loop2([s EXCEPT !.abandoned = @ \ {s.next}, !.next = @ + 1])
  ELSE IF s.next \in DOMAIN s.released
       THEN LET s1 == ApplyDelta(s, s.released[s.next])
            IN Loop2([s1 EXCEPT !.released = [v \in DOMAIN @ \ {s.next} |-> @[v]], !.next = @ + 1])
  ELSE s
Process(s) == Loop2(Loop1(s))
\* messages
OnRef(s, vid) == [s EXCEPT !.ref = @ \cup {vid}, !.last = IF vid > @ THEN vid ELSE @]
OnDelta(s, vid, d) == IF vid \notin s.ref
                        THEN (IF vid \in s.referenced THEN ApplyDelta(s, d) ELSE Assert(FALSE, "invalid release request"))
                        ELSE [s EXCEPT !.deltas = [v \in DOMAIN @ \cup {vid} |-> IF v = vid THEN d ELSE @[v]]]
OnRel(s, vid) ==
  IF vid \in s.referenced
    THEN LET r == SubAll(s.fileRef, vfiles'[vid], s.rm)
         IN [s EXCEPT !.fileRef = r[1], !.rm = r[2], !.referenced = @ \ {vid}]
    ELSE IF vid \notin s.ref THEN Assert(FALSE, "invalid release request 2")
    ELSE [s EXCEPT !.released = [v \in DOMAIN @ \cup {vid} |->
                                   IF v = vid THEN (IF vid \in DOMAIN s.deltas THEN s.deltas[vid] ELSE NilDelta) ELSE @[v]],
                   !.deltas = [v \in DOMAIN @ \ {vid} |-> @[v]], !.ref = @ \ {vid}]
OnAbandon(s, id) == IF id >= s.next THEN [s EXCEPT !.abandoned = @ \cup {id}] ELSE s
Store(s) == /\ fileRef' = s.fileRef /\ ref' = s.ref /\ deltas' = s.deltas /\ referenced' = s.referenced
            /\ released' = s.released /\ abandoned' = s.abandoned /\ next' = s.next /\ last' = s.last
            /\ removed' = removed \cup s.rm

\* ---------- environment ----------
Init == /\ cur = 1 /\ nextId = 2 /\ nextFile = 1 /\ firstDone = FALSE /\ removed = {}
        /\ vfiles = (0 :> {} @@ 1 :> {})
        /\ pins = (0 :> 0 @@ 1 :> 0)
        /\ fileRef = <<>> /\ ref = {1} /\ deltas = <<>> /\ referenced = {} /\ released = <<>>
        /\ abandoned = {} /\ next = 1 /\ last = 1

\* a commit that adds nAdd fresh files and deletes a subset of the current files
CommitOK ==
  /\ nextId <= MaxVer
  /\ \E nAdd \in 0..1, del \in SUBSET vfiles[cur] :
       /\ nextFile + nAdd - 1 <= NFiles
       /\ (nAdd > 0 \/ del # {})
       /\ (~firstDone => del = {})                         \* recovery commit deletes nothing
       /\ LET add == nextFile..(nextFile + nAdd - 1)
              nv  == (vfiles[cur] \ del) \cup add
              id  == nextId
              \* as coded: the first commit after open goes through newManifest(r, nv), whose
              \* v.fillRecord(r) appends every table of nv to r.addedTables -> r's own additions twice
              addedBag == IF firstDone THEN SetToBag1(add)
                          ELSE IF Dedup THEN SetToBag1(nv)
                          ELSE SetToBag1(nv) (+) SetToBag1(add)
          IN /\ vfiles' = vfiles @@ (id :> nv)
             /\ pins' = pins @@ (id :> 0)
             /\ LET s1 == Process(OnRef(St, id))
                    s2 == Process(OnDelta(s1, cur, Delta(addedBag, del)))
                    s3 == IF pins[cur] = 0 THEN Process(OnRel(s2, cur)) ELSE s2
                IN Store(s3)
             /\ cur' = id /\ nextId' = id + 1 /\ nextFile' = nextFile + nAdd /\ firstDone' = TRUE
CommitFail ==
  /\ nextId <= MaxVer /\ firstDone
  /\ vfiles' = vfiles /\ Store(Process(OnAbandon(St, nextId)))
  /\ nextId' = nextId + 1 /\ UNCHANGED <<cur, pins, firstDone, nextFile>>
Pin == /\ pins[cur] < MaxPins /\ pins' = [pins EXCEPT ![cur] = @ + 1]
       /\ UNCHANGED <<cur, nextId, vfiles, firstDone, nextFile, removed, fileRef, ref, deltas, referenced, released, abandoned, next, last>>
Unpin == \E v \in DOMAIN pins :
           /\ pins[v] > 0 /\ pins' = [pins EXCEPT ![v] = @ - 1]
           /\ vfiles' = vfiles
           /\ IF v # cur /\ pins[v] = 1 THEN Store(Process(OnRel(St, v)))
              ELSE UNCHANGED <<removed, fileRef, ref, deltas, referenced, released, abandoned, next, last>>
           /\ UNCHANGED <<cur, nextId, firstDone, nextFile>>
Next == CommitOK \/ CommitFail \/ Pin \/ Unpin
Spec == Init /\ [][Next]_vars

\* ---------- properties ----------
Needed == vfiles[cur] \cup UNION {vfiles[v] : v \in {x \in DOMAIN pins : pins[x] > 0}}
NoPrematureRemove == removed \cap Needed = {}
Created == 1..(nextFile - 1)
Settled == \A v \in DOMAIN pins : pins[v] = 0
NoGarbageWhenSettled == (Settled /\ firstDone) => (Created \ removed) = vfiles[cur]
=============================================================================
