CONSTANTS NFiles = 4 MaxVer = 6 MaxCached = 2 MaxPins = 1 Dedup = FALSE
SPECIFICATION Spec
INVARIANTS NoPrematureRemove NoGarbageWhenSettled
CHECK_DEADLOCK FALSE
