CONSTANTS NFiles = 5 MaxVer = 7 MaxCached = 2 MaxPins = 1 Dedup = TRUE
SPECIFICATION Spec
INVARIANTS NoPrematureRemove NoGarbageWhenSettled
CHECK_DEADLOCK FALSE
