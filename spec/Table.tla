------------------------------ MODULE Table ------------------------------
(***************************************************************************)
(* A sorted table as goleveldb's table package builds and reads it         *)
(* (leveldb/table/{writer,reader}.go, leveldb/iterator/indexed_iter.go).   *)
(*                                                                         *)
(* A table is a strictly increasing list of (key rank, value id) pairs cut *)
(* into data blocks, an index with one separator per block                 *)
(*      last_key(block i) <= sep_i < first_key(block i+1)                  *)
(* (any key in that interval: the writer may shorten it), an optional      *)
(* filter (an oracle that must say "may contain" for every added key and   *)
(* may say anything for the others), a metaindex block and the index       *)
(* block.  Every block carries a checksum: a block is either intact or     *)
(* damaged, and with checksum verification on a damaged block cannot be    *)
(* read at all.                                                            *)
(*                                                                         *)
(* Keys are ranks 0 .. NK-1 in the comparer's order.  A separator is the   *)
(* rank of the largest key of the universe that is <= the separator's      *)
(* bytes (-1: below every key), which is all a lookup of a universe key    *)
(* can tell about it.                                                      *)
(*                                                                         *)
(* The reads are written the way the reader performs them: index seek,     *)
(* filter test, block seek, fall through to the next block; the iterator   *)
(* is the two-level (index / data block) iterator with range slicing.      *)
(* TableMC.tla checks on small constants, for every layout, separator      *)
(* choice and damaged set, that they equal the sorted-map oracle and the   *)
(* cursor laws of KV.tla (C02's oracle), or report corruption.             *)
(* TableTrace.tla binds the replies of the real table.Reader to them.      *)
(***************************************************************************)
EXTENDS Integers, Sequences, FiniteSets, TLC

CONSTANTS NK          \* keys are 0 .. NK-1

VARIABLES
  tbl,    \* the table as written (record, see Build)
  dmg,    \* damaged blocks: [data : SUBSET 1..NB, index, meta, filter : BOOLEAN]
  cur,    \* the iterator: [open, lo, hi, pos, dead]
  res     \* reply of the last call

tvars == <<tbl, dmg, cur, res>>

\* The cursor laws are those of the KV contract (C02): same operators, no copy.
K == INSTANCE KV WITH store <- 0, snaps <- 0, its <- 0, tx <- 0, mode <- 0, ro <- 0, limbo <- 0, res <- 0

Keys == 0 .. (NK - 1)
SOI  == -1            \* before the first pair (also: "no lower bound")
EOI  == NK            \* after the last pair  (also: "no upper bound")
ERR  == -9            \* a move that ran into a damaged block

MinOf(S) == CHOOSE x \in S : \A y \in S : x <= y
MaxOf(S) == CHOOSE x \in S : \A y \in S : x >= y

NoDmg == [data |-> {}, index |-> FALSE, meta |-> FALSE, filter |-> FALSE]
NoCur == [open |-> FALSE, lo |-> SOI, hi |-> EOI, pos |-> SOI, dead |-> FALSE]
NoTbl == [blocks |-> << <<>> >>, seps |-> <<-1>>, filter |-> FALSE, strict |-> TRUE,
          offs |-> <<0>>, dataEnd |-> 1, size |-> 1,
          view |-> [k \in Keys |-> 0], bof |-> [k \in Keys |-> 0]]

-----------------------------------------------------------------------------
(* Layout *)

BKeys(b)   == {b[i][1] : i \in 1 .. Len(b)}
NB(t)      == Len(t.blocks)
TKeys(t)   == {k \in Keys : t.view[k] # 0}
Sorted(b)  == \A i \in 1 .. Len(b) - 1 : b[i][1] < b[i+1][1]
FirstK(b)  == b[1][1]
LastK(b)   == b[Len(b)][1]

\* What the writer owes (C13, layout part).  raw = [blocks, seps, filter, strict, offs, dataEnd, size].
WellFormed(raw) ==
  LET bs == raw.blocks  n == Len(bs) IN
  /\ n >= 1 /\ Len(raw.seps) = n /\ Len(raw.offs) = n
  /\ \A i \in 1 .. n : /\ Sorted(bs[i])
                       /\ \A j \in 1 .. Len(bs[i]) : bs[i][j][1] \in Keys /\ bs[i][j][2] >= 1
  /\ n = 1 \/ \A i \in 1 .. n : bs[i] # <<>>            \* only the empty table has an empty block
  /\ \A i \in 1 .. n : raw.seps[i] \in -1 .. NK
  /\ \A i \in 1 .. n - 1 : LastK(bs[i]) <= raw.seps[i] /\ raw.seps[i] < FirstK(bs[i+1])
  /\ bs[n] # <<>> => LastK(bs[n]) <= raw.seps[n]
  /\ raw.offs[1] = 0
  /\ \A i \in 1 .. n - 1 : raw.offs[i] < raw.offs[i+1]
  /\ raw.offs[n] < raw.dataEnd /\ raw.dataEnd <= raw.size

\* Derived lookup tables, computed once per table.
Derive(raw) ==
  LET bs == raw.blocks
      bof == [k \in Keys |-> LET S == {i \in 1 .. Len(bs) : k \in BKeys(bs[i])} IN
                             IF S = {} THEN 0 ELSE MinOf(S)]
      val(k) == LET b == bs[bof[k]]
                    j == CHOOSE j \in 1 .. Len(b) : b[j][1] = k IN b[j][2]
  IN [blocks |-> bs, seps |-> raw.seps, filter |-> raw.filter, strict |-> raw.strict,
      offs |-> raw.offs, dataEnd |-> raw.dataEnd, size |-> raw.size,
      bof |-> bof, view |-> [k \in Keys |-> IF bof[k] = 0 THEN 0 ELSE val(k)]]

\* index seek: blocks in from..to whose separator is >= x
SepGE(t, x, from, to) == {i \in from .. to : t.seps[i] >= x}

-----------------------------------------------------------------------------
(* Lookups, as Reader.find performs them.                                  *)
(* Replies: <<"none", key, value>>, <<"notfound", -1, 0>>, <<"corrupt", -1, 0>>. *)

Hit(t, k) == <<"none", k, t.view[k]>>
Miss      == <<"notfound", -1, 0>>
Corrupt   == <<"corrupt", -1, 0>>

\* f: the caller asked for the filter test; mc: what the filter says about a key
\* that was NOT added to the probed block (for an added key it must say yes).
FindRes(t, d, k, f, mc) ==
  IF d.meta \/ d.index THEN Corrupt                       \* nothing can be located
  ELSE LET S == SepGE(t, k, 1, NB(t)) IN
    IF S = {} THEN Miss
    ELSE LET b == MinOf(S)
             useFilter == f /\ t.filter /\ ~d.filter      \* a damaged filter is ignored
             mayContain == mc \/ k \in BKeys(t.blocks[b]) IN
      IF useFilter /\ ~mayContain THEN Miss
      ELSE IF b \in d.data THEN Corrupt
      ELSE LET G == {x \in BKeys(t.blocks[b]) : x >= k} IN
        IF G # {} THEN Hit(t, MinOf(G))
        ELSE IF b = NB(t) THEN Miss                       \* fall through to the next block
        ELSE IF (b + 1) \in d.data THEN Corrupt
        ELSE IF t.blocks[b+1] = <<>> THEN Miss ELSE Hit(t, FirstK(t.blocks[b+1]))

GetRes(t, d, k) ==
  LET r == FindRes(t, d, k, FALSE, TRUE) IN
  IF r[1] = "none" /\ r[2] # k THEN <<"notfound", 0>> ELSE <<r[1], r[3]>>

\* approximate offset: start of the block the index seek selects, else end of data
OffRes(t, d, k) ==
  IF d.meta \/ d.index THEN <<"corrupt", 0>>
  ELSE LET S == SepGE(t, k, 1, NB(t)) IN
       <<"none", IF S = {} THEN t.dataEnd ELSE t.offs[MinOf(S)]>>

\* The sorted-map oracle.
OFind(t, k) == LET S == {x \in TKeys(t) : x >= k} IN IF S = {} THEN Miss ELSE Hit(t, MinOf(S))
OGet(t, k)  == IF t.view[k] = 0 THEN <<"notfound", 0>> ELSE <<"none", t.view[k]>>

-----------------------------------------------------------------------------
(* The two-level iterator over [lo, hi): indexedIterator over the sliced   *)
(* index block; the first and the last data block of the slice are sliced  *)
(* by the same range.  A cursor is at SOI, on a pair, or at EOI; data      *)
(* blocks are loaded when the index cursor reaches them.                   *)

BLo(t, c) == LET S == SepGE(t, c.lo, 1, NB(t)) IN IF S = {} THEN NB(t) + 1 ELSE MinOf(S)
BHi(t, c) == LET S == SepGE(t, c.hi, 1, NB(t)) IN IF S = {} THEN NB(t) ELSE MinOf(S)
Vis(t, c, b) == {k \in BKeys(t.blocks[b]) : c.lo <= k /\ k < c.hi}
NextB(t, c, b) == IF b < BHi(t, c) THEN b + 1 ELSE 0
PrevB(t, c, b) == IF b > BLo(t, c) THEN b - 1 ELSE 0

\* index cursor moved to block b (0: exhausted); load it and take its first / last pair
RECURSIVE Fwd(_, _, _, _), Bwd(_, _, _, _)
Fwd(t, d, c, b) ==
  IF b = 0 THEN EOI
  ELSE IF b \in d.data THEN (IF t.strict THEN ERR ELSE Fwd(t, d, c, NextB(t, c, b)))
  ELSE IF Vis(t, c, b) # {} THEN MinOf(Vis(t, c, b)) ELSE Fwd(t, d, c, NextB(t, c, b))
Bwd(t, d, c, b) ==
  IF b = 0 THEN SOI
  ELSE IF b \in d.data THEN (IF t.strict THEN ERR ELSE Bwd(t, d, c, PrevB(t, c, b)))
  ELSE IF Vis(t, c, b) # {} THEN MaxOf(Vis(t, c, b)) ELSE Bwd(t, d, c, PrevB(t, c, b))

\* new position, or ERR
IMove(t, d, c, mv, x) ==
  LET lo == BLo(t, c)  hi == BHi(t, c)  empty == lo > hi IN
  CASE mv = "first" -> IF empty THEN EOI ELSE Fwd(t, d, c, lo)
    [] mv = "last"  -> IF empty THEN SOI ELSE Bwd(t, d, c, hi)
    [] mv = "seek"  ->
         LET S == SepGE(t, x, lo, hi) IN
         IF S = {} THEN EOI
         ELSE LET b == MinOf(S) IN
           IF b \in d.data THEN (IF t.strict THEN ERR ELSE Fwd(t, d, c, NextB(t, c, b)))
           ELSE LET G == {k \in Vis(t, c, b) : k >= x} IN
                IF G # {} THEN MinOf(G) ELSE Fwd(t, d, c, NextB(t, c, b))
    [] mv = "next"  ->
         IF c.pos = EOI THEN EOI
         ELSE IF c.pos = SOI THEN (IF empty THEN EOI ELSE Fwd(t, d, c, lo))
         ELSE LET b == t.bof[c.pos]  G == {k \in Vis(t, c, b) : k > c.pos} IN
              IF G # {} THEN MinOf(G) ELSE Fwd(t, d, c, NextB(t, c, b))
    [] mv = "prev"  ->
         IF c.pos = SOI THEN SOI
         ELSE IF c.pos = EOI THEN (IF empty THEN SOI ELSE Bwd(t, d, c, hi))
         ELSE LET b == t.bof[c.pos]  G == {k \in Vis(t, c, b) : k < c.pos} IN
              IF G # {} THEN MaxOf(G) ELSE Bwd(t, d, c, PrevB(t, c, b))

\* what the client sees after a move: <<valid, key, value, error>>
IObs(t, p) == IF p = ERR THEN <<FALSE, -1, 0, "corrupt">>
              ELSE IF p = SOI \/ p = EOI THEN <<FALSE, -1, 0, "none">>
              ELSE <<TRUE, p, t.view[p], "none">>

\* A whole scan (first, next* / last, prev*) with an unrestricted range:
\* <<pairs seen, final error>>.
FullCur == [open |-> TRUE, lo |-> SOI, hi |-> EOI, pos |-> SOI, dead |-> FALSE]
RECURSIVE ScanFrom(_, _, _, _, _)
ScanFrom(t, d, mv, p, acc) ==
  IF p = ERR THEN <<acc, "corrupt">>
  ELSE IF p = SOI \/ p = EOI THEN <<acc, "none">>
  ELSE ScanFrom(t, d, mv, IMove(t, d, [FullCur EXCEPT !.pos = p], mv, 0), Append(acc, <<p, t.view[p]>>))
ScanRes(t, d, dir) ==
  IF d.meta \/ d.index THEN <<<<>>, "corrupt">>
  ELSE IF dir = "fwd" THEN ScanFrom(t, d, "next", IMove(t, d, FullCur, "first", 0), <<>>)
  ELSE ScanFrom(t, d, "prev", IMove(t, d, FullCur, "last", 0), <<>>)

-----------------------------------------------------------------------------
(* Actions *)

TInit == tbl = NoTbl /\ dmg = NoDmg /\ cur = NoCur /\ res = <<"init">>

\* Writer.Append* ; Writer.Close ; NewReader
Build(raw) ==
  /\ WellFormed(raw)
  /\ tbl' = Derive(raw)
  /\ dmg' = NoDmg /\ cur' = NoCur
  /\ res' = <<"built">>

Find(k, f, mc) ==
  /\ res' = FindRes(tbl, dmg, k, f, mc)
  /\ UNCHANGED <<tbl, dmg, cur>>

FindKey(k, f, mc) ==
  /\ res' = LET r == FindRes(tbl, dmg, k, f, mc) IN <<r[1], r[2]>>
  /\ UNCHANGED <<tbl, dmg, cur>>

Get(k) ==
  /\ res' = GetRes(tbl, dmg, k)
  /\ UNCHANGED <<tbl, dmg, cur>>

OffsetOf(k) ==
  /\ res' = OffRes(tbl, dmg, k)
  /\ UNCHANGED <<tbl, dmg, cur>>

NewIter(lo, hi) ==
  /\ lo \in -1 .. NK /\ hi \in 0 .. NK /\ lo <= hi
  /\ LET dead == dmg.meta \/ dmg.index IN
     /\ cur' = [open |-> TRUE, lo |-> lo, hi |-> hi, pos |-> SOI, dead |-> dead]
     /\ res' = <<IF dead THEN "corrupt" ELSE "none">>
  /\ UNCHANGED <<tbl, dmg>>

IterMove(mv, x) ==
  /\ cur.open
  /\ IF cur.dead
     THEN res' = <<FALSE, -1, 0, "corrupt">> /\ UNCHANGED cur
     ELSE LET p == IMove(tbl, dmg, cur, mv, x) IN
          /\ cur' = IF p = ERR THEN [cur EXCEPT !.dead = TRUE] ELSE [cur EXCEPT !.pos = p]
          /\ res' = IObs(tbl, p)
  /\ UNCHANGED <<tbl, dmg>>

IterRelease ==
  /\ cur' = NoCur
  /\ res' = <<"none">>
  /\ UNCHANGED <<tbl, dmg>>

\* The file is altered inside one checksummed block and reopened; part: "data" (block b),
\* "index", "meta", "filter".  The damaged set replaces the previous one.
DmgOf(part, b) ==
  CASE part = "data"   -> [NoDmg EXCEPT !.data = {b}]
    [] part = "index"  -> [NoDmg EXCEPT !.index = TRUE]
    [] part = "meta"   -> [NoDmg EXCEPT !.meta = TRUE]
    [] part = "filter" -> [NoDmg EXCEPT !.filter = TRUE]

Damage(part, b) ==
  /\ part \in {"data", "index", "meta", "filter"}
  /\ part = "data" => b \in 1 .. NB(tbl)
  /\ dmg' = DmgOf(part, b)
  /\ cur' = NoCur
  /\ res' = <<"damaged">>
  /\ UNCHANGED tbl

=============================================================================
