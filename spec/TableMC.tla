----------------------------- MODULE TableMC -----------------------------
(***************************************************************************)
(* Exhaustive check of Table.tla on small constants: every key subset,     *)
(* every cut into at most MaxB blocks, every separator choice, filter and  *)
(* strictness setting, every damaged set (DmgMax bounds its size; 0 = no   *)
(* damage), every iterator range and every sequence of moves.              *)
(***************************************************************************)
EXTENDS Table, SequencesExt

CONSTANTS MaxB,      \* at most MaxB data blocks
          DmgMax     \* at most DmgMax damaged blocks (data + index + meta + filter)

KeySeq(S) == SetToSortSeq(S, LAMBDA a, b : a < b)

\* cut positions: a cut after the i-th pair
CutsOf(n) == {C \in SUBSET (1 .. (n - 1)) : Cardinality(C) <= MaxB - 1}

BlocksOf(S, C) ==
  LET ks == KeySeq(S)  n == Len(ks)
      starts == KeySeq({1} \cup {i + 1 : i \in C})
      endOf(j) == IF j = Len(starts) THEN n ELSE starts[j+1] - 1
  IN IF n = 0 THEN << <<>> >>
     ELSE [j \in 1 .. Len(starts) |-> [i \in 1 .. (endOf(j) - starts[j] + 1) |->
                                         LET k == ks[starts[j] + i - 1] IN <<k, k + 1>>]]

B2N(b) == IF b THEN 1 ELSE 0

MCInit ==
  \E S \in SUBSET Keys : \E C \in CutsOf(Cardinality(S)) :
    LET bs == BlocksOf(S, C)  n == Len(bs) IN
    \E sp \in [1 .. n -> -1 .. NK] :
      LET raw(fl, st) == [blocks |-> bs, seps |-> sp, filter |-> fl, strict |-> st,
                          offs |-> [i \in 1 .. n |-> 3 * (i - 1)], dataEnd |-> 3 * n, size |-> 3 * n + 7] IN
      /\ WellFormed(raw(FALSE, FALSE))
      /\ \E fl \in BOOLEAN, st \in BOOLEAN, dd \in SUBSET (1 .. n),
            di \in BOOLEAN, dm \in BOOLEAN, df \in BOOLEAN :
           /\ df => fl
           /\ Cardinality(dd) + B2N(di) + B2N(dm) + B2N(df) <= DmgMax
           /\ tbl = Derive(raw(fl, st))
           /\ dmg = [data |-> dd, index |-> di, meta |-> dm, filter |-> df]
           /\ cur = NoCur
           /\ res = <<"init">>

\* Lookups change nothing but `res`: taking them from the states without a cursor covers
\* every (layout, damaged set, call); the invariants below quantify over all calls anyway.
MCNext ==
  \/ ~cur.open /\ \E k \in Keys, f \in BOOLEAN, mc \in BOOLEAN : Find(k, f, mc) \/ FindKey(k, f, mc)
  \/ ~cur.open /\ \E k \in Keys : Get(k) \/ OffsetOf(k)
  \/ ~cur.open /\ \E lo \in -1 .. NK, hi \in 0 .. NK : NewIter(lo, hi)
  \/ \E mv \in {"first", "last", "next", "prev"} : IterMove(mv, 0)
  \/ \E x \in Keys : IterMove("seek", x)
  \/ IterRelease

MCSpec == MCInit /\ [][MCNext]_tvars
MCView == <<tbl, dmg, cur>>          \* `res` is output only

-----------------------------------------------------------------------------
Damaged == dmg # NoDmg
AnyData == dmg.data # {}

TypeOK ==
  /\ cur.pos \in Keys \cup {SOI, EOI}
  /\ cur.lo <= cur.hi
  /\ dmg.data \subseteq 1 .. NB(tbl)

\* Every pair lives in exactly one block, and the view is the concatenation of the blocks.
LayoutOK ==
  /\ \A k \in Keys : tbl.bof[k] # 0 => \A i \in 1 .. NB(tbl) : k \in BKeys(tbl.blocks[i]) => i = tbl.bof[k]
  /\ \A i \in 1 .. NB(tbl) - 1 : LastK(tbl.blocks[i]) < FirstK(tbl.blocks[i+1])

\* Find / FindKey: the first pair at or after k; a filter miss only for a key that is not
\* in the table; corruption only if something is damaged; never any other pair.
FindOK ==
  \A k \in Keys, f \in BOOLEAN, mc \in BOOLEAN :
    LET r == FindRes(tbl, dmg, k, f, mc) IN
    \/ r = OFind(tbl, k)
    \/ r = Miss /\ f /\ tbl.filter /\ ~dmg.filter /\ ~mc /\ tbl.view[k] = 0
    \/ r = Corrupt /\ (dmg.meta \/ dmg.index \/ AnyData)

\* a key of the table is found whatever the filter says about other keys
FindAdded ==
  \A k \in TKeys(tbl), f \in BOOLEAN, mc \in BOOLEAN :
    FindRes(tbl, dmg, k, f, mc) \in {Hit(tbl, k), Corrupt}

GetOK ==
  \A k \in Keys : LET r == GetRes(tbl, dmg, k) IN
    \/ r = OGet(tbl, k)
    \/ r = <<"corrupt", 0>> /\ (dmg.meta \/ dmg.index \/ AnyData)

\* a read whose block is intact is answered: damage elsewhere does not matter
UntouchedOK ==
  \A k \in TKeys(tbl) :
    (~dmg.meta /\ ~dmg.index /\ tbl.bof[k] \notin dmg.data) => GetRes(tbl, dmg, k) = OGet(tbl, k)

OffOK ==
  \A k1 \in Keys, k2 \in Keys :
    LET a == OffRes(tbl, dmg, k1)  b == OffRes(tbl, dmg, k2) IN
    /\ a[1] = "none" => 0 <= a[2] /\ a[2] <= tbl.size
    /\ (k1 <= k2 /\ a[1] = "none" /\ b[1] = "none") => a[2] <= b[2]
    /\ a[1] = "corrupt" => (dmg.meta \/ dmg.index)

\* The view a (non-strict) iterator is entitled to: pairs of intact blocks.
EffView == [k \in Keys |-> IF tbl.bof[k] \in dmg.data /\ ~tbl.strict THEN 0 ELSE tbl.view[k]]
OCur    == [view |-> EffView, lo |-> cur.lo, hi |-> cur.hi, pos |-> cur.pos]

\* Every move from every reachable cursor state obeys the cursor laws of KV.tla (C02's
\* oracle), or reports corruption (strict reader, some data block damaged).
CursorOK ==
  (cur.open /\ ~cur.dead) =>
    \A mv \in {"first", "last", "next", "prev", "seek"}, x \in Keys :
      LET p == IMove(tbl, dmg, cur, mv, x) IN
      \/ p = K!Move(OCur, mv, x)
      \/ p = ERR /\ tbl.strict /\ AnyData

\* a valid cursor sits on a pair of the table inside its range, in an intact block
CursorOnPair ==
  cur.pos \in Keys => /\ tbl.view[cur.pos] # 0 /\ cur.lo <= cur.pos /\ cur.pos < cur.hi
                      /\ tbl.bof[cur.pos] \notin dmg.data

\* whole scans equal the list of pairs (undamaged table), or a prefix / sub-list of it
ScanOK ==
  LET all == KeySeq(TKeys(tbl))
      f == ScanRes(tbl, dmg, "fwd")  b == ScanRes(tbl, dmg, "bwd") IN
  ~Damaged => /\ f = <<[i \in 1 .. Len(all) |-> <<all[i], tbl.view[all[i]]>>], "none">>
              /\ b = <<[i \in 1 .. Len(all) |-> <<all[Len(all) + 1 - i], tbl.view[all[Len(all) + 1 - i]]>>], "none">>
=============================================================================
