SPECIFICATION MCSpec
CONSTANTS
  NK = 4
  MaxB = 3
  DmgMax = 1
VIEW MCView
INVARIANTS TypeOK LayoutOK FindOK FindAdded GetOK UntouchedOK OffOK CursorOK CursorOnPair ScanOK
CHECK_DEADLOCK FALSE
