SPECIFICATION MCSpec
CONSTANTS
  NK = 5
  MaxB = 3
  DmgMax = 6
VIEW MCView
INVARIANTS TypeOK LayoutOK FindOK FindAdded GetOK UntouchedOK OffOK CursorOK CursorOnPair ScanOK
CHECK_DEADLOCK FALSE
