SPECIFICATION TraceSpec
CONSTANT NK = 64
VIEW TraceView
POSTCONDITION Report
CHECK_DEADLOCK FALSE
