--------------------------- MODULE TableTrace ---------------------------
(***************************************************************************)
(* Trace specification for C13: every call the driver (harness/cmd/tbl)    *)
(* made on the REAL table.Writer / table.Reader, with its recorded reply,  *)
(* must be a step of Table.tla.  One NDJSON line per completed call; a     *)
(* "table" line carries the layout the writer produced (pairs per block    *)
(* from the writer's own flushes, separators as the OffsetOf sweep shows   *)
(* them) and re-initialises the state, so many tables follow each other in *)
(* one file.  A "trial" line is one damaged reopen with every read         *)
(* repeated (identical trials are folded by the driver, `count` of them).  *)
(* A line that no action with the recorded reply explains stops the trace  *)
(* there: the check reports that line.                                     *)
(***************************************************************************)
EXTENDS Table, Json, IOUtils

Trace == ndJsonDeserialize(IOEnv.TRACE)

VARIABLE l
trvars == <<tvars, l>>

E == Trace[l]
Is(name) == E.ev = name

ErrS(c) == CASE c = 0 -> "none" [] c = 1 -> "notfound" [] c = 2 -> "corrupt" [] OTHER -> "unexplained"

\* the writer's product must be a well-formed table (guard of Build)
TTable ==
  /\ Is("table")
  /\ E.nk <= NK
  /\ Build([blocks |-> E.blocks, seps |-> E.seps, filter |-> (E.filter = 1), strict |-> (E.strict = 1),
            offs |-> E.offs, dataEnd |-> E.dataend, size |-> E.size])

TOff     == Is("off")     /\ OffsetOf(E.k) /\ res' = <<E.err, E.off>>
TFind    == Is("find")    /\ \E mc \in BOOLEAN : Find(E.k, E.f = 1, mc) /\ res' = <<E.err, E.rk, E.v>>
TFindKey == Is("findkey") /\ \E mc \in BOOLEAN : FindKey(E.k, E.f = 1, mc) /\ res' = <<E.err, E.rk>>
TGet     == Is("get")     /\ Get(E.k) /\ res' = <<E.err, E.v>>
TIterNew == Is("iternew") /\ NewIter(E.lo, IF E.hi > NK THEN NK ELSE E.hi) /\ res' = <<E.err>>
TIter    == Is("iter")    /\ IterMove(E.mv, E.arg) /\ res' = <<E.ok = 1, E.k, E.v, E.err>> /\ E.valid = E.ok
TIterRel == Is("iterrel") /\ IterRelease

\* One damaged reopen: every recorded read is what the model says for that damaged set.
TTrial ==
  /\ Is("trial")
  /\ E.panic = 0 /\ E.open = "none"
  /\ Damage(E.part, E.b)
  /\ \A i \in 1 .. Len(E.finds) :
       LET q == E.finds[i] IN
       \E mc \in BOOLEAN : FindRes(tbl, dmg', q[1], q[2] = 1, mc) = <<ErrS(q[3]), q[4], q[5]>>
  /\ \A i \in 1 .. Len(E.gets) :
       LET q == E.gets[i] IN GetRes(tbl, dmg', q[1]) = <<ErrS(q[2]), q[3]>>
  /\ \A i \in 1 .. Len(E.offs) :
       LET q == E.offs[i] IN OffRes(tbl, dmg', q[1]) = <<ErrS(q[2]), q[3]>>
  /\ ScanRes(tbl, dmg', "fwd") = <<E.fwd, ErrS(E.fwderr)>>
  /\ ScanRes(tbl, dmg', "bwd") = <<E.bwd, ErrS(E.bwderr)>>

\* informational lines
TNote == Is("note") /\ UNCHANGED tvars

TraceInit == TInit /\ l = 1 /\ TLCSet(1, 1)

TraceNext ==
  /\ l <= Len(Trace)
  /\ l' = l + 1
  /\ \/ TTable \/ TOff \/ TFind \/ TFindKey \/ TGet
     \/ TIterNew \/ TIter \/ TIterRel \/ TTrial \/ TNote
  /\ TLCSet(1, IF TLCGet(1) < l' THEN l' ELSE TLCGet(1))

TraceSpec == TraceInit /\ [][TraceNext]_trvars

\* `res` is output only
TraceView == <<tbl, dmg, cur, l>>

Report ==
  /\ PrintT(<<"VERIF-HWM", TLCGet(1), Len(Trace)>>)
  /\ IF TLCGet(1) <= Len(Trace) THEN PrintT(<<"VERIF-STUCK", Trace[TLCGet(1)]>>) ELSE TRUE
=============================================================================
