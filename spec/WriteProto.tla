---------------------------- MODULE WriteProto ----------------------------
(* Channel-level model of db_write.go: Write/putRec select, writeLocked merge
   loop, unlockWrite, plus Close and the persistent-error lock holder. *)
EXTENDS Naturals, FiniteSets, Sequences, TLC
CONSTANTS Writers,      \* set of writer ids
          Big,          \* subset of Writers whose batch exceeds the merge limit
          NoMerge,      \* subset of Writers with NoWriteMerge
          MergeCap,     \* max number of small writers one leader may merge
          WithClose, WithPErr, WithJournalErr

VARIABLES pc,        \* pc[w] : control state of writer w
          lock,      \* holder of writeLockC token: "free" or a process id
          grp,       \* [leader |-> w, merged |-> set, overflow |-> w or "none", acks |-> n, err |-> bool]
          result,    \* result[w] \in {"none","ok","err","closed","perr"}
          nres,      \* number of results delivered to w
          closed, closerPc, perrPc, compWriteLocking
vars == <<pc, lock, grp, result, nres, closed, closerPc, perrPc, compWriteLocking>>

NoGrp == [leader |-> "none", merged |-> {}, overflow |-> "none", acks |-> 0, err |-> FALSE, left |-> 0]

Init == /\ pc = [w \in Writers |-> "start"]
        /\ lock = "free"
        /\ grp = NoGrp
        /\ result = [w \in Writers |-> "none"]
        /\ nres = [w \in Writers |-> 0]
        /\ closed = FALSE
        /\ closerPc = IF WithClose THEN "idle" ELSE "off"
        /\ perrPc = IF WithPErr THEN "noerr" ELSE "off"
        /\ compWriteLocking = FALSE

Deliver(w, r) == /\ result' = [result EXCEPT ![w] = r]
                 /\ nres' = [nres EXCEPT ![w] = @ + 1]

(* ---- writer select ---- *)
AcquireLock(w) ==
  /\ pc[w] = "start" /\ lock = "free"
  /\ lock' = w
  /\ pc' = [pc EXCEPT ![w] = "flush"]
  /\ UNCHANGED <<grp, result, nres, closed, closerPc, perrPc, compWriteLocking>>

SeeClosed(w) ==
  /\ pc[w] = "start" /\ closed
  /\ pc' = [pc EXCEPT ![w] = "done"] /\ Deliver(w, "closed")
  /\ UNCHANGED <<lock, grp, closed, closerPc, perrPc, compWriteLocking>>

SeePErr(w) ==
  /\ pc[w] = "start" /\ perrPc = "hasperr"
  /\ pc' = [pc EXCEPT ![w] = "done"] /\ Deliver(w, "perr")
  /\ UNCHANGED <<lock, grp, closed, closerPc, perrPc, compWriteLocking>>

(* rendezvous on writeMergeC: sender w (in select), receiver = leader in merge loop *)
MergeRendezvous(l, w) ==
  /\ pc[l] = "mergeloop" /\ pc[w] = "start" /\ w \notin NoMerge /\ l \notin NoMerge
  /\ Cardinality(grp.merged) < MergeCap
  /\ IF w \in Big
       THEN /\ grp' = [grp EXCEPT !.overflow = w]
            /\ pc' = [pc EXCEPT ![w] = "waitMerged", ![l] = "journal"]
       ELSE /\ grp' = [grp EXCEPT !.merged = @ \cup {w}]
            /\ pc' = [pc EXCEPT ![w] = "waitMerged", ![l] = "replyMerged"]
  /\ UNCHANGED <<lock, result, nres, closed, closerPc, perrPc, compWriteLocking>>

(* leader: writeMergedC <- true ; receiver is the writer just merged *)
ReplyMerged(l) ==
  /\ pc[l] = "replyMerged"
  /\ \E w \in grp.merged : pc[w] = "waitMerged" /\
        pc' = [pc EXCEPT ![w] = "waitAck", ![l] = "mergeloop"]
  /\ UNCHANGED <<lock, grp, result, nres, closed, closerPc, perrPc, compWriteLocking>>

(* ---- leader path ---- *)
Flush(l) ==
  /\ pc[l] = "flush"
  /\ \/ /\ grp' = [NoGrp EXCEPT !.leader = l]        \* flush ok
        /\ pc' = [pc EXCEPT ![l] = IF l \in NoMerge THEN "journal" ELSE "mergeloop"]
        /\ UNCHANGED <<lock, result, nres>>
     \/ /\ closed                                     \* flush fails (ErrClosed from compTriggerWait): unlockWrite(false,0,err)
        /\ lock' = "free" /\ grp' = NoGrp
        /\ pc' = [pc EXCEPT ![l] = "done"] /\ Deliver(l, "closed")
  /\ UNCHANGED <<closed, closerPc, perrPc, compWriteLocking>>

MergeDefault(l) ==   \* select default: nobody (else) ready to merge
  /\ pc[l] = "mergeloop"
  /\ pc' = [pc EXCEPT ![l] = "journal"]
  /\ UNCHANGED <<lock, grp, result, nres, closed, closerPc, perrPc, compWriteLocking>>

Journal(l) ==
  /\ pc[l] = "journal"
  /\ \E e \in (IF WithJournalErr THEN BOOLEAN ELSE {FALSE}) :
        grp' = [grp EXCEPT !.err = e, !.left = Cardinality(grp.merged)]
  /\ pc' = [pc EXCEPT ![l] = "acks"]
  /\ UNCHANGED <<lock, result, nres, closed, closerPc, perrPc, compWriteLocking>>

(* unlockWrite: writeAckC <- err, one per merged writer; any waiting merged writer may receive *)
SendAck(l) ==
  /\ pc[l] = "acks" /\ grp.left > 0
  /\ \E w \in Writers : /\ pc[w] = "waitAck"
                        /\ pc' = [pc EXCEPT ![w] = "done"]
                        /\ Deliver(w, IF grp.err THEN "err" ELSE "ok")
  /\ grp' = [grp EXCEPT !.left = @ - 1]
  /\ UNCHANGED <<lock, closed, closerPc, perrPc, compWriteLocking>>

Unlock(l) ==
  /\ pc[l] = "acks" /\ grp.left = 0
  /\ IF grp.overflow # "none"
       THEN /\ pc[grp.overflow] = "waitMerged"     \* writeMergedC <- false : hand-off
            /\ lock' = grp.overflow
            /\ pc' = [pc EXCEPT ![l] = "done", ![grp.overflow] = "flush"]
       ELSE /\ lock' = "free"
            /\ pc' = [pc EXCEPT ![l] = "done"]
  /\ Deliver(l, IF grp.err THEN "err" ELSE "ok")
  /\ grp' = NoGrp
  /\ UNCHANGED <<closed, closerPc, perrPc, compWriteLocking>>

(* ---- Close ---- *)
CloseBegin == /\ closerPc = "idle" /\ closed' = TRUE /\ closerPc' = "wantlock"
              /\ UNCHANGED <<pc, lock, grp, result, nres, perrPc, compWriteLocking>>
CloseLock  == /\ closerPc = "wantlock" /\ lock = "free" /\ lock' = "closer" /\ closerPc' = "done"
              /\ UNCHANGED <<pc, grp, result, nres, closed, perrPc, compWriteLocking>>

(* ---- compactionError goroutine, persistent error ---- *)
PErrRaise == /\ perrPc = "noerr" /\ perrPc' = "hasperr"
             /\ UNCHANGED <<pc, lock, grp, result, nres, closed, closerPc, compWriteLocking>>
PErrLock  == /\ perrPc = "hasperr" /\ ~closed /\ lock = "free" /\ lock' = "perr" /\ compWriteLocking' = TRUE
             /\ UNCHANGED <<pc, grp, result, nres, closed, closerPc, perrPc>>
PErrExit  == /\ perrPc = "hasperr" /\ closed
             /\ IF compWriteLocking THEN lock' = "free" ELSE UNCHANGED lock
             /\ perrPc' = "exited"
             /\ UNCHANGED <<pc, grp, result, nres, closed, closerPc, compWriteLocking>>

Next == \/ \E w \in Writers : AcquireLock(w) \/ SeeClosed(w) \/ SeePErr(w) \/ Flush(w) \/ MergeDefault(w)
                              \/ Journal(w) \/ SendAck(w) \/ Unlock(w) \/ ReplyMerged(w)
        \/ \E l, w \in Writers : l # w /\ MergeRendezvous(l, w)
        \/ CloseBegin \/ CloseLock \/ PErrRaise \/ PErrLock \/ PErrExit

Spec == Init /\ [][Next]_vars /\ WF_vars(Next)

AllDone == \A w \in Writers : pc[w] = "done"
Leaders == {w \in Writers : pc[w] \in {"flush","mergeloop","replyMerged","journal","acks"}}
(* properties *)
Mutex == Cardinality(Leaders) <= 1 /\ (Leaders # {} => \E w \in Leaders : lock = w)
ExactlyOne == \A w \in Writers : nres[w] <= 1 /\ (pc[w] = "done" <=> nres[w] = 1)
NoOrphan == (lock \notin Writers) => \A w \in Writers : pc[w] \notin {"waitAck", "waitMerged"}
Terminates == <>AllDone
LockFreeAtEnd == AllDone /\ closerPc \in {"off","idle"} /\ perrPc \in {"off","noerr"} => lock = "free"
(* Terminal states are fine only if all writers are done *)
DeadlockFree == (~ ENABLED Next) => AllDone
=============================================================================
