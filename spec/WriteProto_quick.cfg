CONSTANTS
  Writers = {w1, w2, w3}
  Big = {w3}
  NoMerge = {}
  MergeCap = 2
  WithClose = TRUE
  WithPErr = TRUE
  WithJournalErr = TRUE
SPECIFICATION Spec
INVARIANTS Mutex ExactlyOne NoOrphan LockFreeAtEnd DeadlockFree
PROPERTY Terminates
CHECK_DEADLOCK FALSE
