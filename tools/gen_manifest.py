#!/usr/bin/env python3
"""Regenerates /verif/MANIFEST.json from the table below (single source for the interface)."""
import json
import os
import subprocess

VERIF = os.path.dirname(os.path.dirname(os.path.abspath(__file__)))

TB = ("TLC 1.8 and the CommunityModules Json reader; the harness's reference comparers, key ranks, value interning "
      "and in-memory recording storage (harness/internal/vt); the Go toolchain")

CHECKS = {
    "C01": dict(cat="model_checking", ref="5 C01",
                text="KV.tla (ordered-map contract) is model-checked exhaustively on small constants; every Get/Has reply of seeded "
                     "single-client programs run on the real DB (option matrix x 3 comparers x 3 shortening behaviours, all compaction "
                     "kinds reached, reopen) is validated by TLC against KV.tla through KVTrace.tla: a reply the contract cannot explain "
                     "stops the trace at that line.",
                tech="TLA+ contract spec + TLC trace validation of recorded real-DB calls"),
    "C02": dict(cat="model_checking", ref="5 C02",
                text="Cursor laws of KV.tla (First/Last/Seek/Next/Prev over the live pairs of a frozen view in [lo,hi)) model-checked; "
                     "every iterator move of seeded walks on DB/snapshot iterators of the real DB (reversals, stepping off both ends, "
                     "ranges, layouts produced by flushes and compactions) validated by TLC against them. DbIter.tla, Merged.tla and "
                     "Indexed.tla transcribe dbIter, the merging and the two-level iterator and are checked to refine the cursor; every "
                     "edge of the Merged/Indexed state graphs is replayed on the real NewMergedIterator/NewIndexedIterator.",
                tech="TLA+ cursor spec + TLC trace validation of iterator walks + state-graph edge cover replayed on the component iterators"),
    "C03": dict(cat="model_checking", ref="5 C03",
                text="KV.tla action property ViewsFrozen model-checked; real snapshots and iterators are held across writes, flushes and "
                     "compactions and every read through them is validated by TLC against the view frozen at creation.",
                tech="TLA+ frozen-view spec + TLC trace validation"),
    "C04": dict(cat="fault_enumeration", ref="5 C04",
                text="Durable.tla (journals, tables, manifest incl. rotation, transactions, recovery arithmetic) is model-checked: CrashSafe holds "
                     "in every reachable state for every admissible crash image. The real code decides: seeded workloads (sync/no-sync, "
                     "transactions, oversize batches, tiny manifest limit, compactions, reopen) run on a recording storage; for EVERY "
                     "storage-operation index x 5 image classes (unsynced tails lost / kept / cut / cut+zeros / cut+garbage), and for a second "
                     "crash at every operation of sampled recoveries, the real DB is reopened on the image and read back; TLC "
                     "(CrashTrace.tla) checks each distinct outcome: opened, contents = a witness set of whole batches in order containing "
                     "every sync-acknowledged batch; recovered DBs then run a KV-contract program. FileStore.tla models the real file "
                     "storage's CURRENT switching under crashes: every post-crash directory TLC reaches is put to the real GetMeta, and the "
                     "system calls of the real SetMeta (strace) are validated by FileStoreTrace.tla.",
                tech="TLA+ durability spec + exhaustive crash-point enumeration on the real code judged by TLC"),
    "C05": dict(cat="model_checking", ref="5 C05",
                text="ReadPath.tla (reader acquisition steps: register the sequence, buffers, version - against insert/publish, rotation, flush "
                     "install/drop and a table compaction that drops shadowed entries below the oldest registered reader) is model-checked as "
                     "coded; with a pair of steps swapped or the registration removed it must fail. Every schedule TLC enumerates from "
                     "ReadPathGen.tla is forced on the real DB through gate hooks (four reader kinds) and the answers are judged by "
                     "ReadPathTrace.tla. Concurrent histories of "
                     "the real DB (2-4 writers of cross-key batches incl. merged groups and oversize batches, point/snapshot/iterator "
                     "readers, a transaction user, a compactor; GOMAXPROCS 1/2/4/16) are validated by TLC (ConcTrace.tla): publications "
                     "bracketed by hook lines are the only state changes; each publication lies between call and return of its writers; "
                     "each read (a whole snapshot or iterator scan = one cut) is explained by ONE state whose index lies between the "
                     "publications completed at its call and begun at its return; a client's reads never go back.",
                tech="TLA+ read-path spec + TLC-generated schedules forced on the real code through gates + TLC validation of concurrent histories"),
    "C09": dict(cat="model_checking", ref="5 C09",
                text="Locks.tla (write lock, commit lock, transaction mutex, flush and table-compaction goroutines, Close, fault budget, "
                     "sticky manifest error) is model-checked: NoLeak, NoStuck and <>(all calls returned) under per-process fairness for "
                     "the repaired protocol; the four lock defects as they were coded must be found. Real code: the fault-position enumeration of C08, where a call that has not "
                     "returned 10 s after the faults stopped is the violation (with goroutine stacks); concurrent histories with Close "
                     "racing the clients, with storage faults, and with both, validated by TLC (ConcTrace.tla): at quiescence nothing is "
                     "pending, a finished call holds neither the write lock nor the commit lock.",
                tech="TLA+ lock-protocol spec with liveness + fault enumeration and concurrent histories judged by TLC"),
    "C10": dict(cat="model_checking", ref="5 C10",
                text="WriteProto.tla (select on merge/lock/error/close channels, merge loop, acknowledgements, hand-off, Close, persistent "
                     "error holder) is model-checked: Mutex, ExactlyOne, NoOrphan, LockFreeAtEnd, termination. Concurrent histories of the "
                     "real DB (2-6 writers with sizes below/above the merge limit, merge on/off, Close racing) with every write-path hook "
                     "event are validated by TLC (ConcTrace.tla, which transcribes writeLocked's batch list): one lock holder; group = "
                     "leader + merged writers identified by content; one journal record and one publication covering all members, synced "
                     "if any member asked; acknowledgements = merged writers; each member's reply = the group's result; the lock is "
                     "released or handed to exactly the writer that overflowed.",
                tech="TLA+ channel-level protocol spec + TLC validation of write-path hook traces from concurrent runs"),
    "C12": dict(cat="model_checking", ref="5 C12",
                text="Journal.tla (journal.Writer fields and calls on lengths; Reader.Next/nextChunk/singleReader.Read transcribed as the "
                     "resynchronisation rule; damage = cut + foreign tail + unreadable chunks) is model-checked exhaustively with a 16-byte "
                     "block: layout laws, round trip, tolerant output = written records minus only records touching a damaged block, strict "
                     "output = prefix then corruption error, nothing invented. TLC simulation of the same actions with the real 32 KiB block "
                     "generates action sequences (block-end residue classes, multi-block and empty records, flush patterns, refused calls); "
                     "the real Writer executes them and the real Reader (tolerant and strict, checksums on) reads the file truncated at every "
                     "offset, with zero/garbage tails and byte flips in every chunk header and sampled payload bytes; every call and every "
                     "damage trial is validated by TLC through JournalTrace.tla (layout equality, reader-rule equality, property monitors).",
                tech="TLA+ framing spec + TLC-generated action sequences replayed on the real code + TLC trace validation"),
    "C13": dict(cat="model_checking", ref="5 C13",
                text="Table.tla (sorted list cut into blocks, one separator per block chosen anywhere in [last_i, first_i+1), filter oracle "
                     "'added => may-contain', per-block damage, lookups as index seek/filter/block seek/fall-through, two-level range-sliced "
                     "iterator) model-checked for every layout, separator choice and damaged set on <=5 keys/<=3 blocks: lookups = sorted-map "
                     "oracle, moves = KV.tla cursor laws, OffsetOf monotone, damage => corruption-or-original; real table.Writer/Reader runs "
                     "over an option matrix (comparers, block size, restart interval, snappy, bloom/base, cache, buffer pool, strict reader) "
                     "with adversarial keys/values, lookups, OffsetOf, cursor walks and single-byte alterations of every checksummed block "
                     "(every byte in thorough) validated line by line by TLC.",
                tech="TLA+ table spec + TLC trace validation incl. exhaustive single-byte damage trials"),
    "C14": dict(cat="model_checking", ref="5 C14",
                text="MemDB.tla (ordered map, Len/Size/Free accounting as coded, live cursors, window rule for readers concurrent with the "
                     "single writer) is model-checked through MemDBMC.tla against a model of memdb.go as coded on 3-4 keys, 3-4 writes, 1-2 "
                     "readers; seeded sequential programs and concurrent histories (1 writer, 2-6 readers, Reset and reuse between epochs, 3 "
                     "comparers) recorded on the real memdb are validated line by line by TLC through MemDBTrace.tla; the concurrent driver "
                     "is also run under the race detector (reported, not deciding).",
                tech="TLA+ contract + coded-structure refinement check in TLC + TLC trace validation of calls and invocation/response histories"),
    "C15": dict(cat="model_checking", ref="5 C15",
                text="IKey.tla (internal order = user order then packed number descending, lookup probe, iComparer's separator/successor "
                     "acceptance rule over an abstract user-level answer) is model-checked exhaustively: strict total order over all triples, "
                     "probe placement, a <= sep(a,b) < b and succ(b) >= b for every admissible user answer, index routing, plus a run of the "
                     "unguarded rule that must fail. The REAL internal comparer is evaluated over 10 user comparers on the enumerated universe "
                     "(len<=3 over {00,61,ff} x seq {0,1,2^56-1} x both kinds: all ordered pairs, separator/successor calls, probes) and on "
                     "seeded universes of long random keys; every recorded answer is validated by TLC through IKeyTrace.tla, inequalities "
                     "judged on the harness's reference order.",
                tech="TLA+ order/shortening laws checked by TLC + exhaustive bounded conformance of the real iComparer by TLC trace validation"),
    "C17": dict(cat="model_checking", ref="5 C17",
                text="Cache.tla (bucket/node/LRU critical sections, unref and bucket-delete as separate steps, Delete callbacks, Evict*, "
                     "SetCapacity, Close force/non-force) model-checked exhaustively for 2 keys x 2/3 threads against the five clauses of "
                     "C17 (and the algorithm as it was before the two repairs must fail); the real cache.NewCache(NewLRU) under 2-16 "
                     "goroutines x GOMAXPROCS 1/2/4/16 with instrumented values (constructor, finaliser, deletion callbacks), table "
                     "growth/shrinkage and four closing variants is validated event by event by TLC through CacheTrace.tla, which drives "
                     "the same clause operators.",
                tech="TLA+ algorithm spec with observable clause layer + TLC trace monitoring of a concurrent stress driver"),
    "C06": dict(cat="model_checking", ref="5 C06",
                text="LSM.tla (flush, compaction with level-0 closure / next-level overlap / drop rule / output cuts, snapshots) is "
                     "model-checked: the C06 laws of LSMLaws.tla (disjoint ordered levels, no empty file, recency across levels) and ReadOK "
                     "hold in every reachable state. The same laws are evaluated by TLC (LSMTrace.tla) on EVERY version the real DB "
                     "installs (hook in session.setVersion, under its mutex) in seeded programs with flushes, all compaction kinds, "
                     "transactions and reopen: each new file exists with its recorded size, its entries (read back from the file) are "
                     "strictly ordered, recorded bounds = first/last entry, levels below 0 ordered and disjoint, shallower entries newer.",
                tech="TLA+ LSM design spec + shared laws evaluated by TLC on every version installation recorded from the real DB"),
    "C07": dict(cat="model_checking", ref="5 C07",
                text="LSMTrace.tla monitors on hook-level traces of the real DB: a table file is never removed from storage while the current "
                     "version or a version the reference loop still holds as referenced names it; iterators and snapshots held across "
                     "compactions keep validating against KV.tla; at settle points (readers released, background work drained, reference "
                     "loop synchronised) and after reopen the storage listing equals live tables + live journal + live manifest; after "
                     "delete-all + full compaction table bytes fall below a bound; part of the programs run with one storage fault inside a "
                     "table build (flush or compaction output) and are judged at the settle point after the failures stopped. RefLoop.tla "
                     "(session.refLoop transcribed) is model-checked.",
                tech="TLA+ monitors over reference/removal/settle events recorded from the real DB (TLC trace validation)"),
    "C08": dict(cat="fault_enumeration", ref="5 C08",
                text="KV.tla's failed-write semantics (a write that returned an error is applied now, or in limbo until a reopen decides, "
                     "atomically) and Durable.tla with a failing journal Sync are model-checked. A fault-free reference run yields the "
                     "per-(operation kind, file type) counts; each chosen position (create/write/sync/close/open/read/remove/setmeta x "
                     "journal/manifest/table x index, once / three times / until healed, torn writes) is injected into a re-run that goes on "
                     "calling, heals, closes, reopens and reads everything; TLC validates every reply against KV.tla (branching on the fate "
                     "of failed writes).",
                tech="TLA+ contract with limbo writes + fault-position enumeration on the real code judged by TLC trace validation"),
    "C19": dict(cat="model_checking", ref="5 C19",
                text="RecoverTrace.tla states the property as a monitor (Recover succeeds; a key whose newest entry survived keeps its "
                     "state; any other key holds a once-written value or nothing; the result is an ordinary DB). Seeded workloads are shut "
                     "down, settled (checked), their manifest/CURRENT removed, truncated or garbled and table blocks damaged; the real "
                     "leveldb.Recover runs on the remains and TLC judges each outcome and the follow-up use of the recovered DB.",
                tech="TLA+ monitor over recorded Recover outcomes of the real code (TLC trace validation)"),
    "C11": dict(cat="model_checking", ref="5 C11",
                text="KV.tla transaction actions (overlay over base, atomic commit, discard, writer exclusion) model-checked; seeded "
                     "transaction bodies with internal flushes, reads inside and outside, commit/discard/Close-with-open-transaction and "
                     "oversize batches on the real DB validated by TLC against them.",
                tech="TLA+ transaction spec + TLC trace validation"),
    "C16": dict(cat="model_checking", ref="5 C16",
                text="The contract spec has no filter in its state, so answers cannot depend on it; the same validation as C01/C02 is run "
                     "while the filter policy changes at every reopen (none / bloom 1,10,20, AltFilters, filter base), every reply "
                     "validated by TLC against KV.tla.",
                tech="TLA+ contract spec + TLC trace validation under changing filter policies"),
    "C18": dict(cat="model_checking", ref="5 C18",
                text="Lifecycle actions of KV.tla (Close, Reopen read-only or not, SetReadOnly, SecondOpen, StorageQuiet) model-checked; "
                     "seeded lifecycle programs on the real DB (second Open refused, every public method after Close, double Close, "
                     "read-only open with data only in the journal, SetReadOnly, storage activity counted by the recording storage "
                     "while read-only/after Close) validated by TLC against them. The real file storage is opened read-only on every "
                     "post-crash directory FileStore.tla reaches (pending-rename files, damaged pointers): no stored file may change.",
                tech="TLA+ lifecycle spec + TLC trace validation incl. storage-quiet observations"),
    "C20": dict(cat="model_checking", ref="5 C20",
                text="The contract spec has no buffers; a hostile client scribbles over every argument buffer after the call returns and "
                     "over every returned value, appends to exposed iterator slices, and checks that they stay intact until the next move; "
                     "all replies and the BufferIntact observations are validated by TLC against KV.tla; concurrent histories (merged "
                     "groups; large values copied out of write buffers that are being recycled) are validated by ConcTrace.tla.",
                tech="TLA+ contract spec + TLC trace validation under a buffer-poisoning client"),
}

NOT_YET = {}


def main():
    props = [json.loads(l) for l in open(os.path.join(VERIF, "properties.jsonl"))]
    ids = [p["id"] for p in props]
    checks = []
    for pid in ids:
        if pid not in CHECKS:
            continue
        c = CHECKS[pid]
        checks.append({
            "property_id": pid,
            "quick_cmd": "./check %s --tier quick" % pid,
            "thorough_cmd": "./check %s --tier thorough" % pid,
            "evidence_file": "/verif/evidence/%s.json" % pid,
            "replay_cmd_template": "./check %s --replay {path}" % pid,
            "engine": "tlc+harness",
            "level_claimed": {"category": c["cat"], "text": c["text"], "design_ref": "DESIGN.md section " + c["ref"]},
            "level_note": c.get("note", TB),
            "technique": c["tech"],
        })
    na = [{"property_id": pid, "reason": NOT_YET.get(pid, "check not built yet in this tree (see DESIGN.md section 5 for the planned decision procedure)")}
          for pid in ids if pid not in CHECKS]
    try:
        commits = subprocess.run(["git", "-C", "/repo", "log", "--format=%H %s"], capture_output=True, text=True).stdout.splitlines()
        hook_commits = [c.split()[0] for c in commits if c.split(" ", 1)[1].startswith("verif:")]
    except Exception:
        hook_commits = []
    m = {
        "version": 1,
        "setup_cmd": "./setup.sh",
        "hooks": {
            "guard": "verif",
            "enable": "go build -tags verif (harness module with replace github.com/syndtr/goleveldb => /repo)",
            "baseline_off_cmd": "cd /repo && GOFLAGS=-mod=mod go test -vet=off -count=1 -timeout 25m ./...",
            "source_commits": hook_commits,
            "add_only": True,
        },
        "engines": [
            {"name": "tlc+harness", "path": "/verif/check", "serves_properties": [c["property_id"] for c in checks],
             "kind_free_text": "TLA+ specs in /verif/spec checked by TLC; Go drivers in /verif/harness run the real code and record "
                               "traces that TLC validates against the specs; Python orchestration in /verif/lib"},
        ],
        "checks": checks,
        "not_applicable": na,
        "notes": "See DESIGN.md. Exit 2 from a check means trouble in the machinery, never a verdict.",
    }
    json.dump(m, open(os.path.join(VERIF, "MANIFEST.json"), "w"), indent=1)
    print("checks:", [c["property_id"] for c in checks], "n/a:", [x["property_id"] for x in na])


if __name__ == "__main__":
    main()
