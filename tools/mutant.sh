#!/bin/bash
# Seeded-change bookkeeping.
#   tools/mutant.sh confirm <src-dir> <id>       confirm a candidate in a scratch worktree of /repo:
#        patch applies, builds, demo fails with it and passes without it, repository suite stays green with it;
#        on success the change is kept as /verif/seeded/<id>/ (patch.diff, demo/, notes.md, confirm.log)
#   tools/mutant.sh run <id> <check> [<check>...]  apply seeded/<id>/patch.diff to /repo, run the checks, undo;
#        outcome appended to seeded/<id>/runs.log  (never leaves /repo modified; nothing else may use /repo meanwhile)
set -u
export GOFLAGS=-mod=mod GOPROXY=off GOSUMDB=off GOTOOLCHAIN=local
VERIF=/verif
cmd=$1; shift
case "$cmd" in
confirm)
  src=$1; id=$2
  wt=/tmp/mutv/$id
  dst=$VERIF/seeded/$id
  rm -rf "$wt"; mkdir -p /tmp/mutv "$dst"
  export TMPDIR=/tmp/mutv/tmp-$id; rm -rf "$TMPDIR"; mkdir -p "$TMPDIR"   # the repository's tests use the shared temp dir
  git -C /repo worktree add -q --detach "$wt" HEAD || exit 2
  log=$dst/confirm.log; : > "$log"
  ok=1
  ( cd "$wt" && git apply --check "$src/patch.diff" ) >>"$log" 2>&1 || { echo "patch does not apply" >>"$log"; ok=0; }
  if [ $ok = 1 ]; then
    echo "== demo on the unchanged tree (must pass)" >>"$log"
    ( cd "$src/demo" && timeout 900 bash "$src/demo/run.sh" "$wt" ) >>"$log" 2>&1; rc=$?
    echo "rc=$rc" >>"$log"; [ $rc = 0 ] || ok=0
    ( cd "$wt" && git checkout -q -- . && git clean -fdq )
    ( cd "$wt" && git apply "$src/patch.diff" && go build ./... && go vet ./leveldb/... ) >>"$log" 2>&1 || { echo "build/vet failed" >>"$log"; ok=0; }
    echo "== demo with the change (must fail)" >>"$log"
    ( cd "$src/demo" && timeout 900 bash "$src/demo/run.sh" "$wt" ) >>"$log" 2>&1; rc=$?
    echo "rc=$rc" >>"$log"; [ $rc != 0 ] || ok=0
    ( cd "$wt" && git clean -fdq )
    echo "== repository suite with the change (must pass)" >>"$log"
    ( cd "$wt" && go test -vet=off -count=1 -timeout 25m ./... ) >"$log.suite" 2>&1; rc=$?
    cat "$log.suite" >>"$log"
    if [ $rc != 0 ]; then
      # timing-sensitive tests of the repository fail under load on the unchanged tree too: a failure that consists only of
      # those is re-run alone (3 times); anything else stands
      failed=$(grep -E '^--- FAIL: ' "$log.suite" | sed 's/^--- FAIL: \([^ ]*\).*/\1/' | sort -u | tr '\n' ' ')
      flaky=1
      for t in $failed; do
        case "$t" in TestDB_CompactionTableOpenError|TestDB_BulkInsertDelete|TestDB_GracefulClose) ;; *) flaky=0;; esac
      done
      if [ -n "$failed" ] && [ $flaky = 1 ]; then
        echo "== only load-sensitive tests failed ($failed): re-running them alone" >>"$log"
        rc=0
        for t in $failed; do
          for i in 1 2 3; do ( cd "$wt" && go test -vet=off -count=1 -timeout 10m -run "^$t\$" ./leveldb/ ) >>"$log" 2>&1 || rc=1; done
        done
      fi
    fi
    rm -f "$log.suite"
    echo "suite rc=$rc" >>"$log"; [ $rc = 0 ] || ok=0
  fi
  git -C /repo worktree remove --force "$wt"
  rm -rf "$TMPDIR"
  if [ $ok = 1 ]; then
    cp "$src/patch.diff" "$dst/"; rm -rf "$dst/demo"; cp -r "$src/demo" "$dst/demo"; cp "$src/notes.md" "$dst/notes.md" 2>/dev/null
    echo "CONFIRMED $id"
  else
    echo "REJECTED $id (see $log)"
  fi
  ;;
run)
  id=$1; shift
  dst=$VERIF/seeded/$id
  [ -z "$(git -C /repo status --porcelain)" ] || { echo "/repo is not clean"; exit 2; }
  git -C /repo apply "$dst/patch.diff" || exit 2
  for c in "$@"; do
    s=$(date +%s)
    out=$(cd $VERIF && timeout 3000 ./check $c 2>&1); rc=$?
    e=$(date +%s)
    nv=$(echo "$out" | grep -c "^VIOLATION")
    first=$(echo "$out" | grep -A1 "^VIOLATION" | grep -v "^VIOLATION" | head -1 | cut -c1-300)
    echo "$(date -u +%FT%TZ) $id check=$c rc=$rc violations=$nv wall=$((e-s))s :: $first" | tee -a "$dst/runs.log"
  done
  git -C /repo checkout -- .
  [ -z "$(git -C /repo status --porcelain)" ] || echo "WARNING /repo not clean after undo"
  ;;
esac
