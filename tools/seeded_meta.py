#!/usr/bin/env python3
"""Writes seeded/<id>/meta.json for every kept seeded change and prints the table for DESIGN.md section 0.6."""
import json
import os
import re

VERIF = os.path.dirname(os.path.dirname(os.path.abspath(__file__)))
S = os.path.join(VERIF, "seeded")


def section(text, title_re):
    m = re.search(r"^##+\s*(%s).*?\n(.*?)(?=^##+\s|\Z)" % title_re, text, re.S | re.M | re.I)
    return re.sub(r"\s+", " ", m.group(2)).strip() if m else ""


rows = []
for d in sorted(os.listdir(S)):
    p = os.path.join(S, d)
    if not os.path.isfile(os.path.join(p, "patch.diff")):
        continue
    notes = open(os.path.join(p, "notes.md")).read() if os.path.exists(os.path.join(p, "notes.md")) else ""
    title = (re.search(r"^#\s*(.+)$", notes, re.M) or [None, d])[1].strip()
    files = sorted(set(re.findall(r"^\+\+\+ b/(\S+)", open(os.path.join(p, "patch.diff")).read(), re.M)))
    runs = []
    if os.path.exists(os.path.join(p, "runs.log")):
        for line in open(os.path.join(p, "runs.log")):
            m = re.match(r"(\S+) (\S+) check=(\S+) rc=(\d+) violations=(\d+) wall=(\d+)s :: ?(.*)", line.strip())
            if m:
                runs.append({"when": m.group(1), "check": m.group(3), "rc": int(m.group(4)), "violations": int(m.group(5)),
                             "wall_s": int(m.group(6)), "first_violation": m.group(7)[:300]})
    last = {}
    for r in runs:
        last[r["check"]] = r
    caught = sorted(c for c, r in last.items() if r["rc"] == 1 and r["violations"] > 0)
    missed = sorted(c for c, r in last.items() if r["rc"] == 0)
    broken = sorted(c for c, r in last.items() if r["rc"] not in (0, 1))
    conf = open(os.path.join(p, "confirm.log")).read() if os.path.exists(os.path.join(p, "confirm.log")) else ""
    meta = {
        "id": d, "property_broken": d.split("-")[0], "title": title, "files_changed": files,
        "why_it_breaks": section(notes, r"Why it breaks|Why|Mechanism")[:900],
        "needs_in_order_to_manifest": section(notes, r"What it needs|Trigger|Needs")[:900],
        "written_by": "independent sub-agent given only the property text and a scratch worktree",
        "confirmed": {"in": "scratch worktree of /repo (tools/mutant.sh confirm)",
                      "demo_passes_on_unchanged_tree": "rc=0" in conf.split("== demo with the change")[0],
                      "demo_fails_with_change": bool(re.search(r"== demo with the change.*?\nrc=[1-9]", conf, re.S)),
                      "repository_suite_green_with_change": "suite rc=0" in conf},
        "checks_run_against_it": runs, "caught_by": caught, "not_caught_by": missed, "check_broke_on_it": broken,
    }
    json.dump(meta, open(os.path.join(p, "meta.json"), "w"), indent=1)
    rows.append((d, title[:90], ", ".join(files)[:60], ", ".join(caught) or "—", ", ".join(missed) or "—"))

print("| change | what | files | caught by | run but not caught by |")
print("|---|---|---|---|---|")
for r in rows:
    print("| %s | %s | %s | %s | %s |" % r)
