#!/usr/bin/env python3
"""Refreshes the generated parts of DESIGN.md (seeded-change table)."""
import os, re, subprocess
V = os.path.dirname(os.path.dirname(os.path.abspath(__file__)))
table = subprocess.run(["python3", os.path.join(V, "tools", "seeded_meta.py")], capture_output=True, text=True).stdout
d = open(os.path.join(V, "DESIGN.md")).read()
d = re.sub(r"<!-- SEEDED-TABLE-BEGIN -->.*?<!-- SEEDED-TABLE-END -->", "<!-- SEEDED-TABLE-BEGIN -->\n" + table + "<!-- SEEDED-TABLE-END -->", d, flags=re.S)
open(os.path.join(V, "DESIGN.md"), "w").write(d)
