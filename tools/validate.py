#!/usr/bin/env python3
"""Validate MANIFEST.json and every evidence file against the schemas (tooling venv: python3-vt)."""
import glob, json, sys
import jsonschema
ok = True
def v(p, s):
    global ok
    try:
        jsonschema.validate(json.load(open(p)), json.load(open(s)))
        print("valid  ", p)
    except Exception as e:
        ok = False
        print("INVALID", p, str(e)[:300])
v('/verif/MANIFEST.json', '/root/.vp/MANIFEST.schema.json')
for f in sorted(glob.glob('/verif/evidence/*.json')):
    v(f, '/root/.vp/EVIDENCE.schema.json')
sys.exit(0 if ok else 1)
